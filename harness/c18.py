"""C18 spooled files / MultiFileReader: plug-in.

Python only moves data: it runs the same history on real Spooled*IO objects with
several max_size values and on the io reference object, and hands every
observation to Coq (Check/C18_Check.v), which evaluates agree / holds / known.
"""
import io
import json

from common import cnat, cN, cZ, clist, cpair, copt

ID = "C18"
IMPORTS = "From Boltons Require Import Lib.Prelude Spec.C18_Spec Model.C18_Model Check.C18_Check."
CASE_TYPE = "c18_case"
VERDICT = "c18_verdict"
EXPLAIN = "c18_explain"
CASES_PER_FILE = 120
CASE_TIMEOUT = 20
TIERS = {"quick": {"n": 1500}, "thorough": {"n": 30000}}
RULE = ("one history of write/read(n)/read()/readline/readlines/next/list/iteration/seek/tell/getvalue/len run on "
        "SpooledBytesIO or SpooledStringIO with 3 max_size values (1..larger than the data, incl. the exact rollover "
        "boundary) and on io.BytesIO/io.StringIO, tell() observed after every call (text: READ_CHUNK_SIZE patched to "
        "1..7 or left at 21333, multi-byte characters of every UTF-8 length); MultiFileReader over 0-5 member files "
        "(BytesIO, StringIO, TemporaryFile, Spooled*) with sized/unsized reads and seek(0). Non-trivial = some run "
        "rolled over while another had not and a reading call followed, or an MFR sized read crossed a member "
        "boundary; distinct = distinct canonical case hash")
ASSUMPTIONS = ["io.BytesIO and tempfile.TemporaryFile both behave as the abstract byte file (content, position)",
               "codecs.StreamReader/EncodedFile behave as transcribed from Lib/codecs.py (CPython 3.12)",
               "member files of a MultiFileReader return min(n, remaining) elements from read(n)"]
TRUSTED = ["Model/C18_Model.v is hand-written; tied to boltons.ioutils by the correspondence run",
           "io/codecs/tempfile of the standard library are modelled (byte file, StreamReader buffers, UTF-8), not verified",
           "harness/c18.py serialiser (groups runs with identical observations; every member is still checked in Coq)"]

LINE_OPS = ("readline", "readlines", "next", "list", "iter")
ODD_BREAKS = [13, 11, 12, 28, 29, 30, 133, 8232, 8233]


# --------------------------------------------------------------------------
# running one history on a file-like object
# --------------------------------------------------------------------------
def _enc(kind, codes):
    return bytes(codes) if kind == "bytes" else "".join(map(chr, codes))


def _dec(x):
    if isinstance(x, (bytes, bytearray)):
        return list(x)
    if isinstance(x, str):
        return [ord(c) for c in x]
    raise TypeError("unexpected value %r" % (x,))


def _apply(kind, f, op, is_ref):
    name = op[0]
    if name == "write":
        f.write(_enc(kind, op[1]))
        return ["none"]                      # the value returned by write() is not part of the property
    if name == "writebad":
        try:
            f.write("x" if kind == "bytes" else b"x")
        except TypeError:
            return ["err", "TypeError"]
        return ["none"]
    if name == "read":
        return ["data", _dec(f.read() if op[1] is None else f.read(op[1]))]
    if name == "readline":
        return ["data", _dec(f.readline() if op[1] is None else f.readline(op[1]))]
    if name == "readlines":
        return ["lines", [_dec(x) for x in (f.readlines() if op[1] == 0 else f.readlines(op[1]))]]
    if name == "next":
        try:
            return ["data", _dec(next(f))]
        except StopIteration:
            return ["err", "StopIteration"]
    if name == "list":
        return ["lines", [_dec(x) for x in list(f)]]
    if name == "iter":
        return ["lines", [_dec(x) for x in [y for y in f]]]
    if name == "seek":
        r = f.seek(op[1]) if (op[2] == 0 and op[1] % 2 == 0) else f.seek(op[1], op[2])
        return ["nat", r]
    if name == "tell":
        return ["nat", f.tell()]
    if name == "getvalue":
        return ["data", _dec(f.getvalue())]
    if name == "len":
        return ["nat", len(f.getvalue()) if is_ref else len(f)]
    raise ValueError(op)


def _run_file(kind, f, ops, is_ref):
    obs, rolled = [], []
    for op in ops:
        o = _apply(kind, f, op, is_ref)
        t = f.tell()
        assert isinstance(t, int) and t >= 0
        obs.append([o, t])
        rolled.append(bool(getattr(f, "_rolled", False)))     # coverage statistics only, never compared
    return obs, rolled


def _member(how, codes, text):
    import tempfile
    from boltons import ioutils
    if how == "bytesio":
        return io.BytesIO(bytes(codes))
    if how == "stringio":
        return io.StringIO("".join(map(chr, codes)), newline="")
    if how == "tempfile":
        f = tempfile.TemporaryFile("w+", encoding="utf-8", newline="") if text else tempfile.TemporaryFile()
    elif how == "spooled":
        f = ioutils.SpooledStringIO(max_size=3) if text else ioutils.SpooledBytesIO(max_size=3)
    elif how == "spooled_mem":
        f = ioutils.SpooledStringIO() if text else ioutils.SpooledBytesIO()
    else:
        raise ValueError(how)
    f.write("".join(map(chr, codes)) if text else bytes(codes))
    f.seek(0)
    return f


def run_impl(case):
    from boltons import ioutils
    kind = case["kind"]
    if kind == "mfr":
        text = case["text"]
        files = [_member(h, c, text) for h, c in zip(case["members"], case["contents"])]
        m = ioutils.MultiFileReader(*files)
        obs = []
        for op in case["ops"]:
            if op[0] == "read":
                r = m.read() if op[1] is None else m.read(op[1])
                assert isinstance(r, str if text else bytes), r
                obs.append(["data", _dec(r)])
            else:
                r = m.seek(0) if op[1] else m.seek(0, 0)
                assert r is None
                obs.append(["none"])
        for f in files:
            f.close()
        return {"obs": obs}
    global _ORIG_CHUNK
    if _ORIG_CHUNK is None:
        _ORIG_CHUNK = ioutils.READ_CHUNK_SIZE            # whatever the source says today
    chunk = None
    runs = []
    try:
        if kind == "string":
            chunk = case["chunk"] if case["chunk"] is not None else _ORIG_CHUNK
            ioutils.READ_CHUNK_SIZE = chunk
        for mx in case["maxes"]:
            f = (ioutils.SpooledBytesIO if kind == "bytes" else ioutils.SpooledStringIO)(max_size=mx)
            obs, rolled = _run_file(kind, f, case["ops"], False)
            f.close()
            runs.append({"max": mx, "obs": obs, "rolled": rolled})
        ref = io.BytesIO() if kind == "bytes" else io.StringIO()
        obs, _ = _run_file(kind, ref, case["ops"], True)
        runs.append({"max": None, "obs": obs, "rolled": []})
    finally:
        ioutils.READ_CHUNK_SIZE = _ORIG_CHUNK
    return {"runs": runs, "chunk": chunk}


_ORIG_CHUNK = None


# --------------------------------------------------------------------------
# rendering
# --------------------------------------------------------------------------
def _codes(l):
    return clist(cN(c) for c in l)


def _optnat(n):
    return "None" if n is None else "(Some %s)" % cnat(n)


def _op(op):
    n = op[0]
    if n == "write":
        return "Write %s" % _codes(op[1])
    if n == "writebad":
        return "WriteBad"
    if n == "read":
        return "Read %s" % _optnat(op[1])
    if n == "readline":
        return "ReadLine %s" % _optnat(op[1])
    if n == "readlines":
        return "ReadLines %s" % cnat(op[1])
    if n == "seek":
        return "Seek %s %s" % (cZ(op[1]), cnat(op[2]))
    return {"next": "Next", "list": "ListAll", "iter": "IterAll", "tell": "Tell",
            "getvalue": "GetValue", "len": "Len"}[n]


_EXN = {"TypeError": "TypeError", "StopIteration": "StopIteration", "ValueError": "ValueError"}


def _fobs(o):
    if o[0] == "none":
        return "ONone"
    if o[0] == "data":
        return "OData %s" % _codes(o[1])
    if o[0] == "lines":
        return "OLines %s" % clist(_codes(x) for x in o[1])
    if o[0] == "nat":
        return "ONat %s" % cnat(o[1])
    if o[0] == "err":
        return "OErr %s" % _EXN[o[1]]
    raise ValueError(o)


def to_coq(case, obs):
    if case["kind"] == "mfr":
        mops = ["MRead %s" % _optnat(op[1]) if op[0] == "read" else "MSeek0" for op in case["ops"]]
        return "CMfr %s %s %s" % (clist(_codes(c) for c in case["contents"]), clist(mops),
                                  clist(_fobs(o) for o in obs["obs"]))
    groups = []          # [(key, [max...], obs)]
    for r in obs["runs"]:
        key = json.dumps(r["obs"])
        for g in groups:
            if g[0] == key:
                g[1].append(r["max"])
                break
        else:
            groups.append((key, [r["max"]], r["obs"]))
    gs = clist(cpair(clist(_optnat(m) for m in ms), clist(cpair(_fobs(o), cnat(t)) for o, t in ob))
               for _, ms, ob in groups)
    ops = clist(_op(op) for op in case["ops"])
    if case["kind"] == "bytes":
        return "CBytes %s %s" % (ops, gs)
    ch = obs["chunk"]
    return "CString %s %s %s" % (cnat(ch) if ch < 5000 else "(N.to_nat %s)" % cN(ch), ops, gs)


# --------------------------------------------------------------------------
# generation (all randomness from rng; a real io object keeps the history inside
# the calls the property speaks about: appending writes for text, seeks inside the data)
# --------------------------------------------------------------------------
BYTE_ALPHA = [10, 10, 10, 13, 97, 98, 99, 100, 0, 255, 128, 32, 10, 101]
TEXT_ALPHA = [10, 10, 10, 97, 98, 99, 100, 32, 233, 8212, 128512, 0, 127, 128, 2047, 2048, 65535, 65536, 1114111,
              10, 101, 102, 228, 8364]


def _data(rng, kind, odd, lo=0, hi=9):
    alpha = BYTE_ALPHA if kind == "bytes" else TEXT_ALPHA
    n = rng.randint(lo, hi)
    out = [rng.choice(alpha) for _ in range(n)]
    if odd and kind == "string":
        for i in range(len(out)):
            if rng.random() < 0.2:
                out[i] = rng.choice(ODD_BREAKS)
    return out


def _gen_file_case(rng, tier, kind):
    odd = kind == "string" and rng.random() < 0.06
    longlines = rng.random() < 0.05
    ref = io.BytesIO() if kind == "bytes" else io.StringIO()
    ops = []
    nops = rng.randint(3, 14 if tier == "quick" else 24)
    total_bytes, boundaries = 0, []

    def length():
        return len(ref.getvalue())

    def emit(op):
        ops.append(op)
        _apply(kind, ref, op, True)

    def write(d):
        nonlocal total_bytes
        if kind == "string" and ref.tell() != length():
            emit(["seek", 0, 2] if rng.random() < 0.5 else ["seek", length(), 0])
        emit(["write", d])
        boundaries.append(total_bytes + len(bytes(d) if kind == "bytes" else "".join(map(chr, d)).encode("utf-8")))
        total_bytes = boundaries[-1]

    for _ in range(rng.randint(1, 3)):
        if longlines:
            d = []
            for _ in range(rng.randint(1, 3)):
                d += [rng.choice([97, 98, 233, 8212, 128512] if kind == "string" else [97, 98, 200]) for _ in range(rng.choice([71, 72, 73, 80, 150, 300]))]
                d += rng.choice([[10], [10], [], [13, 10] if odd else [10]])
            write(d)
        else:
            write(_data(rng, kind, odd, 0, 12))
    while len(ops) < nops:
        r = rng.random()
        n = length()
        if 0.22 <= r < 0.70 and ref.tell() >= n and rng.random() < 0.75:
            r = 0.2                       # a reading call at the end of the data: usually seek back first
        if r < 0.22:
            if kind == "bytes" and rng.random() < 0.25:
                wh = rng.choice([1, 2])
                base = ref.tell() if wh == 1 else n
                tgt = rng.randint(0, n)
                emit(["seek", tgt - base, wh])
            elif kind == "string" and rng.random() < 0.15:
                emit(["seek", 0, rng.choice([1, 2])])
            else:
                emit(["seek", rng.choice([0, n, rng.randint(0, n), rng.randint(0, n)]), 0])
        elif r < 0.40:
            emit(["read", rng.choice([None, 0, 1, 1, 2, 3, 3, 5, rng.randint(0, n + 2)])])
        elif r < 0.50:
            lim = None
            if kind == "bytes" and rng.random() < 0.3:
                lim = rng.randint(1, 6)
            emit(["readline", lim])
        elif r < 0.55:
            emit(["readlines", 0])
        elif r < 0.62:
            emit(["next"])
        elif r < 0.66:
            emit(["list"])
        elif r < 0.70:
            emit(["iter"])
        elif r < 0.75:
            emit(["tell"])
        elif r < 0.81:
            emit(["getvalue"])
        elif r < 0.89:
            emit(["len"])
        elif r < 0.91:
            emit(["writebad"])
        else:
            write(_data(rng, kind, odd, 0, 9))
    emit(["getvalue"])
    # max_size values: rolls at once / somewhere inside (often exactly at a write boundary) / never
    T = max(total_bytes, 1)
    inside = [b + d for b in boundaries for d in (-1, 0, 1) if 1 <= b + d <= T] or [1]
    maxes = [rng.choice([1, 1, 2, rng.randint(1, T)]),
             rng.choice(inside) if rng.random() < 0.7 else rng.randint(1, T),
             T + rng.choice([1, 2, 10, 1000])]
    case = {"kind": kind, "ops": ops, "maxes": maxes}
    if kind == "string":
        case["chunk"] = rng.choice([1, 2, 3, 3, 5, 7, None])    # None = the module's own READ_CHUNK_SIZE
    return case


MEMBERS_B = ["bytesio", "bytesio", "tempfile", "spooled", "spooled_mem"]
MEMBERS_T = ["stringio", "stringio", "tempfile", "spooled", "spooled_mem"]


def _gen_mfr_case(rng, tier):
    text = rng.random() < 0.4
    nfiles = rng.choice([0, 1, 2, 2, 3, 3, 4, 5])
    if nfiles == 0:
        text = True                       # no member at all: MultiFileReader joins with ''
    kind = "string" if text else "bytes"
    contents = [_data(rng, kind, False, 0, rng.choice([0, 1, 2, 4, 7])) for _ in range(nfiles)]
    members = [rng.choice(MEMBERS_T if text else MEMBERS_B) for _ in range(nfiles)]
    total = sum(map(len, contents))
    ops = []
    for _ in range(rng.randint(1, 10)):
        r = rng.random()
        if r < 0.65:
            ops.append(["read", rng.choice([1, 1, 2, 3, 3, 4, 5, rng.randint(1, total + 2)])])
        elif r < 0.8:
            ops.append(["read", None])
        else:
            ops.append(["seek0", rng.random() < 0.5])
    return {"kind": "mfr", "text": text, "contents": contents, "members": members, "ops": ops}


def generate(rng, tier, n):
    for i in range(n):
        r = rng.random()
        if r < 0.30:
            yield _gen_file_case(rng, tier, "bytes")
        elif r < 0.80:
            yield _gen_file_case(rng, tier, "string")
        else:
            yield _gen_mfr_case(rng, tier)


# --------------------------------------------------------------------------
# shrinking: drop calls, keep only histories the property speaks about
# --------------------------------------------------------------------------
def _valid(case):
    kind = case["kind"]
    if kind == "mfr":
        return True
    ref = io.BytesIO() if kind == "bytes" else io.StringIO()
    try:
        for op in case["ops"]:
            if op[0] == "write" and kind == "string" and ref.tell() != len(ref.getvalue()):
                return False
            if op[0] == "seek":
                base = {0: 0, 1: ref.tell(), 2: len(ref.getvalue())}[op[2]]
                if base + op[1] < 0 or base + op[1] > len(ref.getvalue()):
                    return False
            _apply(kind, ref, op, True)
    except Exception:
        return False
    return True


def shrink(case):
    ops = case["ops"]
    n = len(ops)
    out = []
    chunk = max(1, n // 2)
    while chunk >= 1:
        for s in range(0, n, chunk):
            cand = ops[:s] + ops[s + chunk:]
            if cand:
                out.append(dict(case, ops=cand))
        chunk //= 2
    if case["kind"] == "mfr":
        for i in range(len(case["contents"])):
            out.append(dict(case, contents=case["contents"][:i] + case["contents"][i + 1:],
                            members=case["members"][:i] + case["members"][i + 1:]))
    else:
        for i, op in enumerate(ops):
            if op[0] == "write" and len(op[1]) > 1:
                for d in (op[1][:len(op[1]) // 2], op[1][len(op[1]) // 2:], op[1][1:], op[1][:-1]):
                    out.append(dict(case, ops=ops[:i] + [["write", d]] + ops[i + 1:]))
        if len(case["maxes"]) > 1:
            for m in case["maxes"]:
                out.append(dict(case, maxes=[m]))
    seen = set()
    for c in out:
        k = json.dumps(c, sort_keys=True)
        if k not in seen and _valid(c):
            seen.add(k)
            yield c


# --------------------------------------------------------------------------
# canary, statistics
# --------------------------------------------------------------------------
def corrupt(case, obs):
    import copy
    bad = copy.deepcopy(obs)
    if case["kind"] == "mfr":
        for o in bad["obs"]:
            if o[0] == "data" and o[1]:
                o[1][-1] = (o[1][-1] + 1) % 128
                return bad
        return None
    run = bad["runs"][0]                       # one Spooled run only: the others stay right
    for o in reversed(run["obs"]):
        if o[0][0] == "data" and o[0][1]:
            o[0][1][0] = (o[0][1][0] + 1) % 128
            return bad
    run["obs"][-1][1] += 1
    return bad


def _rolled_somewhere(obs):
    """index of the first call after which some run is on disk while another is not"""
    runs = [r for r in obs["runs"] if r["max"] is not None]
    for i in range(len(runs[0]["rolled"])):
        col = [r["rolled"][i] for r in runs]
        if any(col) and not all(col):
            return i
    return None


def nontrivial(case, obs):
    if case["kind"] == "mfr":
        sizes = [len(c) for c in case["contents"]]
        if len(sizes) < 2:
            return False
        edges, acc = set(), 0
        for s in sizes[:-1]:
            acc += s
            edges.add(acc)
        pos = 0
        for op, o in zip(case["ops"], obs["obs"]):
            if op[0] == "seek0":
                pos = 0
            else:
                new = pos + len(o[1])
                if op[1] is not None and any(pos < e < new for e in edges):
                    return True
                pos = new
        return False
    i = _rolled_somewhere(obs)
    if i is None:
        return False
    return any(op[0] in ("read", "readline", "readlines", "next", "list", "iter", "getvalue")
               for op in case["ops"][i + 1:-1])


def distribution(d, case, obs):
    k = d.setdefault("kind", {})
    k[case["kind"]] = k.get(case["kind"], 0) + 1
    h = d.setdefault("ops", {})
    for op in case["ops"]:
        h[op[0]] = h.get(op[0], 0) + 1
    if case["kind"] == "mfr":
        m = d.setdefault("mfr_members", {})
        for x in case["members"]:
            m[x] = m.get(x, 0) + 1
        return
    if case["kind"] == "string":
        c = d.setdefault("chunk", {})
        c[str(case["chunk"])] = c.get(str(case["chunk"]), 0) + 1
        if any(ord_ > 127 for op in case["ops"] if op[0] == "write" for ord_ in op[1]):
            d["text_cases_with_multibyte"] = d.get("text_cases_with_multibyte", 0) + 1
        if any(len(op[1]) > 72 for op in case["ops"] if op[0] == "write"):
            d["text_cases_with_long_lines"] = d.get("text_cases_with_long_lines", 0) + 1
    runs = [r for r in obs["runs"] if r["max"] is not None]
    ever = sum(1 for r in runs if any(r["rolled"]))
    d["runs_rolled"] = d.get("runs_rolled", 0) + ever
    d["runs_in_memory"] = d.get("runs_in_memory", 0) + len(runs) - ever
    if _rolled_somewhere(obs) is not None:
        d["cases_with_mixed_rollover"] = d.get("cases_with_mixed_rollover", 0) + 1


def sample(case, obs):
    if case["kind"] == "mfr":
        return {"kind": "mfr", "contents": case["contents"], "members": case["members"],
                "ops": case["ops"][:6], "obs": obs["obs"][:6]}
    return {"kind": case["kind"], "maxes": case["maxes"], "ops": case["ops"][:6],
            "obs_first_run": obs["runs"][0]["obs"][:6], "obs_reference": obs["runs"][-1]["obs"][:6]}
