"""C20 ThresholdCounter: plug-in (template for the other properties)."""
import math
from common import cnat, cN, clist, cpair

ID = "C20"
IMPORTS = "From Boltons Require Import Lib.Prelude Model.C20_Model Spec.C20_Spec Check.C20_Check."
CASE_TYPE = "c20_case"
VERDICT = "c20_verdict"
EXPLAIN = "c20_explain"
CASES_PER_FILE = 150
TIERS = {"quick": {"n": 1200}, "thorough": {"n": 25000}}
RULE = ("histories of add/update(iterable|mapping|kwargs|source+kwargs) on a ThresholdCounter with w=int(1/threshold) in 1..12 or 60, "
        "observed after every operation; non-trivial = at least one compaction removed a key and some key was "
        "re-added after removal; distinct = distinct canonical history hash")
ASSUMPTIONS = ["keys are hashable with lawful __eq__/__hash__ (tokens mapped to distinct Python objects)",
               "CPython dict preserves insertion order; sorted() is stable"]
TRUSTED = ["Model/C20_Model.v is hand-written; tied to boltons.cacheutils.ThresholdCounter by the correspondence run and, for add(), "
           "by the source translator harness/translators/{py2coq,c20_src}.py (Gen/C20_Src.v regenerated each run; C20_source_add proves it equal to the model)",
           "harness/c20.py serialiser"]

def translators(repo):
    import os, sys
    sys.path.insert(0, os.path.join(os.path.dirname(os.path.abspath(__file__)), "translators"))
    import c20_src
    return c20_src.generate(repo)


# tokens -> varied hashable python objects, pairwise != and identifier-safe names for kwargs
KEYS = [0, "a", (1, 2), None, 3.5, "b", frozenset([7]), -1, "key", (), True and 17, "z", b"y", 99, "q", ("t", None)]


def key(tok):
    return KEYS[tok] if tok < len(KEYS) else "k%d" % tok


def kwname(tok):
    return "kw%d" % tok          # kwargs need identifier keys: separate token space 100+tok


def thresholds(w):
    # floats t with int(1/t) == w
    cands = [1.0 / w, 1.0 / (w + 0.5), 1.0 / (w + 0.25), 1.0 / (w + 0.9)]
    return [t for t in cands if 0 < t < 1 and int(1 / t) == w]


def generate(rng, tier, n):
    for i in range(n):
        w = rng.choice([1, 2, 2, 3, 3, 4, 5, 6, 7, 8, 10, 12, 60])
        ts = thresholds(w)
        if not ts:
            continue
        t = rng.choice(ts)
        nkeys = rng.choice([2, 3, 4, 6, 10, 15])
        nops = rng.randint(1, 40 if tier == "quick" else 90)
        style = rng.choice(["uniform", "skewed", "front"])
        ops = []
        for j in range(nops):
            def pick():
                if style == "uniform":
                    return rng.randrange(nkeys)
                if style == "skewed":
                    return min(int(rng.expovariate(0.7)), nkeys - 1)
                # front-loaded: early heavy keys, later fresh ones
                return rng.randrange(max(1, nkeys // 3)) if j < nops // 2 else rng.randrange(nkeys)
            r = rng.random()
            if r < 0.6:
                ops.append(["add", pick()])
            elif r < 0.8:
                ops.append(["upd_iter", [pick() for _ in range(rng.randint(0, 6))],
                            rng.choice(["list", "tuple", "gen", "iter"])])
            elif r < 0.93:
                ops.append(["upd_map", [[k, rng.randint(0, 4)] for k in
                                        rng.sample(range(nkeys), rng.randint(0, min(3, nkeys)))],
                            rng.choice(["dict", "kwargs", "tc", "dict", "kwargs"] + sorted(MAPPING_KINDS))])
            else:
                # update(source, **kw): a positional source (iterable or mapping) together with keywords
                if rng.random() < 0.5:
                    first = ["upd_iter", [pick() for _ in range(rng.randint(0, 4))], rng.choice(["list", "tuple", "gen", "iter"])]
                else:
                    first = ["upd_map", [[k, rng.randint(0, 3)] for k in rng.sample(range(nkeys), rng.randint(0, min(3, nkeys)))],
                             rng.choice(["dict", "tc"] + sorted(MAPPING_KINDS))]
                kw = [[k, rng.randint(0, 3)] for k in rng.sample(range(nkeys), rng.randint(1, min(3, nkeys)))]
                ops.append(["upd_both", first, kw])
        yield {"w": w, "threshold": t.hex(), "n": rng.choice([0, 1, 1, 2, 2, 3, 4, -1, -3, 4999]), "probe": rng.randrange(nkeys), "ops": ops}


class _ItemsOnly:
    """duck-typed mapping: nothing but items()"""
    def __init__(self, d):
        self._d = dict(d)

    def items(self):
        return list(self._d.items())


class _IterItemsOnly:
    """duck-typed (Python-2 style) mapping: nothing but iteritems(); iterating it would give wrong keys"""
    def __init__(self, d):
        self._d = dict(d)

    def iteritems(self):
        return iter(list(self._d.items()))

    def __iter__(self):
        raise AssertionError("iterated although iteritems() is there")


def _mapping_kinds():
    import collections
    import types
    return {"ordered": collections.OrderedDict, "counter": collections.Counter, "proxy": lambda d: types.MappingProxyType(dict(d)),
            "chainmap": lambda d: collections.ChainMap(dict(d)), "userdict": collections.UserDict,
            "items_only": _ItemsOnly, "iteritems_only": _IterItemsOnly}


MAPPING_KINDS = _mapping_kinds()


def _arg(kind, ks):
    if kind == "list":
        return list(ks)
    if kind == "tuple":
        return tuple(ks)
    if kind == "gen":
        return (k for k in ks)
    return iter(list(ks))


def run_impl(case):
    from boltons.cacheutils import ThresholdCounter
    t = float.fromhex(case["threshold"])
    tc = ThresholdCounter(t)
    assert tc._thresh_count == case["w"]
    inv = {}

    def tok(obj):
        return inv[repr(obj)]
    for i in range(200):
        inv[repr(key(i))] = i
        inv[repr(kwname(i))] = 100 + i
    obs = []
    for op in case["ops"]:
        def source(o):
            if o[0] == "upd_iter":
                return _arg(o[2], [key(k) for k in o[1]])
            if o[2] in MAPPING_KINDS:
                return MAPPING_KINDS[o[2]]({key(k): c for k, c in o[1]})
            if o[2] == "tc":
                # another ThresholdCounter as the source mapping (w large: nothing dropped)
                src = ThresholdCounter(0.0001)
                for k, c in o[1]:
                    for _ in range(c):
                        src.add(key(k))
                return src
            return {key(k): c for k, c in o[1]}
        if op[0] == "add":
            tc.add(key(op[1]))
        elif op[0] == "upd_both":
            tc.update(source(op[1]), **{kwname(k): c for k, c in op[2]})
        elif op[0] == "upd_map" and op[2] == "kwargs":
            tc.update(None, **{kwname(k): c for k, c in op[1]})
        else:
            tc.update(source(op))
        probe = key(case["probe"])
        # independence of returned containers (DESIGN 1.2 aliasing): every list a read hands out is mutated in place
        # (emptied, then junk appended) before the read is repeated for the observation
        for read in (tc.items, tc.keys, tc.values, tc.most_common, lambda: tc.most_common(case["n"]),
                     lambda: tc.most_common(10 ** 6)):
            got = read()
            if isinstance(got, list):
                del got[:]
                got.append(("junk", -1))
        obs.append({
            "total": tc.total,
            "items": [[tok(k), c] for k, c in tc.items()],
            "common": tc.get_common_count(), "uncommon": tc.get_uncommon_count(),
            "mc_all": [[tok(k), c] for k, c in tc.most_common()],
            "mc_n": [[tok(k), c] for k, c in tc.most_common(case["n"])],
            "len": len(tc),
            "probe": tc.get(probe) if (probe in tc) == (tc.get(probe, -1) != -1) else -1,
            "keys": [tok(k) for k in tc.keys()],
            "values": list(tc.values()),
            "elems": [tok(k) for k in tc.elements()],
        })
    return obs


def _kn(l):
    return clist(cpair(cnat(k), cN(c)) for k, c in l)


def _op(op):
    if op[0] == "add":
        return "Add %s" % cnat(op[1])
    if op[0] == "upd_iter":
        return "UpdateIter %s" % clist(cnat(k) for k in op[1])
    if op[0] == "upd_both":
        return "UpdateBoth (%s) %s" % (_op(op[1]), clist(cpair(cnat(k + 100), cnat(c)) for k, c in op[2]))
    off = 100 if op[2] == "kwargs" else 0
    pairs = op[1]
    if op[2] == "tc":
        pairs = [p for p in pairs if p[1] > 0]     # a key added 0 times is not in the source counter
    return "UpdateMap %s" % clist(cpair(cnat(k + off), cnat(c)) for k, c in pairs)


def to_coq(case, obs):
    t = float.fromhex(case["threshold"])
    steps = []
    for op, o in zip(case["ops"], obs):
        steps.append("(%s, mkObs %s %s %s %s %s %s %s %s %s %s %s)" % (
            _op(op), cN(o["total"]), _kn(o["items"]), cN(o["common"]), cN(o["uncommon"]),
            _kn(o["mc_all"]), _kn(o["mc_n"]), cN(o["len"]), cN(o["probe"]),
            clist(cnat(k) for k in o["keys"]), clist(cN(v) for v in o["values"]),
            clist(cnat(k) for k in o["elems"])))
    return "mkCase %s %s %s %s %s" % (cN(case["w"]), cN(math.floor(2 / t)), cnat(max(case["n"], 0)),   # most_common(n <= 0) is [] = firstn 0
                                       cnat(case["probe"]), clist(steps))


def corrupt(case, obs):
    """A wrong observation for the canary: one count off by one."""
    import copy
    for i, o in enumerate(obs):
        if o["items"]:
            bad = copy.deepcopy(obs)
            bad[i]["items"][0][1] += 1
            return bad
    return None


def nontrivial(case, obs):
    seen, dropped, readd = set(), set(), False
    for o in obs:
        ks = set(o["keys"])
        if ks & dropped:
            readd = True
        dropped |= (seen - ks)
        seen |= ks
    return bool(dropped) and readd


def distribution(d, case, obs):
    d.setdefault("w", {})
    d["w"][str(case["w"])] = d["w"].get(str(case["w"]), 0) + 1
    for op in case["ops"]:
        k = op[0] if op[0] in ("add", "upd_both") else op[0] + ":" + op[2]
        d.setdefault("ops", {})
        d["ops"][k] = d["ops"].get(k, 0) + 1
    d["max_len_seen"] = max(d.get("max_len_seen", 0), max([o["len"] for o in obs] or [0]))


def sample(case, obs):
    return {"w": case["w"], "ops": case["ops"][:6], "obs_after_last": obs[-1] if obs else None}
