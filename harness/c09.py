"""C09 chunking / windowing / splitting / grouping helpers of boltons.iterutils.

Python only moves data: it calls the public functions on the case's input and
renders input + observation as a Coq term; agree/holds are computed in Coq
(Check/C09_Check.v).  Elements and keys are nat tokens mapped to varied,
pairwise != Python objects (token 0 of the 'obj' kind is None)."""
import itertools
import re

from common import cnat, cZ, clist, cpair, copt, cbool

ID = "C09"
IMPORTS = "From Boltons Require Import Lib.Prelude Spec.C09_Spec Model.C09_Model Check.C09_Check."
CASE_TYPE = "c09_case"
VERDICT = "c09_verdict"
EXPLAIN = "c09_explain"
CASES_PER_FILE = 400
CASE_FILE_BYTES = 120000
CASE_TIMEOUT = 10
TIERS = {"quick": {"n": 9000}, "thorough": {"n": 120000}}
RULE = ("one call per case of chunked(+count,fill)/chunked_iter, windowed/windowed_iter, pairwise/pairwise_iter, "
        "split/split_iter (sep None|value|collection|callable, maxsplit), l/r/strip(+_iter), unique/unique_iter, "
        "redundant(groups), bucketize (callable/attr/list key, value_transform, key_filter), partition, chunk_ranges; "
        "inputs: an exhaustive sweep of short lists over a 3-symbol alphabet (thorough: longer, plus the complete grid "
        "size 0-13 x chunk 1-5 x offset 0-6 x overlap < chunk x align of chunk_ranges) plus random lists over "
        "2-6 symbols, passed as list/tuple/generator/one-shot iterator/str/bytes; "
        "non-trivial = the call exercises the helper's state: >=2 chunks or a padded chunk, >=2 windows, a separator "
        "present, something stripped, a duplicate key, >=2 buckets or a bucket of >=2, >=2 ranges; "
        "distinct = distinct canonical case hash")
ASSUMPTIONS = ["elements/keys have lawful __eq__/__hash__ (tokens are mapped to pairwise != Python objects)",
               "CPython dict preserves insertion order; itertools.tee/islice/zip/zip_longest behave as documented",
               "negative maxsplit, window size 0, chunk size <= 0, overlap_size >= chunk_size and non-boolean "
               "partition keys are outside 'valid parameters' (modelled where cheap, not constrained by the Spec)"]
TRUSTED = ["harness/translators/c09_window.py (windowed_iter -> program of Model/C09_PyWindow.v; thin wrappers compared literally) and "
           "that interpreter's reading of tee / next / StopIteration / zip / zip_longest",
           "harness/translators/c09_loops.py (loops of split_iter / unique_iter / bucketize / redundant / chunked_iter / lstrip_iter / rstrip_iter -> Gallina; the argument "
           "dispatch preludes are compared literally, not translated) and its stated let/if/continue/yield conventions",
           "harness/translators/c09_ranges.py (AST of chunk_ranges -> Model/C09_PyRanges.v program) and the interpreter's "
           "reading of that Python subset (range(), %, min, generator return)",
           "Model/C09_Model.v is hand-written; tied to boltons.iterutils by the correspondence run on every check",
           "Spec/C09_Spec.v transcribes str.split/str.strip; cross-checked on every run against the real "
           "str.split/str.strip/re.split (fn=ref_split/ref_strip cases, counted as spec_validation)",
           "harness/c09.py token<->object mapping and serialiser"]

def translators(repo):
    """(T) tie: the source of chunk_ranges as a program of Model/C09_PyRanges.v (fail closed)."""
    import os
    import sys
    sys.path.insert(0, os.path.join(os.path.dirname(os.path.abspath(__file__)), "translators"))
    import c09_ranges
    text = c09_ranges.translate(repo)
    seen, total = c09_ranges.selftest(repo)
    if seen != total:
        raise RuntimeError("translator self-test: only %d of %d source perturbations were visible" % (seen, total))
    import c09_loops
    text2 = c09_loops.translate(repo)
    seen2, total2 = c09_loops.selftest(repo)
    if seen2 != total2:
        raise RuntimeError("loop translator self-test: only %d of %d source perturbations were visible" % (seen2, total2))
    import c09_window
    text3 = c09_window.translate(repo)
    seen3, total3 = c09_window.selftest(repo)
    if seen3 != total3:
        raise RuntimeError("window translator self-test: only %d of %d source perturbations were visible" % (seen3, total3))
    _TIE.update({"deep_embedding": ["chunk_ranges", "windowed_iter"],
                 "literal_wrappers": sorted(c09_window.WRAPPERS),
                 "shallow_loops": list(c09_loops.FUNCTIONS) + list(c09_loops.ITER_FUNCTIONS),
                 "not_translated": ["argument-dispatch preludes (guarded structurally)",
                                    "itertools.tee / zip / zip_longest themselves (read as Model.zip_loop / zip_longest_loop)"],
                 "selftest": "c09_ranges %d/%d, c09_loops %d/%d, c09_window %d/%d source perturbations visible"
                             % (seen, total, seen2, total2, seen3, total3)})
    return {"C09_Gen": text, "C09_Src": text2, "C09_Win": text3}


_TIE = {}


# --------------------------------------------------------------------------
# token <-> object mappings
# --------------------------------------------------------------------------
OBJ = [None, "a", 1, (1, 2), 2.5, "b", frozenset([7]), -1, "key", (), 17, b"y", "", 99, "q", ("t", None)]
KOBJ = [False, True, "k2", (3,), None, 5.5, "k6", frozenset([7]), -8, "k9"]


_NOATTR = object()


class Tok:
    """element with an (optional) attribute k (key='k' flavour); equality/hash by token.
    Without k the slot stays unset, so getattr(x, 'k', x) falls back on x itself."""
    __slots__ = ("t", "k")

    def __init__(self, t, k=_NOATTR):
        self.t = t
        if k is not _NOATTR:
            self.k = k

    def __eq__(self, o):
        return isinstance(o, Tok) and o.t == self.t

    def __ne__(self, o):
        return not self.__eq__(o)

    def __hash__(self):
        return hash(("Tok", self.t))

    def __repr__(self):
        return "Tok(%d)" % self.t


class StrSub(str):
    """a str subclass: instances are == to (and hash like) the plain str, but are other objects"""
    __slots__ = ()


def mk_eqv(t, variant=0):
    """a FRESH object of equality class t: classes t % 3 != 2 are the number 1000+t spelled as int /
    float / Fraction / Decimal (all ==, same hash, never `is`); classes t % 3 == 2 the text 'w<t>'
    as a fresh str / an instance of a str subclass; t >= 50 a fresh NaN (equal to nothing)."""
    from decimal import Decimal
    from fractions import Fraction
    if t >= 50:
        return float("nan")
    if t % 3 == 2:
        txt = "".join(["w", str(t)])
        return StrSub(txt) if variant % 2 else txt
    v = 1000 + t
    return [int(str(v)), float(v), Fraction(v), Decimal(v)][variant % 4]


_EQV = {"nan": {}, "pos": {}, "log": []}     # per run_impl call: id -> token of a NaN, id -> position in src


def kobj(k):
    return KOBJ[k] if k < len(KOBJ) else "k%d" % k


def elem(ek, t, keyf=None):
    if ek == "obj":
        return OBJ[t] if t < len(OBJ) else "e%d" % t
    if ek == "chr":
        assert t >= 1
        return chr(96 + t) if t <= 26 else chr(0x100 + t)
    if ek == "byte":
        assert 1 <= t < 190
        return 64 + t
    if ek == "unh":
        return None if t == 0 else [t]
    if ek == "tok":
        k = keyf(t) if keyf else None
        return Tok(t) if k is _NOATTR else Tok(t, k)
    if ek == "eqv":
        assert t < 50, "a NaN class is only ever used inside src"
        return mk_eqv(t, 0)
    raise ValueError(ek)


_INV = {}


def _inv(table, name):
    if name not in _INV:
        _INV[name] = {(type(o).__name__, repr(o)): i for i, o in enumerate(table)}
    return _INV[name]


def untok(ek, o):
    """Python object -> element token (fails closed on anything unknown)."""
    if ek == "obj":
        key = (type(o).__name__, repr(o))
        inv = _inv(OBJ, "obj")
        if key in inv:
            return inv[key]
        if isinstance(o, str) and re.fullmatch(r"e\d+", o):
            return int(o[1:])
        raise ValueError("unknown element %r" % (o,))
    if ek == "chr":
        if isinstance(o, str) and len(o) == 1:
            c = ord(o)
            return c - 96 if c < 0x100 else c - 0x100
        raise ValueError("unknown element %r" % (o,))
    if ek == "byte":
        if isinstance(o, int) and not isinstance(o, bool):
            return o - 64
        raise ValueError("unknown element %r" % (o,))
    if ek == "unh":
        if o is None:
            return 0
        if isinstance(o, list) and len(o) == 1:
            return o[0]
        raise ValueError("unknown element %r" % (o,))
    if ek == "tok":
        if isinstance(o, Tok):
            return o.t
        raise ValueError("unknown element %r" % (o,))
    if ek == "eqv":
        from decimal import Decimal
        from fractions import Fraction
        if isinstance(o, float) and o != o:
            if id(o) in _EQV["nan"]:
                return _EQV["nan"][id(o)]
            raise ValueError("a NaN that is not one of the input objects")
        if isinstance(o, str) and re.fullmatch(r"w\d+", o):
            return int(o[1:])
        if isinstance(o, (int, float, Fraction, Decimal)) and not isinstance(o, bool) and o == int(o) and 1000 <= int(o) < 1050:
            return int(o) - 1000
        raise ValueError("unknown element %r" % (o,))
    raise ValueError(ek)


def unkey(o):
    if isinstance(o, Tok):
        return 1000 + o.t            # an element used as its own key (attribute fallback)
    key = (type(o).__name__, repr(o))
    inv = _inv(KOBJ, "kobj")
    if key in inv:
        return inv[key]
    if isinstance(o, str) and re.fullmatch(r"k\d+", o):
        return int(o[1:])
    raise ValueError("unknown key %r" % (o,))


def truthy(ek, toks):
    if ek == "eqv":
        return sorted(set(toks))                    # 1000+t, 'w<t>' and NaN are all truthy
    return _truthy(ek, toks)


def _truthy(ek, toks):
    return sorted(set(t for t in toks if bool(elem(ek, t))))


def key_token_fn(key):
    """the key description as a function on tokens (same as Check.key_fn)."""
    if key[0] == "id":
        return lambda t: t
    if key[0] == "bool":
        return None
    if key[0] == "mod":
        return lambda t: t % key[1]
    if key[0] == "div":
        return lambda t: t // key[1]
    if key[0] == "in":
        s = set(key[1])
        return lambda t: 1 if t in s else 0
    if key[0] == "partial":
        inner, have = key_token_fn(key[1]), set(key[2])
        return lambda t: inner(t) if t in have else 1000 + t
    raise ValueError(key)


def coerce(v, form):
    """the same integer in another int()-coercible spelling (sizes go through int(value))"""
    if form == "str":
        return str(v)
    if form == "float" and abs(v) < 2 ** 53:
        return float(v)
    if form == "bool" and v in (0, 1):
        return bool(v)
    return v


def mk_src(mk, objs):
    if mk == "list":
        return list(objs)
    if mk == "tuple":
        return tuple(objs)
    if mk == "gen":
        return (o for o in objs)
    if mk == "iter":
        return iter(list(objs))
    if mk == "str":
        return "".join(objs)
    if mk == "bytes":
        return bytes(objs)
    if mk == "bytearray":
        return bytearray(objs)
    if mk == "range":                       # consecutive byte-kind items: the same ints as a range object
        return range(objs[0], objs[0] + len(objs)) if objs else range(0)
    raise ValueError(mk)


# --------------------------------------------------------------------------
# running the implementation
# --------------------------------------------------------------------------
_ALLOWED = {"ValueError": ValueError, "ZeroDivisionError": ZeroDivisionError}


def _guard(f):
    try:
        return ["ok", f()]
    except (ValueError, ZeroDivisionError) as e:
        return ["err", type(e).__name__]


def _flat(ek, seq):
    """an output group (list / tuple / str / bytes) -> list of tokens"""
    if not isinstance(seq, (list, tuple, str, bytes)):
        raise ValueError("unexpected group %r" % (seq,))
    if ek == "eqv":
        _EQV["log"].append([[untok(ek, o), _EQV["pos"].get(id(o), -1)] for o in seq])
    return [untok(ek, o) for o in seq]


def _groups(ek, out):
    if not isinstance(out, list):
        raise ValueError("expected a list, got %r" % (out,))
    return [_flat(ek, g) for g in out]


_TY = {list: 1, tuple: 2, str: 3, bytes: 4}


def _ty(out):
    """type code of the groups of an output (0 none, 1 list, 2 tuple, 3 str, 4 bytes, 9 mixed/other)"""
    codes = set(_TY.get(type(g), 9) for g in out)
    if not codes:
        return 0
    return codes.pop() if len(codes) == 1 else 9


def _groups_ty(ek, out):
    return [_groups(ek, out), _ty(out)]


def run_impl(case):
    obs = _run_impl(case)
    if case.get("ek") == "eqv" and case["fn"] in _IDS_GROUPS:
        k = _IDS_GROUPS[case["fn"]](case, obs)
        if k is not None:
            obs["ids"] = _EQV["log"][:k]       # the list form is always converted first
    return obs


def _ok_len(r):
    return len(r[1]) if r[0] == "ok" else None


_IDS_GROUPS = {
    "chunked": lambda c, o: _ok_len(o["list"]),
    "windowed": lambda c, o: len(o["list"]), "pairwise": lambda c, o: len(o["list"]),
    "split": lambda c, o: len(o["list"]),
    "strip": lambda c, o: 1, "unique": lambda c, o: 1,
    "redundant": lambda c, o: 1 + len(o["groups"]),
    "bucketize": lambda c, o: len(o["items"]) if c["vt"] is None else None,
    "partition": lambda c, o: 2,
}


def _run_impl(case):
    from boltons import iterutils as I
    fn, ek = case["fn"], case.get("ek", "obj")
    mk = case.get("mk", "list")
    keyf = None
    if ek == "eqv":
        objs = [mk_eqv(t, i + t) for i, t in enumerate(case.get("src", []))]
        _EQV["nan"] = {id(o): t for o, t in zip(objs, case["src"]) if t >= 50}
        _EQV["pos"] = {id(o): i for i, o in enumerate(objs)}
        _EQV["log"] = []
        _EQV["keep"] = objs                      # keep the objects alive: ids must stay unique
        assert len(_EQV["pos"]) == len(objs)
    if ek == "tok":
        ktf = key_token_fn(case["key"])

        def keyf(t):
            k = ktf(t)
            return _NOATTR if k >= 1000 else kobj(k)
    if ek != "eqv":
        objs = [elem(ek, t, keyf) for t in case.get("src", [])]

    def src():
        return mk_src(mk, objs)

    if fn == "chunked":
        kw = {}
        if case["fill"] is not None:
            kw["fill"] = elem(ek, case["fill"])
        size = coerce(case["size"], case.get("form", "int"))
        if case["count"] is None:
            ol = _guard(lambda: _groups_ty(ek, I.chunked(src(), size, **kw)))
        else:
            ol = _guard(lambda: _groups_ty(ek, I.chunked(src(), size, case["count"], **kw)))
        oi = _guard(lambda: _groups_ty(ek, list(I.chunked_iter(src(), size, **kw))))
        tl, ti = (ol[1][1] if ol[0] == "ok" else 0), (oi[1][1] if oi[0] == "ok" else 0)
        ol = ["ok", ol[1][0]] if ol[0] == "ok" else ol
        oi = ["ok", oi[1][0]] if oi[0] == "ok" else oi
        return {"list": ol, "iter": oi, "ty": [tl, ti]}
    if fn in ("windowed", "pairwise"):
        kw = {}
        if case["fill"] is not None:
            kw["end" if fn == "pairwise" else "fill"] = elem(ek, case["fill"])
        if fn == "windowed":
            ol = I.windowed(src(), case["size"], **kw)
            oi = list(I.windowed_iter(src(), case["size"], **kw))
        else:
            ol = I.pairwise(src(), **kw)
            oi = list(I.pairwise_iter(src(), **kw))
        return {"list": _groups(ek, ol), "iter": _groups(ek, oi), "ty": [_ty(ol), _ty(oi)]}
    if fn == "split":
        sep = case["sep"]
        args = []
        if sep[0] == "none":
            sepo = None
        elif sep[0] == "val":
            sepo = elem(ek, sep[1])
        elif sep[0] == "strmulti":          # a str of two characters: a scalar that equals no element
            sepo = elem("chr", sep[1]) + elem("chr", sep[2])
        elif sep[0] == "set":
            vals = [elem(ek, t) for t in sep[1]]
            sepo = {"list": list, "tuple": tuple, "set": set, "frozenset": frozenset}[sep[2]](vals)
        else:
            s = set(sep[1])
            sepo = lambda x: untok(ek, x) in s          # noqa: E731
        if case["maxsplit"] is not None:
            args = [sepo, coerce(case["maxsplit"], case.get("form", "int"))]
        elif sepo is not None or case.get("explicit", True):
            args = [sepo]
        ol = I.split(src(), *args)
        oi = list(I.split_iter(src(), *args))
        return {"list": _groups(ek, ol), "iter": _groups(ek, oi), "ty": [_ty(ol), _ty(oi)]}
    if fn == "strip":
        f_list = {"l": I.lstrip, "r": I.rstrip, "b": I.strip}[case["which"]]
        f_iter = {"l": I.lstrip_iter, "r": I.rstrip_iter, "b": I.strip_iter}[case["which"]]
        v = elem(ek, case["v"])
        args = [] if (v is None and not case.get("explicit", True)) else [v]
        ol = f_list(src(), *args)
        oi = list(f_iter(src(), *args))
        if not isinstance(ol, list):
            raise ValueError("expected a list")
        return {"list": _flat(ek, ol), "iter": _flat(ek, oi)}
    if fn in ("unique", "redundant", "bucketize"):
        key = case["key"]
        ktf = key_token_fn(key)
        if key[0] == "id" and fn != "bucketize" and case.get("flavour") == "none":
            kargs = []
        elif case.get("flavour") == "attr":
            kargs = ["k"]
        elif key[0] == "bool":
            kargs = []
        elif key[0] == "id":
            kargs = [lambda x: x]
        else:
            kargs = [lambda x: kobj(ktf(untok(ek, x)))]
        if fn == "unique":
            ol = I.unique(src(), *kargs)
            oi = list(I.unique_iter(src(), *kargs))
            if not isinstance(ol, list):
                raise ValueError("expected a list")
            return {"list": _flat(ek, ol), "iter": _flat(ek, oi)}
        if fn == "redundant":
            op = I.redundant(src(), *kargs)
            og = I.redundant(src(), *kargs, groups=True) if kargs else I.redundant(src(), groups=True)
            if not isinstance(op, list):
                raise ValueError("expected a list")
            if not (isinstance(og, list) and all(isinstance(g, list) for g in og)):
                raise ValueError("redundant(groups=True) must return a list of lists")
            return {"plain": _flat(ek, op), "groups": _groups(ek, og)}
        # bucketize
        kw = {}
        if case["vt"] is not None:
            c = case["vt"]
            kw["value_transform"] = lambda x: elem("obj", untok(ek, x) + c)
        if case["kf"] is not None:
            ks = set(case["kf"])
            unk = (lambda k: untok(ek, k)) if key[0] == "id" else unkey
            kw["key_filter"] = lambda k: unk(k) in ks
        d = I.bucketize(src(), *kargs, **kw)
        if not isinstance(d, dict):
            raise ValueError("expected a dict")
        vek = "obj" if case["vt"] is not None else ek
        unk = (lambda k: untok(ek, k)) if key[0] == "id" else unkey
        if not all(isinstance(v, list) for v in d.values()):
            raise ValueError("buckets must be lists")
        return {"items": [[unk(k), _flat(vek, v)] for k, v in d.items()]}
    if fn == "bucketize_keys":
        kw = {}
        if case["vt"] is not None:
            c = case["vt"]
            kw["value_transform"] = lambda x: elem("obj", untok(ek, x) + c)
        if case["kf"] is not None:
            ks = set(case["kf"])
            kw["key_filter"] = lambda k: unkey(k) in ks
        keys = [kobj(k) for k in case["keys"]]
        vek = "obj" if case["vt"] is not None else ek

        def call():
            d = I.bucketize(src(), keys, **kw)
            return [[unkey(k), _flat(vek, v)] for k, v in d.items()]
        return {"items": _guard(call)}
    if fn == "partition":
        key = case["key"]
        if key[0] == "bool":
            r = I.partition(src())
            if not (isinstance(r, tuple) and len(r) == 2):
                raise ValueError("partition must return a 2-tuple")
            t, f = r
        elif case.get("flavour") == "attr":        # key='k': the attribute holds True / False
            t, f = I.partition(src(), "k")
        elif case.get("flavour") == "list":        # key=[True, False, ...] parallel to a sized src
            s = set(key[1])
            t, f = I.partition(src(), [tk in s for tk in case["src"]])
        else:
            s = set(key[1])
            t, f = I.partition(src(), lambda x: untok(ek, x) in s)
        if not (isinstance(t, list) and isinstance(f, list)):
            raise ValueError("partition must return two lists")
        return {"true": _flat(ek, t), "false": _flat(ek, f)}
    if fn == "chunk_ranges":
        def call():
            f = case.get("form", "int")
            out = list(I.chunk_ranges(coerce(case["size"], f), coerce(case["chunk"], f), coerce(case["offset"], f),
                                      coerce(case["overlap"], f), case["align"]))
            for r in out:
                if not (isinstance(r, tuple) and len(r) == 2):
                    raise TypeError("range %r" % (r,))
            return [[int(b), int(e)] for b, e in out]
        if case.get("kwargs"):
            def call():     # noqa: F811
                f = case.get("form", "int")
                out = list(I.chunk_ranges(input_size=coerce(case["size"], f), chunk_size=coerce(case["chunk"], f),
                                          input_offset=coerce(case["offset"], f),
                                          overlap_size=coerce(case["overlap"], f), align=case["align"]))
                return [[int(b), int(e)] for b, e in out]
        return {"ranges": _guard(call)}
    # ---- spec validation: the observation comes from the Python built-ins ----
    if fn == "ref_split":
        s = "".join(" " if t == 0 else elem("chr", t) for t in case["src"])
        sep, m = case["sep"], case["maxsplit"]
        if sep[0] == "none":
            out = s.split() if m is None else s.split(None, m)
        elif sep[0] == "val":
            c = " " if sep[1] == 0 else elem("chr", sep[1])
            out = s.split(c) if m is None else s.split(c, m)
        else:
            cls = "[" + "".join(re.escape(" " if t == 0 else elem("chr", t)) for t in sep[1]) + "]"
            out = [s] if m == 0 else re.split(cls, s, maxsplit=(m or 0))
        return {"list": [[0 if c == " " else untok("chr", c) for c in w] for w in out]}
    if fn == "ref_strip":
        s = "".join(" " if t == 0 else elem("chr", t) for t in case["src"])
        c = " " if case["v"] == 0 else elem("chr", case["v"])
        out = {"l": s.lstrip, "r": s.rstrip, "b": s.strip}[case["which"]](c)
        return {"list": [0 if ch == " " else untok("chr", ch) for ch in out]}
    raise ValueError(fn)


# --------------------------------------------------------------------------
# rendering
# --------------------------------------------------------------------------
def _l(toks):
    return clist(cnat(t) for t in toks)


def _ll(groups):
    return clist(_l(g) for g in groups)


def _res(r, render):
    if r[0] == "ok":
        return "(Ok %s)" % render(r[1])
    return {"ValueError": "(Raise ValueError)", "ZeroDivisionError": "(Raise ZeroDivisionError)"}[r[1]]


def _items(items):
    return clist(cpair(cnat(k), _l(v)) for k, v in items)


def _key(case):
    key = case["key"]
    if key[0] == "id":
        return "KeyId"
    if key[0] == "mod":
        return "(KeyMod %s)" % cnat(key[1])
    if key[0] == "div":
        return "(KeyDiv %s)" % cnat(key[1])
    if key[0] == "in":
        return "(KeyIn %s)" % _l(key[1])
    if key[0] == "bool":
        return "(KeyIn %s)" % _l(truthy(case.get("ek", "obj"), case["src"]))
    if key[0] == "partial":
        return "(KeyPartial %s %s)" % (_key({"key": key[1]}), _l(key[2]))
    raise ValueError(key)


def _sep(sep, ek="chr"):
    if sep[0] == "none":
        return "SepNone"
    if sep[0] == "val":
        if ek in ("obj", "unh") and sep[1] == 0:
            return "SepNone"            # the value passed is None itself: that IS sep=None
        return "(SepVal %s)" % cnat(sep[1])
    if sep[0] == "set":
        return "(SepSet %s)" % _l(sep[1])
    if sep[0] == "strmulti":
        return "(SepVal 4999%nat)"      # compared with ==: equal to no element token
    return "(SepFun %s)" % _l(sep[1])


def _vt(c):
    return "VtId" if c is None else "(VtAdd %s)" % cnat(c)


def _kf(ks):
    return "KfAll" if ks is None else "(KfIn %s)" % _l(ks)


_WHICH = {"l": "StripL", "r": "StripR", "b": "StripB"}


def to_coq(case, obs):
    t = _to_coq(case, obs)
    if "ids" in obs:
        t = "CIds (%s) %s" % (t, clist(clist(cpair(cnat(c), cZ(p)) for c, p in g) for g in obs["ids"]))
    return t


def _to_coq(case, obs):
    fn = case["fn"]
    src = _l(case.get("src", []))
    if fn == "chunked":
        srck = {"str": 3, "bytes": 4}.get(case["mk"], 1)
        return "CChunked %s %s %s %s %s %s %s %s %s" % (
            src, cnat(srck), cZ(case["size"]), copt(None if case["count"] is None else cnat(case["count"])),
            copt(None if case["fill"] is None else cnat(case["fill"])),
            _res(obs["list"], _ll), _res(obs["iter"], _ll), cnat(obs["ty"][0]), cnat(obs["ty"][1]))
    if fn == "windowed":
        return "CWindowed %s %s %s %s %s %s %s" % (src, cnat(case["size"]),
                                                  copt(None if case["fill"] is None else cnat(case["fill"])),
                                                  _ll(obs["list"]), _ll(obs["iter"]),
                                                  cnat(obs["ty"][0]), cnat(obs["ty"][1]))
    if fn == "pairwise":
        return "CPairwise %s %s %s %s %s %s" % (src, copt(None if case["fill"] is None else cnat(case["fill"])),
                                               _ll(obs["list"]), _ll(obs["iter"]),
                                               cnat(obs["ty"][0]), cnat(obs["ty"][1]))
    if fn == "split":
        return "CSplit %s %s %s %s %s %s %s" % (src, _sep(case["sep"], case["ek"]),
                                               copt(None if case["maxsplit"] is None else cnat(case["maxsplit"])),
                                               _ll(obs["list"]), _ll(obs["iter"]),
                                               cnat(obs["ty"][0]), cnat(obs["ty"][1]))
    if fn == "strip":
        return "CStrip %s %s %s %s %s" % (_WHICH[case["which"]], src, cnat(case["v"]), _l(obs["list"]), _l(obs["iter"]))
    if fn == "unique":
        return "CUnique %s %s %s %s" % (src, _key(case), _l(obs["list"]), _l(obs["iter"]))
    if fn == "redundant":
        return "CRedundant %s %s %s %s" % (src, _key(case), _l(obs["plain"]), _ll(obs["groups"]))
    if fn == "bucketize":
        return "CBucketize %s %s %s %s %s" % (src, _key(case), _vt(case["vt"]), _kf(case["kf"]), _items(obs["items"]))
    if fn == "bucketize_keys":
        return "CBucketizeKeys %s %s %s %s %s" % (src, _l(case["keys"]), _vt(case["vt"]), _kf(case["kf"]),
                                                 _res(obs["items"], _items))
    if fn == "partition":
        key = case["key"]
        tr = truthy(case.get("ek", "obj"), case["src"]) if key[0] == "bool" else key[1]
        return "CPartition %s %s %s %s" % (src, _l(tr), _l(obs["true"]), _l(obs["false"]))
    if fn == "chunk_ranges":
        return "CChunkRanges %s %s %s %s %s %s" % (
            cZ(case["size"]), cZ(case["chunk"]), cZ(case["offset"]), cZ(case["overlap"]), cbool(case["align"]),
            _res(obs["ranges"], lambda rs: clist(cpair(cZ(b), cZ(e)) for b, e in rs)))
    if fn == "ref_split":
        return "CRefSplit %s %s %s %s" % (src, _sep(case["sep"]),
                                         copt(None if case["maxsplit"] is None else cnat(case["maxsplit"])),
                                         _ll(obs["list"]))
    if fn == "ref_strip":
        return "CRefStrip %s %s %s %s" % (_WHICH[case["which"]], src, cnat(case["v"]), _l(obs["list"]))
    raise ValueError(fn)


# --------------------------------------------------------------------------
# generation
# --------------------------------------------------------------------------
MKS = ["list", "tuple", "gen", "iter"]


def _pick_container(rng, fn, need_hash=False, sized=False, allow_text=True):
    """(ek, mk, lo): element kind, container kind, smallest token allowed"""
    r = rng.random()
    mks = ["list", "tuple"] if sized else MKS
    if allow_text and r < 0.12:
        return "chr", rng.choice(["str", "str", "list", "gen"] if not sized else ["str", "list"]), 1
    if allow_text and r < 0.2:
        return "byte", rng.choice(["bytes", "bytes", "list", "iter", "bytearray", "range"] if not sized
                                  else ["bytes", "list", "bytearray", "range"]), 1
    if not need_hash and r < 0.3:
        return "unh", rng.choice(mks), 0
    if r < 0.45 and fn in _IDS_GROUPS:
        return "eqv", rng.choice(mks), 0     # == but not `is` objects, identity of the emitted items observed
    return "obj", rng.choice(mks), 0


def _rand_src(rng, tier, lo):
    big = tier != "quick"
    n = rng.choice([0, 1, 2, 3, 3, 4, 4, 5, 5, 6, 6, 7, 8, 9, 10, 12] + ([14, 17, 20, 25, 31] if big else []))
    a = rng.choice([1, 2, 2, 3, 3, 4, 6])
    style = rng.random()
    if style < 0.25:
        # runs: separators / duplicates in blocks, also at both ends
        out = []
        while len(out) < n:
            out += [lo + rng.randrange(a)] * rng.randint(1, 3)
        return out[:n]
    return [lo + rng.randrange(a) for _ in range(n)]


def _rand_key(rng):
    r = rng.random()
    if r < 0.3:
        return ["id"]
    if r < 0.6:
        return ["mod", rng.choice([1, 2, 2, 3, 4])]
    if r < 0.8:
        return ["div", rng.choice([1, 2, 3])]
    return ["in", sorted(rng.sample(range(7), rng.randint(0, 4)))]


def _one(rng, tier, fn, src=None):
    c = _one_raw(rng, tier, fn, src)
    s = c.get("src")
    if c.get("mk") == "range" and s is not None:
        if src is not None and s != list(range(s[0], s[0] + len(s))) if s else False:
            c["mk"] = "tuple"                       # a forced (swept) list is rarely consecutive
        elif s:
            c["src"] = list(range(s[0], s[0] + len(s)))
            if "keys" in c and len(c["keys"]) != len(c["src"]):
                pass
    if c.get("ek") == "eqv":
        if fn == "split" and c["sep"][0] == "none":
            c["ek"] = "obj"                         # there is no None among the == classes
        elif src is None and s and rng.random() < 0.3:
            for _ in range(rng.choice([1, 1, 2])):  # NaN objects: equal to nothing, not even to themselves
                i = rng.randrange(len(s))
                s[i] = 50 + i
    return c


def _one_raw(rng, tier, fn, src=None):
    """a random case of kind fn; src forces the token list (exhaustive sweep)."""
    forced = src is not None

    def get_src(lo):
        if forced:
            return [t + lo for t in src] if lo else list(src)
        return _rand_src(rng, tier, lo)

    if fn == "chunked":
        ek, mk, lo = _pick_container(rng, fn)
        s = get_src(lo)
        size = rng.choice([1, 1, 2, 2, 3, 3, 4, 5, max(1, len(s)), len(s) + 1, 7])
        if rng.random() < 0.04:
            size = rng.choice([0, -1, -3])
        count = None if rng.random() < 0.6 else rng.choice([0, 1, 2, 3, 5])
        fill = None if rng.random() < 0.5 else lo + rng.randrange(4)
        return {"fn": fn, "ek": ek, "mk": mk, "src": s, "size": size, "count": count, "fill": fill,
                "form": rng.choice(["int", "int", "int", "str", "float", "bool"])}
    if fn == "windowed":
        ek, mk, lo = _pick_container(rng, fn)
        s = get_src(lo)
        size = rng.choice([1, 2, 2, 3, 3, 4, 5, max(1, len(s)), len(s) + 1, len(s) + 2])
        if rng.random() < 0.03:
            size = 0
        fill = None if rng.random() < 0.5 else lo + rng.randrange(4)
        return {"fn": fn, "ek": ek, "mk": mk, "src": s, "size": size, "fill": fill}
    if fn == "pairwise":
        ek, mk, lo = _pick_container(rng, fn)
        fill = None if rng.random() < 0.5 else lo + rng.randrange(4)
        return {"fn": fn, "ek": ek, "mk": mk, "src": get_src(lo), "fill": fill}
    if fn == "split":
        kind = rng.choice(["none", "none", "val", "val", "set", "fun"])
        if kind == "none":
            ek, mk, lo = _pick_container(rng, fn, allow_text=False)
            sep = ["none"]
        else:
            # (an unhashable [t] element cannot be a single-value sep: a list argument is a collection of separators)
            ek, mk, lo = _pick_container(rng, fn, need_hash=(kind in ("set", "val")))
            if kind == "val":
                sep = ["val", lo + rng.randrange(3)]
            else:
                vs = sorted(set(lo + rng.randrange(4) for _ in range(rng.randint(0, 3))))
                sep = [kind, vs] + ([rng.choice(["list", "tuple", "set", "frozenset"])] if kind == "set" else [])
        if ek == "chr" and kind == "val" and rng.random() < 0.25:
            sep = ["strmulti", lo + rng.randrange(3), lo + rng.randrange(3)]
        s = get_src(lo)
        m = None if rng.random() < 0.4 else rng.choice([0, 0, 1, 1, 2, 3, 4, len(s)])
        return {"fn": fn, "ek": ek, "mk": mk, "src": s, "sep": sep, "maxsplit": m,
                "explicit": rng.random() < 0.7, "form": rng.choice(["int", "int", "int", "str", "float", "bool"])}
    if fn == "strip":
        ek, mk, lo = _pick_container(rng, fn)
        if ek == "obj" and rng.random() < 0.4:
            ek = "unh"        # fresh, equal-but-not-identical objects: == must be used, not `is`
        return {"fn": fn, "ek": ek, "mk": mk, "src": get_src(lo), "which": rng.choice("lrb"),
                "v": lo + rng.randrange(3), "explicit": rng.random() < 0.7}
    if fn in ("unique", "redundant"):
        key = _rand_key(rng)
        flavour = rng.choice(["callable", "callable", "attr"]) if key[0] != "id" else rng.choice(["none", "callable"])
        if flavour == "attr":
            ek, mk, lo = "tok", rng.choice(MKS), 0
            if rng.random() < 0.4:      # some elements lack the attribute: getattr(x, key, x) -> x
                key = ["partial", key, sorted(rng.sample(range(7), rng.randint(0, 5)))]
        else:
            ek, mk, lo = _pick_container(rng, fn, need_hash=(key[0] == "id"))
        return {"fn": fn, "ek": ek, "mk": mk, "src": get_src(lo), "key": key, "flavour": flavour}
    if fn == "bucketize":
        key = _rand_key(rng)
        if rng.random() < 0.15:
            key = ["bool"]
        flavour = "callable"
        if key[0] in ("mod", "div", "in") and rng.random() < 0.3:
            flavour = "attr"
            ek, mk, lo = "tok", rng.choice(MKS), 0
            if rng.random() < 0.4:
                key = ["partial", key, sorted(rng.sample(range(7), rng.randint(0, 5)))]
        else:
            ek, mk, lo = _pick_container(rng, fn, need_hash=(key[0] == "id"))
        s = get_src(lo)
        vt = None if rng.random() < 0.7 else rng.randint(1, 5)
        kf = None if rng.random() < 0.7 else sorted(rng.sample(range(5 + lo), rng.randint(0, 3)))
        if key[0] == "partial" and kf is not None and s:
            kf = sorted(set(kf + [1000 + rng.choice(s)]))
        if key[0] == "bool":
            ek_, kf = ek, (None if kf is None else [k for k in kf if k < 2])
        return {"fn": fn, "ek": ek, "mk": mk, "src": s, "key": key, "flavour": flavour, "vt": vt, "kf": kf}
    if fn == "bucketize_keys":
        ek, mk, lo = _pick_container(rng, fn, sized=True)
        s = get_src(lo)
        n = len(s) if rng.random() < 0.9 else max(0, len(s) + rng.choice([-1, 1]))
        keys = [rng.randrange(rng.choice([1, 2, 3, 4])) for _ in range(n)]
        vt = None if rng.random() < 0.7 else rng.randint(1, 5)
        kf = None if rng.random() < 0.7 else sorted(rng.sample(range(5), rng.randint(0, 3)))
        return {"fn": fn, "ek": ek, "mk": mk, "src": s, "keys": keys, "vt": vt, "kf": kf}
    if fn == "partition":
        ek, mk, lo = _pick_container(rng, fn)
        key = ["bool"] if rng.random() < 0.4 else ["in", sorted(rng.sample(range(7), rng.randint(0, 4)))]
        flavour = "callable"
        if key[0] == "in":
            r = rng.random()
            if r < 0.25:
                flavour, ek, mk, lo = "attr", "tok", rng.choice(MKS), 0
            elif r < 0.45:
                flavour = "list"
                ek, mk, lo = _pick_container(rng, fn, sized=True)
        return {"fn": fn, "ek": ek, "mk": mk, "src": get_src(lo), "key": key, "flavour": flavour}
    if fn == "chunk_ranges":
        big = tier != "quick"
        chunk = rng.choice([1, 2, 3, 3, 4, 5, 5, 7, 8] + ([16, 100] if big else []))
        overlap = rng.choice([0, 0, 0, 1, chunk - 1, rng.randrange(chunk), rng.randrange(chunk)])
        size = rng.choice([0, 1, chunk - 1, chunk, chunk + 1, 2 * chunk, rng.randint(0, 30), rng.randint(0, 30)]
                          + ([rng.randint(30, 300)] if big else []))
        offset = rng.choice([0, 0, 1, chunk, chunk - 1, rng.randint(0, 20), rng.randint(0, 20)]
                            + ([10 ** 12 + rng.randint(0, 9), 2 ** 64 + 3] if big else [10 ** 9 + 7]))
        r = rng.random()
        if r < 0.03:
            overlap = chunk + rng.choice([0, 0, 1, 2])        # invalid: step <= 0
        elif r < 0.06:
            v = rng.choice(["size", "chunk", "offset", "overlap"])
            size, chunk, offset, overlap = (-1 if v == "size" else size, rng.choice([0, -2]) if v == "chunk" else chunk,
                                            -1 if v == "offset" else offset, -1 if v == "overlap" else overlap)
        return {"fn": fn, "size": max(size, -1), "chunk": chunk, "offset": offset, "overlap": overlap,
                "align": rng.random() < 0.5, "kwargs": rng.random() < 0.3, "form": rng.choice(["int", "int", "int", "str", "float", "bool"])}
    if fn == "ref_split":
        kind = rng.choice(["none", "val", "set"])
        sep = ["none"] if kind == "none" else (["val", rng.randrange(3)] if kind == "val" else
                                               ["set", sorted(set(rng.randrange(4) for _ in range(rng.randint(1, 3))))])
        s = get_src(0)
        m = None if rng.random() < 0.4 else rng.choice([0, 1, 1, 2, 3, len(s)])
        return {"fn": fn, "src": s, "sep": sep, "maxsplit": m}
    if fn == "ref_strip":
        return {"fn": fn, "src": get_src(0), "which": rng.choice("lrb"), "v": rng.randrange(3)}
    raise ValueError(fn)


FNS = [("chunked", 12), ("windowed", 10), ("pairwise", 4), ("split", 18), ("strip", 10), ("unique", 7),
       ("redundant", 8), ("bucketize", 8), ("bucketize_keys", 3), ("partition", 4), ("chunk_ranges", 12),
       ("ref_split", 5), ("ref_strip", 2)]
SEQ_FNS = [f for f, _ in FNS if f != "chunk_ranges"]


def generate(rng, tier, n):
    # (a) exhaustive sweep over short token lists on a 3-symbol alphabet: every list up to
    # length L is used by every sequence helper (parameters drawn at random per use)
    budget = n // 2
    L = 0
    total = 0
    while True:
        nxt = total + (3 ** (L + 1)) * len(SEQ_FNS)
        if nxt > budget or L >= (9 if tier != "quick" else 6):
            break
        total = nxt
        L += 1
    emitted = 0
    for k in range(0, L + 1):
        for t in itertools.product(range(3), repeat=k):
            for fn in SEQ_FNS:
                yield _one(rng, tier, fn, src=list(t))
                emitted += 1
    # (a') thorough: the complete grid of small valid chunk_ranges parameters
    if tier != "quick":
        for size in range(0, 14):
            for chunk in range(1, 6):
                for offset in range(0, 7):
                    for overlap in range(0, chunk):
                        for align in (False, True):
                            yield {"fn": "chunk_ranges", "size": size, "chunk": chunk, "offset": offset,
                                   "overlap": overlap, "align": align, "kwargs": False, "form": "int"}
                            emitted += 1
    # (b) random cases
    names = [f for f, _ in FNS]
    weights = [w for _, w in FNS]
    for _ in range(max(0, n - emitted)):
        fn = rng.choices(names, weights)[0]
        yield _one(rng, tier, fn)


# --------------------------------------------------------------------------
# canary, evidence helpers
# --------------------------------------------------------------------------
def corrupt(case, obs):
    import copy
    bad = copy.deepcopy(obs)
    fn = case["fn"]

    def bump_ll(ll):
        if ll and ll[-1]:
            ll[-1][-1] += 1
        else:
            ll.append([7])
    if fn == "chunked":
        if bad["list"][0] != "ok":
            return None
        bump_ll(bad["list"][1])
    elif fn in ("windowed", "pairwise", "split", "ref_split"):
        bump_ll(bad["list"])
    elif fn in ("strip", "unique", "ref_strip"):
        bad["list"] = bad["list"] + [5]
    elif fn == "redundant":
        bad["plain"] = bad["plain"] + [5]
    elif fn == "bucketize":
        if not bad["items"]:
            return None
        bad["items"][0][1] = bad["items"][0][1][::-1] + [3]
    elif fn == "bucketize_keys":
        if bad["items"][0] != "ok" or not bad["items"][1]:
            return None
        bad["items"][1][0][1].append(3)
    elif fn == "partition":
        bad["true"], bad["false"] = bad["false"] + [1], bad["true"]
    elif fn == "chunk_ranges":
        if bad["ranges"][0] != "ok" or not bad["ranges"][1]:
            return None
        bad["ranges"][1][-1][1] += 1
    else:
        return None
    return bad


def nontrivial(case, obs):
    fn = case["fn"]
    s = case.get("src", [])
    if fn == "chunked":
        return obs["iter"][0] == "ok" and (len(obs["iter"][1]) >= 2 or (case["fill"] is not None and len(s) % max(1, case["size"]) != 0))
    if fn in ("windowed", "pairwise"):
        return len(obs["list"]) >= 2
    if fn in ("split", "ref_split"):
        return len(obs["list"]) >= 2 or sum(map(len, obs["list"])) < len(s)
    if fn in ("strip", "ref_strip"):
        return len(obs["list"]) < len(s)
    if fn == "unique":
        return len(obs["list"]) < len(s)
    if fn == "redundant":
        return bool(obs["plain"])
    if fn == "bucketize":
        return len(obs["items"]) >= 2 or any(len(v) >= 2 for _, v in obs["items"])
    if fn == "bucketize_keys":
        return obs["items"][0] == "ok" and len(obs["items"][1]) >= 2
    if fn == "partition":
        return bool(obs["true"]) and bool(obs["false"])
    if fn == "chunk_ranges":
        return obs["ranges"][0] == "ok" and len(obs["ranges"][1]) >= 2
    return False


def distribution(d, case, obs):
    fn = case["fn"]
    d.setdefault("fn", {})
    d["fn"][fn] = d["fn"].get(fn, 0) + 1
    if "mk" in case:
        k = case["ek"] + ":" + case["mk"]
        d.setdefault("container", {})
        d["container"][k] = d["container"].get(k, 0) + 1
    if "src" in case:
        b = str(min(len(case["src"]), 16))
        d.setdefault("len", {})
        d["len"][b] = d["len"].get(b, 0) + 1
    marks = d.setdefault("marks", {})

    def mark(name, cond=True):
        if cond:
            marks[name] = marks.get(name, 0) + 1
    if fn == "chunked":
        mark("chunked:error", obs["list"][0] != "ok")
        mark("chunked:count", case["count"] is not None)
        mark("chunked:padded", case["fill"] is not None and case["size"] > 0 and len(case["src"]) % case["size"] != 0)
        mark("chunked:exact_multiple", case["size"] > 0 and case["src"] and len(case["src"]) % case["size"] == 0)
    elif fn == "windowed":
        mark("windowed:too_short", case["size"] > len(case["src"]))
        mark("windowed:fill", case["fill"] is not None)
    elif fn == "split":
        mark("split:" + case["sep"][0])
        mark("split:maxsplit0", case["maxsplit"] == 0)
        mark("split:limit_hit", case["maxsplit"] is not None and len(obs["list"]) == case["maxsplit"] + 1)
    elif fn == "chunk_ranges":
        mark("ranges:error", obs["ranges"][0] != "ok")
        mark("ranges:align", case["align"])
        mark("ranges:overlap", case["overlap"] > 0)
    elif fn in ("unique", "redundant", "bucketize", "partition"):
        mark(fn + ":key=" + case["key"][0] + "/" + case.get("flavour", ""))
    if case.get("form", "int") != "int":
        mark("int-coercible:" + case["form"])


def sample(case, obs):
    return {"case": case, "obs": obs}


def extra_evidence(results):
    n = sum(1 for r in results if r["case"].get("fn", "").startswith("ref_"))
    return {"source_tie": dict(_TIE), "spec_validation": {"cases": n, "what": "Spec.py_split/py_split_ws/py_*strip evaluated in Coq against the output "
                                "of the real str.split / re.split / str.strip on the corresponding character strings"}}


def shrink(case):
    s = case.get("src")
    if s:
        for i in range(len(s)):
            c = dict(case)
            c["src"] = s[:i] + s[i + 1:]
            if case["fn"] == "bucketize_keys" and len(case["keys"]) == len(s):
                c["keys"] = case["keys"][:i] + case["keys"][i + 1:]
            yield c
    for k in ("size", "count", "maxsplit", "chunk", "offset", "overlap"):
        v = case.get(k)
        if isinstance(v, int) and v > 0:
            c = dict(case)
            c[k] = v - 1
            yield c
            if v > 3:
                c = dict(case)
                c[k] = v // 2
                yield c
    if case.get("mk") in ("tuple", "gen", "iter"):
        c = dict(case)
        c["mk"] = "list"
        yield c
