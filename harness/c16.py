"""C16 traceback text <-> ParsedException; ExceptionInfo vs the interpreter: plug-in.

Three streams of cases (Check/C16_Check.v has one constructor for each):
  rt   a structured traceback T (frames, type, message), optional marker lines; the text is
       rendered by the *standard traceback module* (or, for deliberately ill-formed T, by a
       plain renderer here) and Coq compares it with Spec.std_text/marked_text, so the
       rendering done on this side is checked, not trusted;
  raw  arbitrary, mostly malformed text: only model = implementation (incl. the escaping
       ValueError / IndexError / KeyError types);
  ei   a generated program (call chain through functions, lambdas, methods, generators, nested
       classes, recursion, exec'd code without source, several modules, odd file names) raising an
       exception; the interpreter's view (traceback.extract_tb, type, str(value), its formatted
       text) is the input, boltons' ExceptionInfo/TracebackInfo/print_exception view is the
       observation.
Python only moves data: all comparisons happen in Coq.
"""
import io
import json
import os
import re
import shutil
import sys

from common import cN, clist, cbool

ID = "C16"
IMPORTS = ("From Boltons Require Import Lib.Prelude Lib.C16_Text Spec.C16_Spec Model.C16_Model "
           "Gen.C16_Gen Check.C16_Check.")
CASE_TYPE = "c16_case"
VERDICT = "c16_verdict"
EXPLAIN = "c16_explain"
CASES_PER_FILE = 60
CASE_FILE_BYTES = 110000
CASE_TIMEOUT = 20
TIERS = {"quick": {"n": 1200}, "thorough": {"n": 30000}}
RULE = ("rt: structured tracebacks (0-8 frames, each with/without source line and marker line, paths with "
        "spaces/quotes/non-ASCII, <module>/<lambda> names, empty/one-line/multi-line messages with ': '), ~16% with "
        "one well-formedness condition deliberately broken, ~8% with an entry repeated 2-7 times (folded by the "
        "interpreter); raw: mutated/malformed texts; re: the four compiled patterns on strings; ei: generated programs "
        "(depth 1-12, 14 kinds of callables, 1-3 modules, recursion 0-6, 22 ways of raising); sess: 2-4 exceptions in one "
        "process with the module files rewritten/reloaded/deleted/edited in between, tbutils observed before the "
        "traceback module; stack: call stacks without exception (from_frame vs extract_stack/format_stack). "
        "Non-trivial = rt case that is well-formed with >= 2 frames of which at least one has no source line, an ei or "
        "stack case with >= 3 frames, or a session in which the text served for some (file, line) changed between two "
        "steps; distinct = distinct case hash")
ASSUMPTIONS = [
    "CPython's str.isspace / str.splitlines boundaries / regex \\d tables are those generated into Gen/C16_Gen.v "
    "from the running interpreter (the theorems hold for any classes satisfying cc_ok)",
    "re: leftmost-greedy backtracking semantics of the three patterns _frame_re/_se_frame_re/_underline_re "
    "(modelled by hand in Model/C16_Model.v, tied by the correspondence run)",
    "frame walking (tb_next, f_code.co_name/co_filename, tb_lineno) and linecache are CPython's; the model starts "
    "from the data traceback.extract_tb reports",
    "second half excludes SyntaxError, chained exceptions, notes, exception groups, display-time suggestions "
    "(NameError/AttributeError/ImportError 'Did you mean') and exceptions whose __str__ raises",
]
TRUSTED = [
    "Model/C16_Model.v is hand-written; tied to boltons.tbutils by the correspondence run",
    "Spec/C16_Spec.v std_lines transcribes traceback.StackSummary.format/_format_final_exc_line (CPython 3.12); "
    "validated on every rt/ei case against the real traceback module's text",
    "harness/c16.py serialiser (strings are interned per case; texts are passed line by line)",
]

# ----------------------------------------------------------------------------------------------
# translator: CPython's character classes + the patterns the model was written against
# ----------------------------------------------------------------------------------------------


def _ranges(pred):
    out = []
    for c in range(0x110000):
        if 0xD800 <= c <= 0xDFFF:
            continue
        if pred(chr(c)):
            if out and out[-1][1] == c - 1:
                out[-1][1] = c
            else:
                out.append([c, c])
    return out


_CLASSES = None


def _classes():
    global _CLASSES
    if _CLASSES is None:
        digit = re.compile(r"\d")
        sp = _ranges(lambda ch: ch.isspace())
        br = _ranges(lambda ch: len(("a" + ch + "b").splitlines()) > 1)
        dg = _ranges(lambda ch: digit.fullmatch(ch) is not None)
        _CLASSES = (sp, br, dg)
    return _CLASSES


def _re_items(regex):
    """_frame_re & co. as a list of Spec.C16_Re items (fails closed on anything outside the fragment)."""
    try:
        import re._parser as sre_parse
        import re._constants as sre_c
    except ImportError:       # Python < 3.11
        import sre_parse
        import sre_constants as sre_c
    if regex.flags & ~re.UNICODE:
        raise RuntimeError("unsupported regex flags %r on %r" % (regex.flags, regex.pattern))

    def cls(node):
        op, arg = node
        if op is sre_c.ANY:
            return "CDot"
        if op is sre_c.IN:
            if arg == [(sre_c.CATEGORY, sre_c.CATEGORY_DIGIT)]:
                return "CDigit"
            if arg and all(o is sre_c.LITERAL for o, _ in arg):
                return "(CSet %s)" % clist(cN(c) for _, c in arg)
        if op is sre_c.LITERAL:
            return "(CSet [%s])" % cN(arg)
        raise RuntimeError("unsupported character class %r in %r" % (node, regex.pattern))
    items = []
    for op, arg in sre_parse.parse(regex.pattern, regex.flags):
        if op is sre_c.LITERAL:
            items.append("ILit %s" % cN(arg))
        elif op is sre_c.AT and arg is sre_c.AT_BEGINNING:
            items.append("IBol")
        elif op is sre_c.AT and arg is sre_c.AT_END:
            items.append("IEol")
        elif op is sre_c.SUBPATTERN:
            group, add, dele, sub = arg
            sub = list(sub)
            if add or dele or group is None or len(sub) != 1 or sub[0][0] is not sre_c.MAX_REPEAT:
                raise RuntimeError("unsupported group %r in %r" % (arg, regex.pattern))
            lo, hi, body = sub[0][1]
            body = list(body)
            if lo != 1 or hi is not sre_c.MAXREPEAT or len(body) != 1:
                raise RuntimeError("unsupported repetition %r in %r" % (sub[0], regex.pattern))
            items.append("IPlusGroup %s %s" % (cN(group), cls(body[0])))
        elif op is sre_c.MAX_REPEAT and arg[0] == 0 and arg[1] == 1 and len(list(arg[2])) == 1 and list(arg[2])[0][0] is sre_c.LITERAL:
            items.append("IOpt %s" % cN(list(arg[2])[0][1]))
        elif op is sre_c.MAX_REPEAT:
            lo, hi, body = arg
            body = list(body)
            if lo != 0 or hi is not sre_c.MAXREPEAT or len(body) != 1:
                raise RuntimeError("unsupported repetition %r in %r" % (arg, regex.pattern))
            items.append("IStar %s" % cls(body[0]))
        else:
            raise RuntimeError("unsupported regex construct %r in %r" % ((op, arg), regex.pattern))
    return clist(items), clist(cN(i + 1) for i in range(regex.groups))


_TEMPLATE_FUNCS = [("Callpoint", "tb_frame_str"), ("TracebackInfo", "get_formatted"), (None, "_repeated_str"),
                   ("ExceptionInfo", "get_formatted_exception_only"), (None, "_format_final_exc_line"),
                   ("ParsedException", "to_string"), ("ParsedException", "from_string")]


def _string_constants(path):
    """The string constants (docstrings aside) of the functions that print or scan the standard format, in
    source order, from the AST of tbutils.py as it is now."""
    import ast
    tree = ast.parse(open(path, encoding="utf-8").read())
    found = {}

    def consts(fn):
        body = fn.body
        if body and isinstance(body[0], ast.Expr) and isinstance(body[0].value, ast.Constant) and isinstance(body[0].value.value, str):
            body = body[1:]
        out = []
        for st in body:
            for n in ast.walk(st):
                if isinstance(n, ast.Constant) and isinstance(n.value, str):
                    out.append(n.value)
        return out
    for node in tree.body:
        if isinstance(node, ast.FunctionDef) and (None, node.name) in _TEMPLATE_FUNCS:
            found[(None, node.name)] = consts(node)
        if isinstance(node, ast.ClassDef):
            for f in node.body:
                if isinstance(f, ast.FunctionDef) and (node.name, f.name) in _TEMPLATE_FUNCS:
                    found[(node.name, f.name)] = consts(f)
    missing = [k for k in _TEMPLATE_FUNCS if k not in found]
    if missing:
        raise RuntimeError("functions not found in tbutils.py: %r" % (missing,))
    return found


def translators(repo):
    if repo not in sys.path:
        sys.path.insert(0, repo)
    import importlib
    tb = importlib.import_module("boltons.tbutils")
    if not os.path.abspath(tb.__file__).startswith(os.path.abspath(repo)):
        raise RuntimeError("boltons imported from %s, not from %s" % (tb.__file__, repo))
    regexes = []
    for coq_name, attr in (("gen_frame", "_frame_re"), ("gen_se", "_se_frame_re"), ("gen_underline", "_underline_re"),
                           ("gen_repeat", "_repeat_re")):
        items, groups = _re_items(getattr(tb, attr))
        regexes.append("(* boltons.tbutils.%s = %s *)\nDefinition %s_items : list item := %s.\nDefinition %s_groups : list N := %s.\n"
                       % (attr, getattr(tb, attr).pattern.replace("(*", "( *").replace("*)", "* )").replace('"', "DQ"),
                          coq_name, items, coq_name, groups))
    sp, br, dg = _classes()
    if not sp or not br or not dg:
        raise RuntimeError("empty character class")
    for lo, hi in dg:       # val_ranges: blocks of ten count 0..9 from the start of their range
        for c in range(lo, hi + 1):
            if int(chr(c)) != (c - lo) % 10:
                raise RuntimeError("decimal digit U+%04X has value %d, not (c - %d) mod 10" % (c, int(chr(c)), lo))

    def rl(rs):
        return clist("(%s, %s)" % (cN(a), cN(b)) for a, b in rs)
    text = ("(* generated by harness/c16.py from the running interpreter (%s): what str.strip,\n"
            "   str.splitlines and the regex class \\d consult *)\n"
            "From Boltons Require Import Lib.Prelude Lib.C16_Text Spec.C16_Re.\nOpen Scope N_scope.\n"
            "Definition py_space_ranges : list (N * N) := %s.\n"
            "Definition py_break_ranges : list (N * N) := %s.\n"
            "Definition py_digit_ranges : list (N * N) := %s.\n"
            "Definition py_cc : cc := mkCC (in_ranges py_space_ranges) (in_ranges py_break_ranges) "
            "(in_ranges py_digit_ranges) (val_ranges py_digit_ranges).\n"
            % (sys.version.split()[0], rl(sp), rl(br), rl(dg)))
    text += "(* the patterns, parsed by re._parser from the module as it is now *)\n" + "".join(regexes)
    text += "(* string constants of the printing / scanning functions (ast of tbutils.py, docstrings aside) *)\n"
    for (cls_, fn), strs in sorted(_string_constants(tb.__file__).items(), key=lambda kv: (kv[0][0] or "", kv[0][1])):
        text += "Definition gen_strs_%s%s : list (list N) := %s.\n" % (
            (cls_ + "_") if cls_ else "", fn.lstrip("_"), clist(clist(cN(ord(ch)) for ch in x) for x in strs))
    return {"C16_Gen": text}


# ----------------------------------------------------------------------------------------------
# generation
# ----------------------------------------------------------------------------------------------
PATHS = ["a.py", "<stdin>", "<string>", "/usr/lib/python3.12/x/y.py", "C:\\Program Files\\x y.py", "/home/\u00fc ser/m\u00f6d.py",
         'we"ird.py', 'a", line 5, in b.py', "<frozen importlib._bootstrap>", " lead.py", "trail.py ", "\u65e5\u672c/\u8a9e.py",
         "x\ty.py", "<boltons.FunctionBuilder-0>", "./rel/p.py", 'q", line 7', "File \"z\"", "p\u00a0q.py", ": .py"]
FUNCS = ["<module>", "<lambda>", "f", "main", "<genexpr>", "<listcomp>", "process", "load_entry_point", "__call__",
         "Outer.meth", "\u00fcber", "f1", "in", " in x", "g ,", "a, in b", "line", "<dictcomp>"]
SRCS = ["", "", "x = f(1)", "raise ValueError('boom')", "return a + b", "plarp", "self.load()", "print(\"q: \", 1)",
        "y = {'k': \"v\"}  # c: d", "assert x, 'm'", "\u00fc = 'File'", "~x", "^", "~^", "a ^ b", "File = 3", "Fil",
        "foo(\"x\", line)", "x = ', line 3, in y'", "return [i for i in r]", "if a: b", "f(  1,  2 )"]
TYPES = ["ValueError", "KeyError", "RuntimeError", "NameError", "mod.Err", "pkg.mod.Outer.Err", "FileNotFoundError",
         "File", "E", "\u00c9rr", "~Err", "a:b", "OSError", "json.decoder.JSONDecodeError", "Exception", "x.<locals>.L", "^x"]
MSGS = ["", "", "boom", "name 'plarp' is not defined", "a: b", ": lead", "x\ny", "l1\nl2: z\nl3", "\nstarts", "a\n\nb",
        "  spaced  ", "\u00fcn\u00ef \u2713", "'k'", "[Errno 2] No such file or directory: 'x'", "m\n  File \"a\", line 1, in b\n    z",
        "Exception x ignored\nmore", "unsupported operand type(s) for +: 'int' and 'str'", "~^", "t\n~~^",
        "x\nExceptions were ignored", "Exception", "a\nExceptionally ignored", "b\nException  ignored x", "c\nexception y ignored",
        "d\nException ignored "]
# every literal the scanner keys on; messages are also built around each of them (start / middle / end of the
# exception line and of the lines of multi-line messages)
KEYWORDS = ["Exception ", "ignored", "Exception x ignored", 'File "', ", line ", " in ", ", in ", "Traceback (most recent call last):",
            "[Previous line repeated", "[Previous line repeated 2 more times]", ": ", "^", "~", '", line 3, in f',
            'File "a.py", line 3, in f', "    ", "\t"]
FILLER = ["", "x", "cb()", "callback <Handle cb()>", "a b", "RuntimeError", "in", "7"]


def kw_line(rng):
    k = rng.choice(KEYWORDS)
    pos = rng.choice(["start", "middle", "end", "alone", "twice"])
    f1, f2 = rng.choice(FILLER), rng.choice(FILLER)
    if pos == "start":
        return k + f1
    if pos == "end":
        return f1 + k
    if pos == "alone":
        return k
    if pos == "twice":
        return f1 + k + f2 + rng.choice(KEYWORDS)
    return f1 + " " + k + f2


def kw_msg(rng):
    n = rng.choice([1, 1, 2, 3])
    where = rng.randrange(n)
    lines = [kw_line(rng) if i == where or rng.random() < 0.3 else rng.choice(["plain", "", "l%d" % i, "more text"]) for i in range(n)]
    if rng.random() < 0.2:
        lines[-1] = rng.choice(["Exception in callback <Handle cb()> ignored", "x Exception y ignored", "an Exception was ignored",
                                "Exception ignored", "Exception  ignored", "Exception ignored in: <function f>"])
    return "\n".join(lines)


MARKS = ["    ^^^^", "    ~~~^~~", "      ^", "^", "", "   ", "    ~~~~~~~~^^^^^^"]
ALPHA = "abcxyz_ .:/\\\"',()<>-~^019\u00e9\u4e2d\t"

BAD = ["path_break", "path_empty", "func_trail", "func_quote", "func_empty", "func_break", "lineno_bad", "src_lead",
       "src_trail", "src_frame", "src_break", "type_space", "type_colon", "type_empty", "type_caret", "type_frame",
       "msg_nl", "msg_cr", "msg_break", "msg_ignored", "mark_bad", "lineno_empty", "type_lead"]
BREAKS = ["\r", "\x0b", "\x0c", "\x1c", "\x1d", "\x1e", "\x85", "\u2028", "\u2029", "\r\n"]


def _rand_str(rng, lo, hi):
    return "".join(rng.choice(ALPHA) for _ in range(rng.randint(lo, hi)))


def _lineno(rng):
    r = rng.random()
    if r < 0.85:
        return str(rng.choice([1, 2, 9, 10, 42, 291, 1281, 100000]))
    if r < 0.93:
        return "0" + str(rng.randint(0, 99))
    return "".join(rng.choice("\u0661\u0662\u0969\uff14" "7") for _ in range(rng.randint(1, 3)))   # other decimal digits


def gen_rt(rng, tier):
    nfr = rng.choice([0, 1, 1, 2, 2, 3, 3, 4, 5, 8])
    frames = []
    for _ in range(nfr):
        p = rng.choice(PATHS) if rng.random() < 0.8 else (_rand_str(rng, 1, 12) or "p")
        fn = rng.choice(FUNCS) if rng.random() < 0.85 else (_rand_str(rng, 1, 8).strip() or "f")
        src = rng.choice(SRCS) if rng.random() < 0.85 else _rand_str(rng, 1, 14).strip()
        frames.append({"path": p, "lineno": _lineno(rng), "func": fn, "src": src,
                       "mark": rng.choice(MARKS) if (src and rng.random() < 0.35) else None})
    typ = rng.choice(TYPES) if rng.random() < 0.9 else (_rand_str(rng, 1, 8).replace(" ", "").replace("\t", "") or "E")
    r0 = rng.random()
    msg = rng.choice(MSGS) if r0 < 0.65 else (kw_msg(rng) if r0 < 0.88 else _rand_str(rng, 0, 20))
    case = {"kind": "rt", "frames": frames, "type": typ, "msg": msg, "renderer": "std", "bad": None,
            "bytes": rng.random() < 0.2}
    r = rng.random()
    if r < 0.08 and frames:
        # recursion: one entry repeated 2..7 times (folded by the interpreter from the 4th on)
        i = rng.randrange(len(frames))
        k = rng.randint(2, 7)
        frames[i:i + 1] = [dict(frames[i]) for _ in range(k)]
        if rng.random() < 0.5:
            for f in frames:
                f["mark"] = None
        else:
            # folded entries AND marker lines, as Python >= 3.11 prints a recursion: rendered by real_render
            # (Spec.real_text spelled in Python; Coq compares the text with the Spec's rendering)
            case["renderer"] = "real"
    elif r < 0.13 and frames:
        # near-repeats: a run of 4-6 entries that differ in exactly one of file / line / function (the
        # interpreter folds only entries equal in all three), possibly mixed with true repeats
        i = rng.randrange(len(frames))
        base = dict(frames[i], mark=None)
        which = rng.choice(["path", "lineno", "func"])
        run = []
        for k in range(rng.randint(4, 6)):
            f = dict(base)
            if rng.random() < 0.6:
                f[which] = {"path": base["path"] + "x", "lineno": base["lineno"] + "1", "func": base["func"] + "_"}[which] \
                    if k % 2 else base[which]
            run.append(f)
        frames[i:i + 1] = run
        for f in frames:
            f["mark"] = None
    elif r < 0.27:
        _break_one(rng, case)
    return case


def _break_one(rng, case):
    """Violate exactly one well-formedness condition (the case then only ties model and code)."""
    frames = case["frames"]
    kinds = [b for b in BAD if frames or not b.startswith(("path", "func", "lineno", "src", "mark"))]
    bad = rng.choice(kinds)
    case["bad"] = bad
    case["renderer"] = "plain"
    f = rng.choice(frames) if frames else None
    brk = rng.choice(BREAKS)
    if bad == "path_break":
        f["path"] = "a" + brk + "b.py"
    elif bad == "path_empty":
        f["path"] = ""
    elif bad == "func_trail":
        f["func"] = "f" + rng.choice([" ", "\t", "\u00a0"])
    elif bad == "func_quote":
        f["func"] = rng.choice(['x", line 3, in y', 'g"', '", line 1, in '])
    elif bad == "func_empty":
        f["func"] = ""
    elif bad == "func_break":
        f["func"] = "f" + brk + "g"
    elif bad == "lineno_bad":
        f["lineno"] = rng.choice(["12a", "-3", "1 2", "x", "1.5"])
    elif bad == "lineno_empty":
        f["lineno"] = ""
    elif bad == "src_lead":
        f["src"] = rng.choice([" ", "\t", "\u00a0"]) + "x = 1"
    elif bad == "src_trail":
        f["src"] = "x = 1" + rng.choice([" ", "\t"])
    elif bad == "src_frame":
        f["src"] = rng.choice(['File "q.py", line 3, in z', 'File "a", line 1, in b c'])
    elif bad == "src_break":
        f["src"] = "x" + brk + "y"
    elif bad == "type_space":
        case["type"] = rng.choice(["My Error", "E ", "a\u00a0b"])
    elif bad == "type_lead":
        case["type"] = rng.choice([" E", "\tE", "  File \"a\", line 1, in b"])
    elif bad == "type_colon":
        case["type"] = "a: b"
    elif bad == "type_empty":
        case["type"] = ""
    elif bad == "type_caret":
        case["type"] = rng.choice(["^", "~~^^", "~"])
        case["msg"] = rng.choice(["", case["msg"]])
    elif bad == "type_frame":
        case["type"] = 'File "a", line 1, in b'
    elif bad == "msg_nl":
        case["msg"] = rng.choice(["a\n", "\n", "x\ny\n\n"])
    elif bad == "msg_cr":
        case["msg"] = "a\rb"
    elif bad == "msg_break":
        case["msg"] = "a" + brk + "b"
    elif bad == "msg_ignored":
        case["msg"] = rng.choice(["x\nException KeyError ignored", "y\nException ignored"])
    elif bad == "mark_bad":
        f["mark"] = rng.choice(["    ^^^ x", "  File \"m\", line 2, in k", "    ---"])
        if not f["src"]:
            f["src"] = "s()"


def plain_render(case):
    """Spec.marked_text spelled in Python; used for ill-formed T (the standard module strips/normalises)."""
    lines = ["Traceback (most recent call last):"]
    for f in case["frames"]:
        lines.append('  File "%s", line %s, in %s' % (f["path"], f["lineno"], f["func"]))
        if f["src"]:
            lines.append("    " + f["src"])
            if f.get("mark") is not None:
                lines.append(f["mark"])
    lines.append(case["type"] + ": " + case["msg"] if case["msg"] else case["type"])
    return "\n".join(lines)


def real_render(case):
    """Spec.real_text spelled in Python: identical consecutive entries (file, line, function) folded after the
    third, marker lines under the source lines of the entries that are shown."""
    lines = ["Traceback (most recent call last):"]
    last, count = None, 0

    def flush():
        if count > 3:
            n = count - 3
            lines.append("  [Previous line repeated %d more time%s]" % (n, "s" if n > 1 else ""))
    for f in case["frames"]:
        key = (f["path"], f["lineno"], f["func"])
        if key != last:
            flush()
            last, count = key, 0
        count += 1
        if count > 3:
            continue
        lines.append('  File "%s", line %s, in %s' % (f["path"], f["lineno"], f["func"]))
        if f["src"]:
            lines.append("    " + f["src"])
            if f.get("mark") is not None:
                lines.append(f["mark"])
    flush()
    lines.append(case["type"] + ": " + case["msg"] if case["msg"] else case["type"])
    return "\n".join(lines)


def std_render(case):
    """The standard traceback module's text for T (final newline removed), marker lines inserted."""
    import traceback
    entries = [traceback.FrameSummary(f["path"], f["lineno"], f["func"], line=f["src"]) for f in case["frames"]]
    parts = traceback.StackSummary.from_list(entries).format()
    if any(f.get("mark") is not None for f in case["frames"]):
        if len(parts) != len(case["frames"]):
            raise RuntimeError("marker lines requested for a folded traceback")
        parts = [p + (f["mark"] + "\n" if (f.get("mark") is not None and f["src"]) else "")
                 for p, f in zip(parts, case["frames"])]
    msg = case["msg"]

    class _E(Exception):
        def __str__(self):
            return msg
    _E.__module__ = "builtins"
    _E.__qualname__ = case["type"]
    last = traceback.format_exception_only(_E, _E())
    text = "Traceback (most recent call last):\n" + "".join(parts) + "".join(last)
    assert text.endswith("\n")
    return text[:-1]


RAW_SEEDS = [
    "", "\n", "Traceback (most recent call last):", "Traceback (most recent call last):\n",
    "Traceback (most recent call last):\nValueError", "no header\nValueError: x",
    '  File "x.py", line 3\n    x = (\n        ^\nSyntaxError: \'(\' was never closed',
    '  File "x.py", line 3\n    x = (\n^\nSyntaxError: bad',
    'File "x.py", line 3, in f\n  ^\nE: m',
    'Traceback (most recent call last):\n  File "a.py", line 1, in f',
    'Traceback (most recent call last):\n  File "a.py", line 1, in f\n    src()',
    'Traceback (most recent call last):\n  File "a.py", line 1, in f\n    src()\nE: m\nException KeyError ignored',
    '  \n\n Traceback (most recent call last):  \n  File "a.py", line 1, in f\n\nE',
    'Traceback (most recent call last):\r\n  File "a.py", line 1, in f\r\n    s\r\nE: m\r\n',
    'x\n^\n', '^\nx', 'a\n  ^ b\nc', 'Traceback (most recent call last):\n  File "a", line 1, in f\n ~^\n ~\nE',
    'Traceback (most recent call last):\n  File "a", line 1, in f\n  File "b", line 2, in g\n    s\n    ^\n    ^\nE: q',
    'Traceback (most recent call last):\n  File "a\nb", line 1, in f\nE',
    'Traceback (most recent call last):\n  File "a", line 1, in f\x0c\nE',
    'Exception x ignored', 'Traceback (most recent call last):\nException y ignored',
    '  File "x.py", line \u0663\u0664 tail\n  y\n ^\nSyntaxError: z',
    '  File "x.py", line 3, in <module>\n    1/0\n    ~^~\nZeroDivisionError: division by zero',
    'Traceback (most recent call last)\n  File "a.py", line 1, in f\n    s()\nE: m',
    'Traceback (most recent call last):x\n  File "a.py", line 1, in f\nE',
    'Traceback (most recent call last)::\nE: m', 'traceback (most recent call last):\nE',
    'Traceback (most recent call last): \nE\nExceptions ignored',
    'Traceback (most recent call last):\n  [Previous line repeated 2 more times]\nE: m',
    'Traceback (most recent call last):\n[Previous line repeated 1 more time]\n  File "a", line 1, in f\nE',
    '  [Previous line repeated 3 more times]\n  File "x.py", line 3\n    x = (\n        ^\nSyntaxError: bad',
    'Traceback (most recent call last):\n  File "a", line 1, in f\n  [Previous line repeated 2 more times]\n  [Previous line repeated 1 more time]\nE',
    'Traceback (most recent call last):\n  File "a", line 1, in f\n    s\n  [Previous line repeated 0 more times]\nE: m',
]


def gen_raw(rng, tier):
    r = rng.random()
    if r < 0.35:
        text = rng.choice(RAW_SEEDS)
    else:
        base = gen_rt(rng, tier)
        base["renderer"] = "plain"
        lines = plain_render(base).split("\n")
        for _ in range(rng.randint(1, 3)):
            op = rng.choice(["del", "dup", "swap", "trunc", "indent", "dedent", "ins", "crlf", "se", "tail", "lead", "chop", "header",
                             "tail"])
            if op == "del" and lines:
                del lines[rng.randrange(len(lines))]
            elif op == "dup" and lines:
                i = rng.randrange(len(lines))
                lines.insert(i, lines[i])
            elif op == "swap" and len(lines) > 1:
                i = rng.randrange(len(lines) - 1)
                lines[i], lines[i + 1] = lines[i + 1], lines[i]
            elif op == "trunc" and lines:
                lines = lines[:rng.randrange(len(lines) + 1)]
            elif op == "indent" and lines:
                i = rng.randrange(len(lines))
                lines[i] = rng.choice([" ", "  ", "\t", "\u00a0"]) + lines[i]
            elif op == "dedent" and lines:
                i = rng.randrange(len(lines))
                lines[i] = lines[i].lstrip()
            elif op == "ins":
                lines.insert(rng.randrange(len(lines) + 1),
                             rng.choice(["", "   ", "^", "  ^^", "~", "Exception x ignored", "    ^ ~", "  [Previous line repeated 2 more times]",
                                         '  File "i.py", line 4', 'File "j", line 5, in k', "During handling:"]))
            elif op == "crlf":
                lines = [l + "\r" for l in lines]
            elif op == "se":
                lines = lines[1:-1] + ["    ^", "SyntaxError: invalid syntax"]
            elif op == "tail":
                lines += rng.choice([["Exception KeyError ignored"], [""], ["", ""], ["Exception ignored", "Exception a ignored"],
                                     ["Exceptions ignored"], ["ExceptionGroup was ignored"], ["Exception ignored."], [" Exception x ignored"],
                                     ["Exception x ignored", "Exceptional ignored"]])
            elif op == "header" and lines:
                lines[0] = rng.choice(["Traceback (most recent call last)", "Traceback (most recent call last): ", "Traceback (most recent call last):x",
                                       "traceback (most recent call last):", " \tTraceback (most recent call last):\u00a0", "Traceback (most recent call last)::",
                                       "Traceback (most recent call first):", "xTraceback (most recent call last):"])
            elif op == "lead":
                lines = rng.choice([[""], ["  "], ["\x0c"]]) + lines
            elif op == "chop" and lines:
                i = rng.randrange(len(lines))
                lines[i] = lines[i][:rng.randrange(len(lines[i]) + 1)]
        text = "\n".join(lines)
    return {"kind": "raw", "text": text, "bytes": rng.random() < 0.2}


# ---- programs -------------------------------------------------------------------------------------
MODNAMES = ["ma", "mb", "mc", "exceptions", "__builtin__", "m\u00fc"]
DIRNAMES = ["d", "d", "my dir", "\u0434\u0438\u0440", "q\"t", "sp  x", "n\nl"]
KINDS = ["func", "func", "func", "lambda", "method", "static", "nested", "gen", "genexpr", "rec", "exec", "deco",
         "prop", "closure", "execsrc", "execsrc", "coro", "execreg", "execreg", "execlazy"]
REGNAMES = ["<reg%d>", "<ipython-input-%d-0a1b>", "<attrs generated init m.C%d>", "cell://%d", "doctest-like[%d]", "<string>%d"]
STMTS = ["return {nx}(n)", "x = {nx}(n); return x", "return ({nx}(\n        n))", "if n == 0:\n        return {nx}(n)   # c: d",
         "try:\n        return {nx}(n)\n    finally:\n        pass", "for _ in [0]:\n        return {nx}(n)",
         "return {nx}(n)   ", "return {nx}(n)  # \u00fcn\u00ef \u2713", "return   {nx}( n )", "r = [{nx}(n) for _ in [0]]; return r[0]",
         "with _Ctx():\n        return {nx}(n)"]
EXC_MSGS = [None, "", "Exception in callback <Handle cb()> ignored", "x\nan Exception was ignored", "see File \"a.py\", line 3, in f",
            "t: [Previous line repeated 2 more times]", "boom", "a: b", "l1\nl2", "\u00fcn\u00ef \u2713", "  spaced  ", "x\n", "m\n  File \"a\", line 1, in b", 42, ("a", "b")]


def _registered(rng, kind, i, text):
    """Module-level code that compiles `text` under a pseudo file name (no file, no loader) and registers the
    source in linecache.cache the way attrs/dataclasses/IPython/doctest do: a plain (size, None, lines, name)
    entry, or a one-element lazy entry."""
    name = rng.choice(REGNAMES) % i
    if kind == "execreg":
        reg = "linecache.cache[%r] = (len(_t%d), None, _t%d.splitlines(True), %r)" % (name, i, i, name)
    else:
        reg = "linecache.cache[%r] = ((lambda t=_t%d: t),)" % (name, i)
    return "_t%d = %r\n%s\nexec(compile(_t%d, %r, 'exec'), globals())" % (i, text, reg, i, name)


def gen_ei(rng, tier, mods=None, depths=(1, 1, 2, 3, 3, 4, 5, 6, 8, 12), probe=False):
    depth = rng.choice(depths)
    # sometimes: every callable exec'd under one shared pseudo file name, so that consecutive entries agree
    # in file and line and differ in the function name only
    shared_exec = rng.random() < 0.06
    if shared_exec:
        depth = max(depth, rng.choice([4, 5, 6]))
    fixed_mods = mods is not None
    deep = mods is None and not probe and rng.random() < 0.02
    if mods is None:
        mods = rng.sample(MODNAMES, rng.choice([1, 1, 2, 3]))
    src = {m: ["import sys", "import linecache", "class _SrcLoader:\n    def __init__(self, text):\n        self.text = text\n    def get_source(self, name):\n        return self.text",
               "class _Ctx:\n    def __enter__(self):\n        return self\n    def __exit__(self, *a):\n        return False"]
           for m in mods}
    for m in mods:
        for o in mods:
            if o != m:
                src[m].append("import %s" % o)
    where = [rng.choice(mods) for _ in range(depth + 1)]
    for i in range(depth):
        m = where[i]
        nx = ("c%d" % (i + 1)) if where[i + 1] == m else "%s.c%d" % (where[i + 1], i + 1)
        kind = "exec" if shared_exec else rng.choice(KINDS)
        if deep and i == 0:
            kind = "rec"
        stmt = rng.choice(STMTS).format(nx=nx)
        if kind == "func":
            if rng.random() < 0.15:
                code = "def c%d(n):\n\treturn %s(n)" % (i, nx)
            else:
                code = "def c%d(n):\n    %s" % (i, stmt)
        elif kind == "lambda":
            code = "c%d = lambda n: %s(n)" % (i, nx)
        elif kind == "method":
            code = "class K%d:\n    def meth(self, n):\n        return %s(n)\nc%d = K%d().meth" % (i, nx, i, i)
        elif kind == "static":
            code = ("class K%d:\n    @staticmethod\n    def smeth(n):\n        return %s(n)\n    @classmethod\n"
                    "    def cmeth(cls, n):\n        return cls.smeth(n)\nc%d = K%d.cmeth" % (i, nx, i, i))
        elif kind == "nested":
            code = ("class O%d:\n    class I%d:\n        def __call__(self, n):\n            return %s(n)\nc%d = O%d.I%d()"
                    % (i, i, nx, i, i, i))
        elif kind == "gen":
            code = "def g%d(n):\n    yield %s(n)\ndef c%d(n):\n    return next(g%d(n))" % (i, nx, i, i)
        elif kind == "genexpr":
            code = "def c%d(n):\n    return list(%s(n) for _ in [0])[0]" % (i, nx)
        elif kind == "rec":
            k = rng.choice([0, 1, 2, 2, 3, 3, 4, 5, 6])
            if deep and i == 0:
                k = rng.choice([997, 1000, 1003, 1100])       # call chains deeper than 1000 entries
            code = "def c%d(n, d=%d):\n    if d:\n        return c%d(n, d - 1)\n    return %s(n)" % (i, k, i, nx)
        elif kind == "exec":
            code = 'exec(compile("def c%d(n):\\n    return %s(n)\\n", "%s", "exec"), globals())' % (
                i, nx, "<gen>" if shared_exec else "<gen%d>" % i)
        elif kind == "execsrc":
            # code compiled from a string under a pseudo file name; its source exists only behind the
            # __loader__ of the globals it runs in (linecache finds it through the frame's module globals)
            body = "def c%d(n):\n    x = n  # only via the loader\n    return _m.%s(x)\n" % (i, nx)
            code = ("_g%d = {'__name__': 'virt%d', '_m': sys.modules[__name__], '__loader__': _SrcLoader(%r)}\n"
                    "exec(compile(%r, 'memory:/virt%d.py', 'exec'), _g%d)\nc%d = _g%d['c%d']" % (i, i, body, body, i, i, i, i, i))
        elif kind in ("execreg", "execlazy"):
            code = _registered(rng, kind, i, "def c%d(n):\n    y = n  # registered source\n    return %s(y)\n" % (i, nx))
        elif kind == "coro":
            code = ("async def a%d(n):\n    return %s(n)\ndef c%d(n):\n    co = a%d(n)\n    try:\n        co.send(None)\n"
                    "    except StopIteration as stop:\n        return stop.value\n    finally:\n        co.close()" % (i, nx, i, i))
        elif kind == "deco":
            code = ("def deco%d(f):\n    def wrapper(*a):\n        return f(*a)\n    return wrapper\n@deco%d\ndef c%d(n):\n    %s"
                    % (i, i, i, stmt))
        elif kind == "prop":
            code = ("class P%d:\n    @property\n    def v(self):\n        return %s(0)\ndef c%d(n):\n    return P%d().v"
                    % (i, nx, i, i))
        else:
            code = "def c%d(n):\n    def inner():\n        return %s(n)\n    return inner()" % (i, nx)
        src[m].append(code)
    # the raiser
    m = where[depth]
    msg = rng.choice(EXC_MSGS)
    if msg is None:
        args = None
    elif isinstance(msg, tuple):
        args = ", ".join(repr(a) for a in msg)
    else:
        args = repr(msg)
    how = rng.choice(["builtin", "builtin", "user", "nestedcls", "local", "fakemod", "customstr", "div", "index", "key",
                      "oserror", "assert", "othermod", "bare", "builtin", "user", "nameerr", "attrerr", "importerr", "badstr", "baseexc", "atimport"])
    expect = None
    if probe:
        how = "probe"
    body = None
    pre = ""
    if how == "builtin":
        t = rng.choice(["ValueError", "KeyError", "RuntimeError", "TypeError", "LookupError", "UnicodeError", "Exception"])
        body = "raise %s" % t if args is None else "raise %s(%s)" % (t, args)
        expect = t
    elif how == "bare":
        t = rng.choice(["ValueError", "RuntimeError"])
        body = rng.choice(["raise %s", "raise %s()", "raise %s('')"]) % t
        expect = t
    elif how == "user":
        pre = "class Err%d(Exception):\n    pass\n" % depth
        body = "raise Err%d(%s)" % (depth, args or "")
        expect = "Err%d" % depth
    elif how == "nestedcls":
        pre = "class Outer%d:\n    class Mid:\n        class Err(ValueError):\n            pass\n" % depth
        body = "raise Outer%d.Mid.Err(%s)" % (depth, args or "")
        expect = "Err"
    elif how == "local":
        body = "class L(Exception):\n        pass\n    raise L(%s)" % (args or "")
        expect = "L"
    elif how == "fakemod":
        fm = rng.choice(["builtins", "__main__", "exceptions", "__builtin__", "some.pkg", "x", None, 5, ""])
        pre = "class Fake%d(Exception):\n    __module__ = %r\n" % (depth, fm)
        body = "raise Fake%d(%s)" % (depth, args or "")
        expect = "Fake%d" % depth
    elif how == "customstr":
        s = rng.choice(["", "custom", "c: d\ne", "\u2713"])
        pre = "class CS%d(Exception):\n    def __str__(self):\n        return %r\n" % (depth, s)
        body = "raise CS%d(%s)" % (depth, args or "")
        expect = "CS%d" % depth
    elif how == "div":
        body = "return 1 // n"
        expect = "ZeroDivisionError"
    elif how == "index":
        body = "return [][n + 1]"
        expect = "IndexError"
    elif how == "key":
        body = "return {}['k\\n']"
        expect = "KeyError"
    elif how == "oserror":
        body = "raise OSError(2, 'No such file', 'x y')"
        expect = "FileNotFoundError"
    elif how == "assert":
        body = "assert n, (%s)" % (args or "'m'") if rng.random() < 0.7 else "assert n"
        expect = "AssertionError"
    elif how == "atimport" and "mz" not in src:
        # the exception is raised while a further module is being imported (module-level code, <module> entries,
        # the import machinery's own frames removed by the interpreter)
        src["mz"] = ["import sys", "def boom(n):\n    raise RuntimeError(%s)" % (args or "'at import'"), "X = [boom(i) for i in [1]]"]
        mods = list(mods) + ["mz"]
        body = "import mz"
        expect = "RuntimeError"
    elif how == "atimport":
        body = "raise ValueError('mz taken')"
        expect = "ValueError"
    elif how == "baseexc":
        t = rng.choice(["KeyboardInterrupt", "SystemExit", "GeneratorExit", "BaseException"])
        body = "raise %s" % t if args is None else "raise %s(%s)" % (t, args)
        expect = t
    elif how == "probe":
        # no exception: the innermost callable asks for the current call stack
        body = rng.choice(["return PROBE()", "x = PROBE(); return x", "return (PROBE(\n    ))"])
        expect = None
    elif how == "nameerr":
        # near miss (the interpreter adds "Did you mean") or a plain unknown name
        body = rng.choice(["value_total = n\n    return value_totl", "return undefined_name_xyz", "return sy.path"])
        expect = "NameError"
    elif how == "attrerr":
        pre = "class Obj%d:\n    def __init__(self):\n        self.blech = 1\n" % depth
        body = rng.choice(["return Obj%d().bluch" % depth, "return Obj%d().zzzzzzzz" % depth, "return None.nothing"])
        expect = "AttributeError"
    elif how == "importerr":
        body = rng.choice(["from collections import OrderedDictt", "import no_such_module_xyz", "from sys import pth"])
        expect = "ModuleNotFoundError" if "no_such" in body else "ImportError"
    elif how == "badstr":
        pre = "class BadStr%d(Exception):\n    def __str__(self):\n        raise RuntimeError('no str')\n" % depth
        body = "raise BadStr%d(%s)" % (depth, args or "")
        expect = "BadStr%d" % depth
    elif how == "othermod":
        o = rng.choice(mods)
        src[o].append("class Other%d(Exception):\n    class In(KeyError):\n        pass" % depth)
        q = rng.choice(["Other%d", "Other%d.In"]) % depth
        ref = q if o == m else "%s.%s" % (o, q)
        body = "raise %s(%s)" % (ref, args or "")
        expect = q.split(".")[-1]
    last = "%sdef c%d(n):\n    %s\n" % (pre, depth, body)
    if how != "probe" and rng.random() < 0.12:
        # the raising code itself is compiled under a pseudo file name whose source is registered in linecache
        last = _registered(rng, rng.choice(["execreg", "execlazy"]), depth, last)
    src[m].append(last.rstrip("\n"))
    # where the modules live: plain files, or a zip archive on sys.path (source reachable only through the
    # zipimporter of the module globals); sessions rewrite files and stay on disk
    host = "file" if fixed_mods else rng.choice(["file", "file", "zip"])
    return {"kind": "ei", "dir": rng.choice(DIRNAMES), "modules": [[mm, "\n".join(src[mm]) + "\n"] for mm in mods],
            "entry": [where[0], "c0"], "expect": expect, "full": rng.random() < 0.3, "host": host}


def gen_stack(rng, tier):
    """A call stack (no exception): TracebackInfo.from_frame / Callpoint.from_frame against
    traceback.extract_stack / format_stack for the same frame."""
    prog = gen_ei(rng, tier, probe=True)
    prog["kind"] = "stack"
    return prog


def gen_full(rng, tier):
    """The interpreter's real text for a live exception (position-marker lines, folding, suggestions and all)
    given to ParsedException.from_string: the first half of the property on real output."""
    prog = gen_ei(rng, tier)
    prog["kind"] = "full"
    prog["keep_nl"] = rng.random() < 0.5
    return prog


def gen_lim(rng, tier):
    """The limit parameter of from_traceback / print_exception against the traceback module's."""
    prog = gen_ei(rng, tier, depths=(2, 3, 4, 6))
    prog["kind"] = "lim"
    prog["limit"] = rng.choice([1, 1, 2, 3, 5, 50, 0, -1, -2])
    prog["via"] = rng.choice(["arg", "arg", "sys"])          # explicit argument, or sys.tracebacklimit
    return prog


def gen_sess(rng, tier):
    """Several exceptions in one process through module files that are rewritten (and usually reloaded)
    in between: the source text linecache serves changes over time.  Per step the implementation is
    observed FIRST (so nothing else refreshes linecache for it), then the interpreter's view is taken
    at that same moment."""
    mods = rng.sample(MODNAMES, rng.choice([1, 1, 2]))
    steps = []
    cur = None
    for k in range(rng.choice([2, 2, 3, 4])):
        mode = "load" if k == 0 else rng.choice(["reload", "reload", "reload", "reload", "noreload", "same", "delete"])
        step = {"mode": mode, "full": rng.random() < 0.25, "first": rng.choice(["fmt", "fmt", "dict"]), "late": None, "after": None}
        if mode in ("load", "reload", "noreload"):
            prog = gen_ei(rng, tier, mods=mods, depths=(1, 2, 2, 3, 4, 6))
            step["modules"] = prog["modules"]
            if mode != "noreload":
                cur = prog
        else:
            step["modules"] = []
        step["entry"], step["expect"] = cur["entry"], cur["expect"]
        # the file may also change between capturing the exception and first looking at the lines,
        # and again before the text is asked for a second time
        r = rng.random()
        if r < 0.25 and mode != "delete":
            step["late"] = rng.choice(["shift", "shift", "other"])
        if rng.random() < 0.3:
            step["after"] = rng.choice(["shift", "other", "delete"])
        step["pad"] = rng.randint(1, 4)
        if "other" in (step["late"], step["after"]):
            step["other"] = gen_ei(rng, tier, mods=mods, depths=(1, 2, 3))["modules"]
        steps.append(step)
    return {"kind": "sess", "dir": rng.choice(DIRNAMES), "mods": mods, "steps": steps}


RE_SEEDS = ['File "a.py", line 1, in f', 'File "a", line 5, in b.py", line 12, in <module>', 'File "a", line 1, in f\n',
            'File "a", line 1, in f\n\n', 'File "a", line 1, in f\ng', 'File "a\nb", line 1, in f', 'File "", line 1, in f',
            'File "a", line , in f', 'File "a", line 12', 'File "a", line 12, in ', ' File "a", line 1, in f', 'file "a", line 1, in f',
            'File "a", line \u0663\u0664, in f', 'File "a", line 1,, in f', 'File "a"", line 1, in f', 'File "a", line 1, in f, in g',
            'File "x", line 3", line 4, in z', '', ' ', '~^ ~', '~^x', '^\n', '^\n\n', '\n', '~\n^', '  ^^^  ', 'File "a", line 12x', '[Previous line repeated 3 more times]', '[Previous line repeated 1 more time]',
            '[Previous line repeated 12 more times]\n', '[Previous line repeated  more times]', '[Previous line repeated 2 more timess]',
            '[Previous line repeated \u0663 more time]', '  [Previous line repeated 4 more times]', '[Previous line repeated 4 more times] ',
            '[Previous line repeated 4 more times', '[Previous line repeated 5 more time]x', '[Previous line repeated 7 more times]\n\n',
            'File "\x0c", line 1, in \x0c', 'File "a", line 1, in \u2028', 'File "a", line 19, line 20, in g']


def gen_re(rng, tier):
    which = rng.choice([0, 0, 0, 1, 1, 2, 3, 3])
    r = rng.random()
    if r < 0.4:
        s = rng.choice(RE_SEEDS)
    else:
        base = gen_rt(rng, tier)
        base["renderer"] = "plain"
        lines = plain_render(base).split("\n")
        s = rng.choice(lines)
        if which == 3 and rng.random() < 0.6:
            s = "  [Previous line repeated %s more time%s]" % (rng.choice(["1", "2", "10", "007", "\u0664"]), rng.choice(["", "s"]))
        if rng.random() < 0.7:
            s = s.strip()
    for _ in range(rng.choice([0, 0, 1, 2])):
        op = rng.choice(["chop", "ins", "nl", "dup"])
        if op == "chop" and s:
            i = rng.randrange(len(s))
            s = s[:i] + s[i + 1:]
        elif op == "ins":
            i = rng.randrange(len(s) + 1)
            s = s[:i] + rng.choice(['"', ", line ", "7", ", in ", "\n", " ", "~", "^", "\u0665", 'File "']) + s[i:]
        elif op == "nl":
            s = s + "\n"
        elif op == "dup" and s:
            i = rng.randrange(len(s))
            s = s[:i] + s[i:] [:8] + s[i:]
    return {"kind": "re", "which": which, "s": s}


def generate(rng, tier, n):
    for i in range(n):
        r = rng.random()
        if r < 0.45:
            yield gen_rt(rng, tier)
        elif r < 0.59:
            yield gen_raw(rng, tier)
        elif r < 0.70:
            yield gen_re(rng, tier)
        elif r < 0.76:
            yield gen_sess(rng, tier)
        elif r < 0.80:
            yield gen_stack(rng, tier)
        elif r < 0.85:
            yield gen_full(rng, tier)
        elif r < 0.87:
            yield gen_lim(rng, tier)
        else:
            yield gen_ei(rng, tier)


# ----------------------------------------------------------------------------------------------
# running the implementation
# ----------------------------------------------------------------------------------------------
_COUNTER = [0]
_ROOT = [None]


def worker_init():
    sys.dont_write_bytecode = True
    sys.setrecursionlimit(6000)          # some generated call chains are deeper than 1000
    import tempfile
    _ROOT[0] = tempfile.mkdtemp(prefix="c16_")
    import atexit
    atexit.register(lambda: shutil.rmtree(_ROOT[0], ignore_errors=True))


def _parse_obs(text, as_bytes=False):
    from boltons.tbutils import ParsedException
    try:
        # from_string also accepts UTF-8 bytes (decode(encode(s)) = s is CPython's)
        pe = ParsedException.from_string(text.encode("utf-8") if as_bytes else text)
    except ValueError:
        return {"err": "ValueError"}, {"err": "ValueError"}
    except IndexError:
        return {"err": "IndexError"}, {"err": "IndexError"}
    frames = []
    for f in pe.frames:
        extra = set(f) - {"filepath", "lineno", "funcname", "source_line"}
        if extra:
            raise RuntimeError("unexpected frame keys %r" % (extra,))
        frames.append({"path": f["filepath"], "lineno": f["lineno"], "func": f.get("funcname"), "src": f["source_line"]})
    parsed = {"frames": frames, "type": pe.exc_type, "msg": pe.exc_msg}
    if pe.source_file != (pe.frames[-1]["filepath"] if pe.frames else None):
        raise RuntimeError("source_file is not the file of the last entry")
    d = pe.to_dict()
    if d["exc_type"] != pe.exc_type or d["exc_msg"] != pe.exc_msg or d["frames"] != pe.frames:
        raise RuntimeError("to_dict() differs from the attributes")
    try:
        printed = pe.to_string()
    except KeyError:
        printed = {"err": "KeyError"}
    return parsed, printed


def run_impl(case):
    kind = case["kind"]
    if kind == "rt":
        text = {"std": std_render, "plain": real_render, "real": real_render}[case["renderer"]](case)
        parsed, printed = _parse_obs(text, case.get("bytes", False))
        return {"text": text, "parsed": parsed, "printed": printed}
    if kind == "raw":
        parsed, printed = _parse_obs(case["text"], case.get("bytes", False))
        return {"parsed": parsed, "printed": printed}
    if kind == "re":
        from boltons import tbutils
        regex = (tbutils._frame_re, tbutils._se_frame_re, tbutils._underline_re, tbutils._repeat_re)[case["which"]]
        m = regex.match(case["s"])
        return {"groups": None if m is None else list(m.groups())}
    return _run_program(case)


def _write_modules(d, modules, host="file"):
    """Returns the sys.path entry under which the modules can be imported."""
    if host == "zip":
        import zipfile
        z = os.path.join(d, "bundle.zip")
        with zipfile.ZipFile(z, "w") as zf:
            for m, text in modules:
                zf.writestr(m + ".py", text)
        return z
    for m, text in modules:
        with open(os.path.join(d, m + ".py"), "w", encoding="utf-8") as f:
            f.write(text)
    return d


def _forget_path(entry):
    if entry in sys.path:
        sys.path.remove(entry)
    sys.path_importer_cache.pop(entry, None)
    try:
        import zipimport
        zipimport._zip_directory_cache.pop(entry, None)
    except Exception:
        pass


def _edit(d, how, step, mods):
    """An edit of the module files on disk that does not touch the loaded code."""
    if how is None:
        return
    if how == "delete":
        for m in mods:
            try:
                os.remove(os.path.join(d, m + ".py"))
            except FileNotFoundError:
                pass
    elif how == "other":
        _write_modules(d, step["other"])
    else:       # shift every line down
        for m in mods:
            path = os.path.join(d, m + ".py")
            if os.path.exists(path):
                with open(path, encoding="utf-8") as f:
                    text = f.read()
                with open(path, "w", encoding="utf-8") as f:
                    f.write("# pad\n" * step["pad"] + text)


try:
    from common import CaseTimeout as CaseTimeoutLike
except Exception:                       # pragma: no cover
    class CaseTimeoutLike(Exception):
        pass


def _raise_through(entry, expect):
    from boltons import tbutils
    cur = None
    try:
        entry(0)
    except BaseException as e:     # the exception under observation
        if isinstance(e, CaseTimeoutLike):
            raise
        exc = e
        # the constructors that take "the exception being handled" (no source line is read here)
        cur = (tbutils.ExceptionInfo.from_current(), tbutils.TracebackInfo.from_traceback())
    else:
        raise RuntimeError("generated program did not raise")
    if type(exc).__name__ != expect:
        raise RuntimeError("generated program raised %r, expected %s" % (exc, expect))
    if exc.__cause__ is not None or exc.__context__ is not None or getattr(exc, "__notes__", None):
        raise RuntimeError("generated program produced a chained exception")
    # from_current() / from_traceback() with defaults must be the explicit constructors on sys.exc_info()
    ref = tbutils.ExceptionInfo.from_exc_info(type(exc), exc, exc.__traceback__)

    def places(tbi):
        return [(c.module_path, c.lineno, c.func_name, c.module_name, c.lasti) for c in tbi.frames]
    if (cur[0].exc_type, cur[0].exc_msg, places(cur[0].tb_info)) != (ref.exc_type, ref.exc_msg, places(ref.tb_info)) \
            or places(cur[1]) != places(ref.tb_info) or len(cur[1]) != len(ref.tb_info.frames) \
            or [c.lineno for c in cur[1]] != [c.lineno for c in ref.tb_info.frames]:
        raise RuntimeError("ExceptionInfo.from_current()/TracebackInfo.from_traceback() differ from from_exc_info(*sys.exc_info())")
    return exc, exc.__traceback__.tb_next      # skip this harness frame


def _capture(exc, tb, step, d, mods):
    """tbutils' view FIRST (nothing else may refresh linecache for it), then the interpreter's view of the
    same exception at the same moment (no file changes in between)."""
    import traceback
    from boltons import tbutils
    et = type(exc)
    # ---- boltons' view ------------------------------------------------------------------
    ei = tbutils.ExceptionInfo.from_exc_info(et, exc, tb)       # lines are not read yet
    _edit(d, step.get("late"), step, mods)
    if step.get("first") == "dict":
        dd = ei.to_dict()
        fmt = ei.get_formatted()
    else:
        fmt = ei.get_formatted()
        dd = ei.to_dict()
    frames = [{"path": f["module_path"], "lineno": f["lineno"], "func": f["func_name"], "line": f["line"]}
              for f in dd["exc_tb"]["frames"]]
    obs = {"frames": frames, "type": dd["exc_type"], "msg": dd["exc_msg"], "fmt": fmt,
           "only": ei.get_formatted_exception_only()}
    if (ei.exc_type, ei.exc_msg) != (dd["exc_type"], dd["exc_msg"]):
        raise RuntimeError("to_dict() differs from the attributes")
    if step.get("full"):
        obs["tbi"] = tbutils.TracebackInfo.from_traceback(tb).get_formatted()
        obs["feo"] = "".join(tbutils.format_exception_only(et, exc))
        buf = io.StringIO()
        tbutils.print_exception(et, exc, tb, file=buf)
        obs["print"] = buf.getvalue()
        # the same through the defaults: file=None means sys.stderr; fix_print_exception installs it as the hook
        import contextlib
        buf2 = io.StringIO()
        with contextlib.redirect_stderr(buf2):
            tbutils.print_exception(et, exc, tb)
        old_hook = sys.excepthook
        try:
            tbutils.fix_print_exception()
            hook_ok = sys.excepthook is tbutils.print_exception
        finally:
            sys.excepthook = old_hook
        if buf2.getvalue() != obs["print"] or not hook_ok or tbutils.ParsedTB is not tbutils.ParsedException:
            raise RuntimeError("print_exception default file / fix_print_exception / ParsedTB alias inconsistent")
        obs["parsed"] = _parse_obs(obs["fmt"])[0]
        cei = tbutils.ContextualExceptionInfo.from_exc_info(et, exc, tb)
        obs["ctx"] = cei.get_formatted()
        # its to_dict(): the plain fields must be ExceptionInfo's; the additions (locals, context lines) are
        # outside the property and only required to be well-formed and serialisable
        cd = cei.to_dict()
        base = ("func_name", "lineno", "module_name", "module_path", "lasti", "line")
        if (cd["exc_type"], cd["exc_msg"]) != (dd["exc_type"], dd["exc_msg"]) or \
                [{k: f[k] for k in base} for f in cd["exc_tb"]["frames"]] != [{k: f[k] for k in base} for f in dd["exc_tb"]["frames"]]:
            raise RuntimeError("ContextualExceptionInfo.to_dict() differs from ExceptionInfo.to_dict() in the plain fields")
        json.dumps(cd)
        for f in cd["exc_tb"]["frames"]:
            if not isinstance(f["locals"], dict) or any(not isinstance(v, str) for v in f["locals"].values()) \
                    or any(set(x) != {"lineno", "line"} for x in f["pre_lines"] + f["post_lines"]):
                raise RuntimeError("ContextualCallpoint.to_dict(): malformed locals/context lines")
    # ---- the interpreter's view, now ---------------------------------------------------------
    summ = traceback.extract_tb(tb)
    live = [{"file": fs.filename, "lineno": fs.lineno, "name": fs.name, "raw": fs._original_line} for fs in summ]
    full = "".join(traceback.format_exception(et, exc, tb))
    # the exception alone, as the interpreter shows it for this traceback (suggestions included)
    shown = "".join(traceback.TracebackException(et, exc, tb).format_exception_only())
    nomark = ("Traceback (most recent call last):\n" +
              "".join(traceback.format_list([(fs.filename, fs.lineno, fs.name, fs._original_line) for fs in summ])) +
              shown)
    # the text without position markers must be the real text minus lines made of ~ ^ and blanks only
    fl, nl = full.split("\n"), nomark.split("\n")
    j = 0
    for line in fl:
        if j < len(nl) and line == nl[j]:
            j += 1
        elif not (line and set(line) <= set(" ~^")):
            raise RuntimeError("interpreter text is not the marker-free text plus marker lines:\n%s\n---\n%s" % (full, nomark))
    if j != len(nl):
        raise RuntimeError("marker-free text is not a subsequence of the interpreter's text")
    assert nomark.endswith("\n") and shown.endswith("\n")
    try:
        exc_str = str(exc)
    except Exception:
        exc_str = None
    obs["live"] = live
    obs["exc"] = {"module": et.__module__ if isinstance(et.__module__, str) else None, "qualname": et.__qualname__, "name": et.__name__, "str": exc_str,
                  "shown": shown[:-1]}
    obs["interp"] = nomark[:-1]
    assert full.endswith("\n")
    given = full if step.get("keep_nl") else full[:-1]       # with or without the interpreter's final newline
    obs["fulltext"] = given
    obs["parsed_full"] = _parse_obs(given)[0]
    if step.get("limit") is not None:
        k = step["limit"]
        kw = {}
        if step["via"] == "sys":
            sys.tracebacklimit = k
        else:
            kw["limit"] = k
        try:
            # tbutils first
            buf = io.StringIO()
            tbutils.print_exception(et, exc, tb, file=buf, **kw)
            lt = tbutils.TracebackInfo.from_traceback(tb, **kw)
            obs["lim_print"] = buf.getvalue()
            obs["lim_frames"] = [{"path": c["module_path"], "lineno": c["lineno"], "func": c["func_name"], "line": c["line"]}
                                 for c in lt.to_dict()["frames"]]
            lsumm = traceback.extract_tb(tb, **kw)
            obs["lim_live"] = [{"file": fs.filename, "lineno": fs.lineno, "name": fs.name, "raw": fs._original_line} for fs in lsumm]
            lfull = "".join(traceback.format_exception(et, exc, tb, **kw))
            lno = (("Traceback (most recent call last):\n" if lsumm else "") +
                   "".join(traceback.format_list([(fs.filename, fs.lineno, fs.name, fs._original_line) for fs in lsumm])) + shown)
            fl2, nl2, j2 = lfull.split("\n"), lno.split("\n"), 0
            for line in fl2:
                if j2 < len(nl2) and line == nl2[j2]:
                    j2 += 1
                elif not (line and set(line) <= set(" ~^")):
                    raise RuntimeError("limited interpreter text is not the marker-free text plus marker lines")
            if j2 != len(nl2):
                raise RuntimeError("limited marker-free text is not a subsequence of the interpreter's text")
            obs["lim_interp"] = lno
        finally:
            if step["via"] == "sys":
                del sys.tracebacklimit
    # ---- later: the file changes again; the ExceptionInfo object is asked once more ----------
    if "after" in step:
        _edit(d, step.get("after"), step, mods)
        obs["again"] = ei.get_formatted()
    return obs


def _run_stack(case, d):
    import importlib
    import linecache
    import traceback
    from boltons import tbutils
    names = [m for m, _ in case["modules"]]
    entry_path = _write_modules(d, case["modules"], case.get("host", "file"))
    for m in names:
        sys.modules.pop(m, None)
    sys.path.insert(0, entry_path)
    result = []

    def probe():
        f = sys._getframe(1)
        # the part of the stack that belongs to the generated program
        k, g = 0, f
        while g is not None and g.f_code is not call_entry.__code__:
            k, g = k + 1, g.f_back
        if g is None:
            raise RuntimeError("probe called outside call_entry")
        # tbutils first
        tbi = tbutils.TracebackInfo.from_frame(f, limit=k)
        fmt = tbi.get_formatted()
        frames = [{"path": c["module_path"], "lineno": c["lineno"], "func": c["func_name"], "line": c["line"]}
                  for c in tbi.to_dict()["frames"]]
        one = tbutils.Callpoint.from_frame(f).tb_frame_str()
        cur = tbutils.Callpoint.from_current(level=2).tb_frame_str()      # level 2 from inside probe = f
        lvl = tbutils.TracebackInfo.from_frame(level=2, limit=k)          # frame found by level instead of given
        if [(c.module_path, c.lineno, c.func_name) for c in lvl.frames] != [(c["path"], c["lineno"], c["func"]) for c in frames] \
                or str(tbi) != fmt or len(tbi) != len(frames) or tbutils.TracebackInfo.from_dict(tbi.to_dict()).frames != tbi.to_dict()["frames"]:
            raise RuntimeError("TracebackInfo.from_frame(level=...) / str() / len() / from_dict() inconsistent")
        # the interpreter's view
        summ = traceback.extract_stack(f, limit=k)
        live = [{"file": fs.filename, "lineno": fs.lineno, "name": fs.name, "raw": fs._original_line} for fs in summ]
        full = "".join(traceback.format_stack(f, limit=k))
        nomark = "".join(traceback.format_list([(fs.filename, fs.lineno, fs.name, fs._original_line) for fs in summ]))
        if full != nomark:
            raise RuntimeError("format_stack differs from format_list of extract_stack:\n%s\n---\n%s" % (full, nomark))
        result.append({"live": live, "interp": nomark, "frames": frames, "fmt": fmt, "one": one, "cur": cur})

    def call_entry(entry):
        return entry(0)
    try:
        importlib.invalidate_caches()
        mod = importlib.import_module(case["entry"][0])
        for m in names:
            if m in sys.modules:
                sys.modules[m].PROBE = probe
        call_entry(getattr(mod, case["entry"][1]))
        if len(result) != 1:
            raise RuntimeError("probe was called %d times" % len(result))
        result[0]["root"] = os.path.dirname(d)
        return result[0]
    finally:
        _forget_path(entry_path)
        for m in names:
            sys.modules.pop(m, None)
        linecache.clearcache()
        shutil.rmtree(os.path.dirname(d), ignore_errors=True)


def _run_program(case):
    import importlib
    import linecache
    if _ROOT[0] is None:
        worker_init()
    _COUNTER[0] += 1
    d = os.path.join(_ROOT[0], str(_COUNTER[0]), case["dir"])
    os.makedirs(d)
    if case["kind"] == "stack":
        return _run_stack(case, d)
    if case["kind"] in ("ei", "full", "lim"):
        steps = [{"mode": "load", "modules": case["modules"], "entry": case["entry"], "expect": case["expect"],
                  "full": case.get("full"), "first": "dict", "keep_nl": case.get("keep_nl"),
                  "limit": case.get("limit"), "via": case.get("via")}]
        names = [m for m, _ in case["modules"]]
    else:
        steps, names = case["steps"], case["mods"]
    for m in names:
        sys.modules.pop(m, None)
    host = case.get("host", "file")
    entry_path = os.path.join(d, "bundle.zip") if host == "zip" else d
    sys.path.insert(0, entry_path)
    try:
        out = []
        entry = None
        for step in steps:
            mode = step["mode"]
            if mode == "delete":
                _edit(d, "delete", step, names)
            else:
                _write_modules(d, step["modules"], host)
            if mode in ("load", "reload"):
                for m in names:
                    sys.modules.pop(m, None)
                importlib.invalidate_caches()
                mod = importlib.import_module(step["entry"][0])
                entry = getattr(mod, step["entry"][1])
            exc, tb = _raise_through(entry, step["expect"])
            out.append(_capture(exc, tb, step, d, names))
            del exc, tb
        root = os.path.dirname(d)
        if case["kind"] in ("ei", "full", "lim"):
            out[0]["root"] = root
            return out[0]
        return {"steps": out, "root": root}
    finally:
        _forget_path(entry_path)
        for m in names:
            sys.modules.pop(m, None)
        linecache.clearcache()
        shutil.rmtree(os.path.dirname(d), ignore_errors=True)


# ----------------------------------------------------------------------------------------------
# rendering for Coq (strings interned per case; multi-line texts passed line by line)
# ----------------------------------------------------------------------------------------------
class _Intern:
    def __init__(self):
        self.names = {}
        self.defs = []

    def s(self, text):
        if not isinstance(text, str):
            raise TypeError("not a str: %r" % (text,))
        if text not in self.names:
            name = "s%d" % len(self.names)
            self.names[text] = name
            self.defs.append("let %s : str := %s in" % (name, clist(cN(ord(c)) for c in text)))
        return self.names[text]

    def t(self, text):
        """a multi-line text as join NL [lines]"""
        lines = text.split("\n")
        if len(lines) == 1:
            return self.s(text)
        return "(jn %s)" % clist(self.s(l) for l in lines)

    def wrap(self, term):
        return "(" + " ".join(self.defs) + " " + term + ")"


_ERR = {"ValueError": "ValueError", "IndexError": "IndexError", "KeyError": "KeyError"}


def _tb_term(I, T):
    frames = clist("mkFrame %s %s %s %s" % (I.s(f["path"]), I.s(f["lineno"]),
                                            "None" if f["func"] is None else "(Some %s)" % I.s(f["func"]), I.s(f["src"]))
                   for f in T["frames"])
    return "(mkTb %s %s %s)" % (frames, I.s(T["type"]), I.t(T["msg"]))


def _res_tb(I, p):
    if "err" in p:
        return "(Raise %s)" % _ERR[p["err"]]
    return "(Ok %s)" % _tb_term(I, p)


def _res_str(I, p):
    if isinstance(p, dict):
        return "(Raise %s)" % _ERR[p["err"]]
    return "(Ok %s)" % I.t(p)


def to_coq(case, obs):
    I = _Intern()
    kind = case["kind"]
    if kind == "rt":
        marks = clist(("None" if f.get("mark") is None else "(Some %s)" % I.s(f["mark"])) for f in case["frames"])
        term = "CaseRT %s %s %s %s %s" % (_tb_term(I, case), marks, I.t(obs["text"]), _res_tb(I, obs["parsed"]),
                                           _res_str(I, obs["printed"]))
    elif kind == "raw":
        term = "CaseRaw %s %s %s" % (I.t(case["text"]), _res_tb(I, obs["parsed"]), _res_str(I, obs["printed"]))
    elif kind == "re":
        g = obs["groups"]
        term = "CaseRe %s %s %s" % (cN(case["which"]), I.t(case["s"]),
                                    "None" if g is None else "(Some %s)" % clist(I.t(x) for x in g))
    elif kind == "lim":
        def lv(ls):
            return clist("mkLive %s %s %s %s" % (I.s(l["file"]), cN(l["lineno"]), I.s(l["name"]), I.s(l["raw"])) for l in ls)
        e = obs["exc"]
        exc = "(mkExc %s %s %s %s %s)" % ("None" if e["module"] is None else "(Some %s)" % I.s(e["module"]), I.s(e["qualname"]), I.s(e["name"]),
                                          "None" if e["str"] is None else "(Some %s)" % I.t(e["str"]), I.t(e["shown"]))
        frames = clist("mkCpObs %s %s %s %s" % (I.s(f["path"]), cN(f["lineno"]), I.s(f["func"]), I.s(f["line"])) for f in obs["lim_frames"])
        k = case["limit"]
        term = "CaseLim %s %s (%d)%%Z %s %s %s %s %s" % (lv(obs["live"]), exc, k, cbool(case["via"] == "sys"), lv(obs["lim_live"]),
                                                        I.t(obs["lim_interp"]), frames, I.t(obs["lim_print"]))
    elif kind == "full":
        live = clist("mkLive %s %s %s %s" % (I.s(l["file"]), cN(l["lineno"]), I.s(l["name"]), I.s(l["raw"])) for l in obs["live"])
        e = obs["exc"]
        exc = "(mkExc %s %s %s %s %s)" % ("None" if e["module"] is None else "(Some %s)" % I.s(e["module"]), I.s(e["qualname"]), I.s(e["name"]),
                                          "None" if e["str"] is None else "(Some %s)" % I.t(e["str"]), I.t(e["shown"]))
        term = "CaseFull %s %s %s %s" % (live, exc, I.t(obs["fulltext"]), _res_tb(I, obs["parsed_full"]))
    elif kind == "stack":
        live = clist("mkLive %s %s %s %s" % (I.s(l["file"]), cN(l["lineno"]), I.s(l["name"]), I.s(l["raw"])) for l in obs["live"])
        frames = clist("mkCpObs %s %s %s %s" % (I.s(f["path"]), cN(f["lineno"]), I.s(f["func"]), I.s(f["line"])) for f in obs["frames"])
        term = "CaseStack %s %s %s %s %s %s" % (live, I.t(obs["interp"]), frames, I.t(obs["fmt"]), I.t(obs["one"]), I.t(obs["cur"]))
    elif kind == "sess":
        term = "CaseSess %s" % clist("(%s, %s)" % (_ei_args(I, o, tuple_=True),
                                                   "None" if "again" not in o else "(Some %s)" % I.t(o["again"]))
                                     for o in obs["steps"])
    else:
        term = "CaseEI %s" % _ei_args(I, obs)
    return I.wrap(term)


def _ei_args(I, obs, tuple_=False):
    if True:
        live = clist("mkLive %s %s %s %s" % (I.s(l["file"]), cN(l["lineno"]), I.s(l["name"]), I.s(l["raw"])) for l in obs["live"])
        e = obs["exc"]
        exc = "(mkExc %s %s %s %s %s)" % ("None" if e["module"] is None else "(Some %s)" % I.s(e["module"]), I.s(e["qualname"]), I.s(e["name"]),
                                          "None" if e["str"] is None else "(Some %s)" % I.t(e["str"]), I.t(e["shown"]))
        frames = clist("mkCpObs %s %s %s %s" % (I.s(f["path"]), cN(f["lineno"]), I.s(f["func"]), I.s(f["line"])) for f in obs["frames"])
        if "tbi" in obs:
            more = "(Some (%s, %s, %s, %s, %s))" % (I.t(obs["tbi"]), I.t(obs["feo"]), I.t(obs["print"]), _res_tb(I, obs["parsed"]),
                                                     I.t(obs["ctx"]))
        else:
            more = "None"
        o = "(mkEiObs %s %s %s %s %s %s)" % (frames, I.s(obs["type"]), I.t(obs["msg"]), I.t(obs["fmt"]), I.t(obs["only"]), more)
        return ("(%s, %s, %s, %s)" if tuple_ else "%s %s %s %s") % (live, exc, I.t(obs["interp"]), o)


# ----------------------------------------------------------------------------------------------
def corrupt(case, obs):
    """A wrong observation for the canary."""
    import copy
    bad = copy.deepcopy(obs)
    kind = case["kind"]
    if kind == "re":
        bad["groups"] = [] if obs["groups"] is None else None
        return bad
    if kind in ("rt", "raw"):
        if isinstance(bad["parsed"], dict) and "err" not in bad["parsed"]:
            bad["parsed"]["type"] = bad["parsed"]["type"] + "x"
            return bad
        return None
    if kind == "stack":
        bad["fmt"] = bad["fmt"] + "x"
        return bad
    if kind == "lim":
        bad["lim_print"] = bad["lim_print"] + "x"
        return bad
    if kind == "full":
        if "err" in bad["parsed_full"]:
            return None
        bad["parsed_full"]["type"] += "x"
        return bad
    if kind == "sess":
        o = bad["steps"][-1]
        if o["live"]:
            o["frames"][-1]["line"] = o["frames"][-1]["line"] + " x"
        else:
            o["type"] += "x"
        return bad
    if obs["frames"]:
        bad["frames"][0]["lineno"] += 1
    else:
        bad["type"] += "x"
    return bad


def nontrivial(case, obs):
    if case["kind"] == "rt":
        fr = case["frames"]
        return case["bad"] is None and len(fr) >= 2 and any(not f["src"] for f in fr)
    if case["kind"] == "ei":
        return len(obs["frames"]) >= 3
    if case["kind"] == "lim":
        return 0 < case["limit"] < len(obs["live"])
    if case["kind"] == "full":
        return len(obs["live"]) >= 3 and obs["fulltext"].rstrip("\n") != obs["interp"]      # has marker lines
    if case["kind"] == "stack":
        return len(obs["frames"]) >= 3
    if case["kind"] == "sess":
        # the text linecache serves for some (file, line) changed between two steps
        seen, changed = {}, False
        for o in obs["steps"]:
            for l in o["live"]:
                k = (l["file"], l["lineno"])
                if k in seen and seen[k] != l["raw"]:
                    changed = True
                seen[k] = l["raw"]
        return changed
    return False


def distribution(d, case, obs):
    def inc(group, key):
        d.setdefault(group, {})
        d[group][key] = d[group].get(key, 0) + 1
    kind = case["kind"]
    inc("kind", kind)
    if kind == "rt":
        inc("rt_frames", str(len(case["frames"])))
        inc("rt_bad", str(case["bad"]))
        inc("rt_msg_lines", str(min(3, case["msg"].count("\n") + 1 if case["msg"] else 0)))
        if any(f.get("mark") is not None for f in case["frames"]):
            inc("rt_marked", "yes")
        if any(not f["src"] for f in case["frames"][-1:]):
            inc("rt_last_frame_without_source", "yes")
        inc("rt_outcome", "parsed" if "err" not in obs["parsed"] else obs["parsed"]["err"])
        inc("rt_input_type", "bytes" if case.get("bytes") else "str")
    elif kind == "re":
        inc("re_outcome", "%s:%s" % (("frame", "se_frame", "underline", "repeat")[case["which"]], "match" if obs["groups"] is not None else "no"))
    elif kind == "lim":
        inc("lim", "%s:%s" % (case["via"], case["limit"]))
    elif kind == "full":
        inc("full_marker_lines", str(min(10, obs["fulltext"].count("\n") - obs["interp"].count("\n"))))
        inc("full_outcome", "parsed" if "err" not in obs["parsed_full"] else obs["parsed_full"]["err"])
    elif kind == "stack":
        inc("stack_frames", str(min(20, len(obs["frames"]))))
    elif kind == "sess":
        inc("sess_steps", str(len(obs["steps"])))
        for st, o in zip(case["steps"], obs["steps"]):
            inc("sess_mode", st["mode"])
            inc("sess_late_edit", str(st.get("late")))
            inc("sess_after_edit", str(st.get("after")))
            if "again" in o and o["again"] != o["interp"]:
                inc("sess_again_differs_from_current_file", "n/a (cached lines kept)")
        if nontrivial(case, obs):
            inc("sess_source_changed_under_same_location", "yes")
    elif kind == "raw":
        inc("raw_outcome", "parsed" if "err" not in obs["parsed"] else obs["parsed"]["err"])
        if isinstance(obs["printed"], dict):
            inc("raw_print", obs["printed"]["err"])
    else:
        inc("ei_frames", str(min(20, len(obs["frames"]))))
        inc("ei_host", case.get("host", "file"))
        if len(obs["live"]) > 1000:
            inc("ei_deeper_than_1000", "yes")
        inc("ei_registered_pseudo_file_source", str(sum(1 for l in obs["live"] if l["raw"].strip() and
                                                        (l["file"].startswith("<") or "://" in l["file"] or "[" in l["file"]))))
        inc("ei_loader_only_source", str(sum(1 for l in obs["live"] if l["raw"].strip() and not os.path.exists(l["file"]))))
        inc("ei_type", obs["type"] if len(obs["type"]) < 30 else "long")
        inc("ei_nosrc", str(sum(1 for l in obs["live"] if not l["raw"].strip())))
        es = obs["exc"]["str"]
        inc("ei_msg_lines", "str-raises" if es is None else str(es.count("\n") + 1 if es else 0))
        if "Did you mean" in obs["exc"]["shown"]:
            inc("ei_suggestion", "yes")
        inc("ei_full", str(bool(case.get("full"))))


def sample(case, obs):
    if case["kind"] == "re":
        return {"case": case, "groups": obs["groups"]}
    if case["kind"] == "lim":
        return {"kind": "lim", "limit": case["limit"], "via": case["via"], "print": obs["lim_print"].replace(obs["root"], "<tmp>")}
    if case["kind"] == "full":
        return {"kind": "full", "text": obs["fulltext"].replace(obs["root"], "<tmp>"), "parsed": obs["parsed_full"]}
    if case["kind"] == "stack":
        return {"kind": "stack", "fmt": obs["fmt"].replace(obs["root"], "<tmp>")}
    if case["kind"] == "sess":
        return {"kind": "sess", "modes": [st["mode"] for st in case["steps"]],
                "fmt": [o["fmt"].replace(obs["root"], "<tmp>") for o in obs["steps"]]}
    if case["kind"] == "ei":
        return {"kind": "ei", "fmt": obs["fmt"].replace(obs["root"], "<tmp>"), "interp": obs["interp"].replace(obs["root"], "<tmp>")}
    return {"case": case, "obs": obs}


def shrink(case):
    kind = case["kind"]
    if kind == "rt":
        fr = case["frames"]
        for i in range(len(fr)):
            c = dict(case)
            c["frames"] = fr[:i] + fr[i + 1:]
            yield c
        for i, f in enumerate(fr):
            for key, val in (("mark", None), ("src", ""), ("path", "p"), ("func", "f"), ("lineno", "1")):
                if f.get(key) != val:
                    c = dict(case)
                    nf = dict(f)
                    nf[key] = val
                    if key == "src":
                        nf["mark"] = None
                    c["frames"] = fr[:i] + [nf] + fr[i + 1:]
                    yield c
        for key, val in (("msg", ""), ("msg", "m"), ("type", "E")):
            if case[key] != val:
                c = dict(case)
                c[key] = val
                yield c
    elif kind == "sess":
        st = case["steps"]
        if len(st) > 1:
            yield dict(case, steps=st[:-1])
        for i, x in enumerate(st):
            for key in ("late", "after"):
                if x.get(key):
                    y = dict(x)
                    y[key] = None
                    yield dict(case, steps=st[:i] + [y] + st[i + 1:])
    elif kind == "re":
        t = case["s"]
        for i in range(len(t)):
            yield {"kind": "re", "which": case["which"], "s": t[:i] + t[i + 1:]}
    elif kind == "raw":
        lines = case["text"].split("\n")
        for i in range(len(lines)):
            yield {"kind": "raw", "text": "\n".join(lines[:i] + lines[i + 1:]), "bytes": case.get("bytes", False)}
