"""C07 URL.navigate = RFC 3986 section 5.2 (normalised): plug-in.

Python only moves data: it builds (base text, reference texts), runs the real
URL.navigate / normalize / to_text, and writes texts as lists of code points.
Coq (Check/C07_Check.v) decides agree / holds / known.
"""
import itertools
from common import clist, cN, cbool

ID = "C07"
IMPORTS = ("From Boltons Require Import Lib.Prelude Lib.C07_Str Spec.C07_Spec Gen.C07_Gen "
           "Model.C07_Model Check.C07_Check.\nOpen Scope N_scope.")
CASE_TYPE = "c07_case2"
VERDICT = "c07_verdict"
EXPLAIN = "c07_explain"
CASES_PER_FILE = 120
CASE_FILE_BYTES = 140000
TIERS = {"quick": {"n": 1800}, "thorough": {"n": 15000, "exhaustive": True}}
RULE = ("(base, ref1, ref2): absolute base URL with authority (optional userinfo/port/query/fragment; 5 % file:///-style with an empty authority and a non-empty path; path of 0-6 "
        "segments incl. '.', '..', '' and trailing slash) x references that are path-relative / path-absolute "
        "(0-7 segments over {., .., '', a, b, c;x, d:e, ..., .a, b., x=1, @, e-acute}; 1 in 12 is a run of '..' that reaches the root followed by an empty/dot tail), query-only, fragment-only, "
        "empty, or absolute URLs; ref2 is applied to the result (chaining); each reference is passed as str, as URL(text), "
        "as a from_parts object, normalize()d, as a navigate() result or with list path_parts (the Spec resolves what the "
        "object prints); 12 % of the bases carry percent escapes of every depth, 6 % of the cases a percent reference object; 15 % of the bases are rebuilt with URL.from_parts(path_parts without the leading '');  thorough adds every reference path of <= 4 segments over {., .., '', a, b} x 7 base shapes and of 5 segments over {., .., '', a} x 3 base shapes. "
        "non-trivial = ref1 or ref2 has a '.', '..' or empty path segment, or is query-/fragment-only; "
        "distinct = distinct (base, ref1, ref2) hash")
ASSUMPTIONS = ["'%' only as escapes of ASCII bytes in path/query/fragment; no ';' '+' in queries, no IPv6/IDNA hosts (quoting/IDNA belong to C06)",
               "about 15 % of bases and absolute references have a mixed-case scheme/host; the Spec compares modulo RFC 6.2.2.1 case folding of scheme and host (ASCII)",
               "ports are neither 0 nor the scheme's default in most cases (the model follows to_text when they are)"]
TRUSTED = ["Model/C07_Model.v is hand-written; tied to boltons.urlutils.URL by the correspondence run",
           "Spec/C07_Spec.v transcribes RFC 3986 5.2.2-5.2.4, 5.3 and Appendix B; validated in Coq against all "
           "examples of RFC 3986 5.4.1/5.4.2 (Proofs/C07_RfcExamples.v)",
           "harness/c07.py serialiser; harness/translators/c07_tables.py, c07_src.py, c07_src2.py and the shared py2coq.py",
           "Python re (the regular expression of _URL_RE is compared with the modelled one on every run)"]

SEGS = ['.', '..', '', 'a', 'b', 'c;x', 'd:e', '...', '.a', 'b.', 'x=1', '@', 'é', '..', '.', 'a', '']
SCHEMES = ['http', 'https', 'ftp', 'ws', 'foo', 'git+ssh', 'http', 'http']
HOSTS = ['a', 'h.x', 'example.com', '10.0.0.1', 'a-b.c0']
USERINFO = ['', '', '', 'u@', 'u:p@', "us.er:p!w@"]
PORTS = ['', '', '', ':8080', ':81', ':65535', ':80', ':0', ':0443', ':']
AS_MODES = [0, 0, 0, 1, 1, 2, 3, 4, 5]
# components whose DECODED form still looks percent-encoded (double encoding), escapes of delimiters, of plain
# characters, of dots, and things that only look like escapes
PCT_SEGS = ['x%2Fy', 'q%3Fr', '%5Bz%5D', '100%2525', 'a%2Fb', '%41', '%zz', 'x%', '%252e%252e', '%2e%2e', '%2E', 'q%3Fr', 'h%23i', '%25', '%5Bz%5D',
            '%2525', '%25252F']
PCT_QUERIES = ['to=http%253A%252F%252Fb', 'k=%26', 'k%3Dx=1', 'a%2525=b%25', 'k=%2525&k=%25', 'p=%2B&s=%3B', 'z%25']
PCT_FRAGS = ['f%2523', '%23', 'x%25y', '%2541', 's%252F']
QUERIES = ['y', 'k=v', 'k=v&z', 'k=1&k=2', 'a/b?c=d', 'q=@:x', 'x&y&x', 'b=1&a=2&b=3']
FRAGS = ['s', 'sec-2', 'a/b?c', 'x:y', 'f=1&g']


def _load_translator(name):
    import importlib.util
    import os
    import sys
    d = os.path.join(os.path.dirname(os.path.abspath(__file__)), "translators")
    if d not in sys.path:
        sys.path.insert(0, d)                 # c07_src imports the shared py2coq
    spec = importlib.util.spec_from_file_location(name, os.path.join(d, name + ".py"))
    m = importlib.util.module_from_spec(spec)
    spec.loader.exec_module(m)
    return m


def translators(repo):
    """Gen/C07_Gen.v: tables + regular expression; Gen/C07_Src.v: resolve_path_parts as Gallina;
    Gen/C07_Src2.v: URL.normalize and URL.navigate as Gallina (all from the current source, fail closed)."""
    out = {"C07_Gen": _load_translator("c07_tables").tables(repo)}
    out.update(_load_translator("c07_src").generate(repo))
    out.update(_load_translator("c07_src2").generate(repo))      # URL.normalize, URL.navigate
    return out


# --------------------------------------------------------------------------
def _path(rng, maxseg, lead=None):
    n = rng.choice([0, 1, 1, 2, 2, 3, 3, 4, 5, maxseg])
    segs = [rng.choice(SEGS) for _ in range(n)]
    if rng.random() < 0.25 and segs:          # dot-heavy
        segs = [rng.choice(['.', '..', '..', '', 'a']) for _ in segs]
    return segs


def _base(rng, canonical=False):
    """canonical: the text is its own to_text() (no default/zero/padded port), needed when it is
    used as a reference, because the Spec takes the reference text as given."""
    if not canonical and rng.random() < 0.05:
        # an empty authority under a scheme that has one ("file:///a/b"): rooted non-empty path
        segs = _path(rng, 6)
        return 'file:///' + '/'.join(segs) + (('?' + rng.choice(QUERIES)) if rng.random() < 0.3 else '') \
               + (('#' + rng.choice(FRAGS)) if rng.random() < 0.3 else '')
    if not canonical and rng.random() < 0.12:
        # percent escapes of every depth in path / query / fragment (the reference is then often empty,
        # query-only or fragment-only: see _ref_for)
        segs = [rng.choice(PCT_SEGS) if rng.random() < 0.6 else rng.choice(SEGS) for _ in range(rng.randint(1, 4))]
        return (rng.choice(['http', 'https', 'foo']) + '://' + rng.choice(USERINFO[:5]) + rng.choice(HOSTS)
                + rng.choice(PORTS[:6]) + '/' + '/'.join(segs) + rng.choice(['', '/'])
                + (('?' + rng.choice(PCT_QUERIES + QUERIES)) if rng.random() < 0.6 else '')
                + (('#' + rng.choice(PCT_FRAGS + FRAGS)) if rng.random() < 0.5 else ''))
    sch = rng.choice(SCHEMES)
    host = rng.choice(HOSTS)
    upper = rng.random() < 0.15          # mixed-case scheme/host: navigate/normalize lower-case them (RFC 6.2.2.1)
    if upper:
        sch = rng.choice([sch.upper(), sch.capitalize()])
        host = rng.choice([host.upper(), host.title()])
    # a default port is elided by to_text only for the lower-case scheme: keep those to lower-case bases
    auth = rng.choice(USERINFO) + host + rng.choice(PORTS[:6] if (canonical or upper) else PORTS)
    segs = _path(rng, 6)
    shape = rng.random()
    if shape < 0.15:
        path = ''
    elif shape < 0.25:
        path = '/'
    else:
        path = '/' + '/'.join(segs) + ('/' if rng.random() < 0.3 and segs else '')
        if not segs:
            path = rng.choice(['', '/'])
    q = ('?' + rng.choice(QUERIES)) if rng.random() < 0.45 else ''
    f = ('#' + rng.choice(FRAGS)) if rng.random() < 0.3 else ''
    return sch + '://' + auth + path + q + f


def _relpath(rng, absolute):
    segs = _path(rng, 7)
    if not segs:
        return '/' if absolute else ''
    p = '/'.join(segs) + ('/' if rng.random() < 0.2 else '')
    if absolute:
        p = '/' + p
        while p.startswith('//'):
            p = p[1:]                       # "//x" would be an authority
        return p
    first = p.split('/')[0]
    if ':' in first:
        p = './' + p                        # RFC 3986 4.2: a first segment with ':' needs "./"
    if p.startswith('/'):                   # first segment empty: make it visible as relative
        p = '.' + p
    return p


def _climb(rng):
    """enough '..' to reach (and push against) the root, then an empty / dot / ordinary tail: the
    regime where an unrooted segment stack shows"""
    segs = ['..'] * rng.randint(1, 6)
    if rng.random() < 0.3:
        segs.insert(rng.randrange(len(segs)), rng.choice(['.', 'a', '']))
    segs += rng.choice([['', 'a'], [''], ['', '.'], ['', '..', 'b'], ['a'], [], ['.'], ['', '']])
    p = '/'.join(segs)
    return p if not p.startswith('/') else '.' + p


# references (and base components) with percent-ENCODED DELIMITERS of their own component: these print as they
# were written (normal form), so they can be passed as str as well
DELIM_SEGS = ['x%2Fy', 'q%3Fr', 'h%23i', '%5Bz%5D', 'a%2Fb%2Fc', '%2F', '..%2F..', '.%2F', '%23']
DELIM_QUERIES = ['k=%26v', 'k%3Dx=1', 'a=%23&b=%26', 'k=%5B1%5D', 'p=%2B&s=%3B']
DELIM_FRAGS = ['%23x', 'a%5Bb%5D']


def _delim_ref(rng):
    form = rng.choice(['abs', 'abs', 'rel', 'rel', 'query', 'frag', 'dots'])
    segs = [rng.choice(DELIM_SEGS) if rng.random() < 0.7 else rng.choice(['a', '..', '.', '', 'b']) for _ in range(rng.randint(1, 3))]
    q = ('?' + rng.choice(DELIM_QUERIES)) if rng.random() < 0.4 else ''
    f = ('#' + rng.choice(DELIM_FRAGS)) if rng.random() < 0.3 else ''
    if form == 'query':
        return '?' + rng.choice(DELIM_QUERIES) + f
    if form == 'frag':
        return '#' + rng.choice(DELIM_FRAGS)
    p = '/'.join(segs)
    if form == 'abs':
        p = '/' + p
        while p.startswith('//'):
            p = p[1:]
    elif form == 'dots':
        p = '../' + p
    elif p.startswith('/') or p == '':
        p = './' + p
    return p + q + f


PCT_REFS = ['x%2525/y', '../%2525', '/p%252Fq/r', 'g?k=%2525', '?to=http%253A%252F%252Fb', '#f%2523', 'a%2Fb/%41',
            'http://b/100%2525', 'https://u@h.x:8080/a/../%2525?k=%2526#%2523', 'http://example.com/%252e%252e/x']


def _ref(rng):
    kind = rng.choice(['rel', 'rel', 'rel', 'climb', 'abs', 'abs', 'query', 'frag', 'empty', 'qf', 'url', 'marker'])
    if kind == 'marker' and rng.random() < 0.7:
        kind = 'rel'
    q = '?' + rng.choice(QUERIES)
    f = '#' + rng.choice(FRAGS)
    if kind == 'climb':
        return _climb(rng) + (q if rng.random() < 0.2 else '')
    if kind == 'rel':
        p = _relpath(rng, False)
        return p + (q if rng.random() < 0.3 else '') + (f if rng.random() < 0.2 else '')
    if kind == 'abs':
        p = _relpath(rng, True)
        return p + (q if rng.random() < 0.3 else '') + (f if rng.random() < 0.2 else '')
    if kind == 'query':
        return q
    if kind == 'frag':
        return f
    if kind == 'empty':
        return ''
    if kind == 'qf':
        return q + f
    if kind == 'url':
        return _base(rng, canonical=True)
    return rng.choice(['?', '#', '?&', 'x?', 'x#', '../?#', '?#s', '?y#'])


EXH_BASES = ['http://a', 'http://a/', 'http://a/b', 'http://a/b/', 'http://u:p@h.x:8080/b/c/d;p?q#f',
             'http://a/b/../c/./d', 'http://a//b//']
EXH_SEGS = ['.', '..', '', 'a', 'b']


def _exhaustive(with_len5=True):
    """every reference path of <= 4 segments over EXH_SEGS, relative and absolute, x EXH_BASES;
    ref2 cycles through a few fixed references."""
    r2s = ['', '..', './x', '/y/../z', '?n', '#m', '../../..', 'g/']
    k = 0
    for L in range(0, 5):
        for segs in itertools.product(EXH_SEGS, repeat=L):
            for lead in ('', '/'):
                p = lead + '/'.join(segs)
                if L == 0 and lead == '':
                    continue
                if p.startswith('//'):
                    continue
                if lead == '' and p.startswith('/'):
                    continue
                for b in EXH_BASES:
                    k += 1
                    yield {"base": b, "ref1": p, "as_url1": k % 6, "ref2": r2s[k % len(r2s)],
                           "as_url2": (k // 6) % 6, "unrooted": k % 5 == 0}
    # length 5 over the four structural symbols, three base shapes (empty path, directory, empty segments)
    for segs in (itertools.product(['.', '..', '', 'a'], repeat=5) if with_len5 else ()):
        for lead in ('', '/'):
            p = lead + '/'.join(segs)
            if p.startswith('//') or (lead == '' and p.startswith('/')):
                continue
            for b in ('http://a', 'http://a/b/', 'http://a//b//'):
                k += 1
                yield {"base": b, "ref1": p, "as_url1": k % 6, "ref2": r2s[k % len(r2s)],
                       "as_url2": (k // 6) % 6, "unrooted": k % 5 == 0}


def generate(rng, tier, n):
    if tier == "thorough":
        for c in _exhaustive():
            yield c
    for _ in range(n):
        b = _base(rng)
        if '%' in b and rng.random() < 0.6:
            # the same-document references, where the base's own components must survive unchanged
            r1, r2 = rng.choice(['', '', '#s', '?y', '#x:y', '']), rng.choice(['', '#s', '?k=v', 'g', '.'])
            if rng.random() < 0.5:
                r1, r2 = r2, r1
            yield {"base": b, "ref1": r1, "as_url1": rng.choice(AS_MODES), "ref2": r2,
                   "as_url2": rng.choice(AS_MODES), "unrooted": rng.random() < 0.15}
            continue
        c = {"base": b, "ref1": _ref(rng), "as_url1": rng.choice(AS_MODES),
             "ref2": _ref(rng), "as_url2": rng.choice(AS_MODES), "unrooted": rng.random() < 0.15}
        if rng.random() < 0.10:
            k = rng.choice(["1", "2"])
            c["ref" + k] = _delim_ref(rng)
        if rng.random() < 0.06:
            # a reference whose decoded components contain '%': only meaningful as a URL OBJECT (what it
            # denotes is what it prints; the text it was parsed from is not in normal form)
            k = rng.choice(["1", "2"])
            c["ref" + k], c["as_url" + k] = rng.choice(PCT_REFS), rng.choice([1, 1, 2, 5])
        yield c


def search(rng, tier, n, broken):
    """After a broken tie (model/implementation disagreement, a proof obligation over regenerated data
    or the source translation failing): the exhaustive small-scope sweep, each reference also against
    the from_parts-built twin of the base, then random cases."""
    for c in _exhaustive(with_len5=False):
        yield c
        if not c["unrooted"]:
            yield dict(c, unrooted=True)
    for c in generate(rng, "quick", min(n, 2000)):
        yield c


# --------------------------------------------------------------------------
def run_impl(case):
    from boltons.urlutils import URL
    base = URL(case["base"])
    if case.get("unrooted"):
        # the same URL built the way from_parts' documentation suggests: path_parts=('post', '123')
        pp = tuple(base.path_parts)
        if base.host and len(pp) >= 2 and pp[0] == '' and pp[1] != '':
            base = URL.from_parts(scheme=base.scheme, host=base.host, path_parts=pp[1:],
                                  query_params=base.query_params, fragment=base.fragment, port=base.port,
                                  username=base.username, password=base.password)
    before = base.to_text()
    r1 = _as_arg(URL, case["ref1"], case["as_url1"])
    ref1t = r1 if isinstance(r1, str) else r1.to_text()      # the reference as handed over
    ref1f = (URL(r1) if isinstance(r1, str) else r1).to_text(full_quote=True)
    before_full = base.to_text(full_quote=True)
    n1 = base.navigate(r1)
    nav1 = n1.to_text()
    nav1_full = n1.to_text(full_quote=True)
    parts1 = list(n1.path_parts)
    q1 = [[k, v] for k, v in n1.query_params.items(multi=True)]
    r2 = _as_arg(URL, case["ref2"], case["as_url2"])
    ref2t = r2 if isinstance(r2, str) else r2.to_text()
    ref2f = (URL(r2) if isinstance(r2, str) else r2).to_text(full_quote=True)
    n2 = n1.navigate(r2)
    nav2 = n2.to_text()
    nav2_full = n2.to_text(full_quote=True)
    parts2 = list(n2.path_parts)
    q2 = [[k, v] for k, v in n2.query_params.items(multi=True)]
    # independence: mutate everything reachable from the second result, re-read the first ...
    _mutate(n2)
    nav1_again = n1.to_text()
    # ... then the first result, and re-read the base
    _mutate(n1)
    after = base.to_text()
    ub = URL(case["base"])
    ub.normalize()
    nb1 = ub.to_text()
    ub.normalize()
    nb2 = ub.to_text()
    ur = URL(case["ref1"])
    ur.normalize()
    nr1 = ur.to_text()
    ur.normalize()
    nr2 = ur.to_text()
    return {"before": before, "nav1": nav1, "nav1_again": nav1_again, "after": after, "nav2": nav2,
            "nb1": nb1, "nb2": nb2, "nr1": nr1, "nr2": nr2, "ref1t": ref1t, "ref2t": ref2t,
            "parts1": parts1, "parts2": parts2, "q1": q1, "q2": q2,
            "full": [before_full, ref1f, nav1_full, ref2f, nav2_full]}


def _as_arg(URL, text, mode):
    """how the destination is handed to navigate():
      0/False the text;  1/True URL(text);
      2 a URL object assembled with from_parts from the parsed fields (its raw _query etc. are those
        of an empty URL: only the public attributes carry the data);
      3 URL(text) after the caller called normalize() on it (path_parts is then a LIST);
      4 the object URL('').navigate(text) returns (built by from_parts + normalize, list path_parts);
      5 URL(text) with path_parts replaced by the equal list.
    3 and 4 may change what the object denotes (dot segments, case): they are used only when the
    object still prints the given text, else URL(text) is passed - the same object the model uses."""
    if not mode:
        return text
    u = URL(text)
    m = int(mode)
    if m == 2:
        return URL.from_parts(scheme=u.scheme, host=u.host, path_parts=tuple(u.path_parts),
                              query_params=u.query_params, fragment=u.fragment, port=u.port,
                              username=u.username, password=u.password)
    if m == 3:
        v = URL(text)
        v.normalize()
        return v if v.to_text() == text else u
    if m == 4:
        v = URL('').navigate(text)
        return v if v.to_text() == text else u
    if m == 5:
        u.path_parts = list(u.path_parts)
    return u


def _mutate(u):
    u.query_params.add('zz', 'mut')
    u.fragment = 'mut'
    pp = u.path_parts
    if isinstance(pp, list):
        pp.append('mut')
    else:
        u.path_parts = tuple(pp) + ('mut',)
    u.scheme = 'mut'
    u.host = 'mut.example'
    u.port = 1
    u.username = 'mu'
    u.password = 'mp'


def _codes(s):
    return clist(cN(ord(c)) for c in s)


FIELDS = ["before", "nav1", "nav1_again", "after", "nav2", "nb1", "nb2", "nr1", "nr2", "ref1t", "ref2t"]


def to_coq(case, obs):
    def pairs(l):
        return clist("(%s, %s)" % (_codes(k), "None" if v is None else "(Some %s)" % _codes(v)) for k, v in l)
    return "(mkCase %s %s %s %s %s %s (mkObs %s %s %s %s %s), mkFull %s)" % (
        _codes(case["base"]), cbool(bool(case.get("unrooted"))), _codes(case["ref1"]), cbool(bool(case["as_url1"])),
        _codes(case["ref2"]), cbool(bool(case["as_url2"])),
        " ".join(_codes(obs[k]) for k in FIELDS),
        clist(_codes(p) for p in obs["parts1"]), clist(_codes(p) for p in obs["parts2"]),
        pairs(obs["q1"]), pairs(obs["q2"]),
        " ".join(_codes(t) for t in obs["full"]))


def _strip(obs):
    return obs


def corrupt(case, obs):
    """A wrong observation for the canary: the first result loses its last
    character (or gains a dot segment when it is short)."""
    bad = dict(obs)
    t = obs["nav1"]
    bad["nav1"] = t[:-1] if len(t) > 12 and t[-1] != '/' else t + "/./x"
    bad["nav1_again"] = bad["nav1"]
    return bad


def _segs_of(ref):
    p = ref.split('#')[0].split('?')[0]
    if '://' in p:
        p = '/' + p.split('://', 1)[1].partition('/')[2]
    return p.split('/') if p else []


def _kind(ref):
    if ref == '':
        return 'empty'
    if '://' in ref.split('?')[0].split('#')[0]:
        return 'absolute-url'
    if ref[0] == '?':
        return 'query-only'
    if ref[0] == '#':
        return 'fragment-only'
    return 'path-absolute' if ref[0] == '/' else 'path-relative'


def nontrivial(case, obs):
    for r in (case["ref1"], case["ref2"]):
        k = _kind(r)
        if k in ('query-only', 'fragment-only'):
            return True
        if any(s in ('.', '..', '') for s in _segs_of(r)[1 if k == 'path-absolute' else 0:]):
            return True
    return False


def _bump(d, key, sub):
    d.setdefault(key, {})
    d[key][sub] = d[key].get(sub, 0) + 1


def distribution(d, case, obs):
    _bump(d, "ref1_kind", _kind(case["ref1"]))
    _bump(d, "ref2_kind", _kind(case["ref2"]))
    _bump(d, "ref1_passed_as", ["str", "URL(text)", "URL.from_parts(fields)", "URL(text).normalize()d", "URL('').navigate(text)", "URL(text) with list path_parts"][int(case["as_url1"])])
    _bump(d, "base_built_by", "from_parts(unrooted path_parts)" if case.get("unrooted") else "URL(text)")
    b = case["base"]
    bp = b.split('#')[0].split('?')[0].split('://', 1)[1].partition('/')
    if not bp[0]:
        _bump(d, "base_has", "empty authority (file:///...)")
    _bump(d, "base_path", "empty" if not bp[1] else ("root" if not bp[2] else
                                                     ("trailing-slash" if bp[2].endswith('/') else "file")))
    if any(s in ('.', '..') for s in bp[2].split('/')):
        _bump(d, "base_path", "with-dot-segments")
    if b.split('://')[0] != b.split('://')[0].lower():
        _bump(d, "base_has", "mixed-case scheme/host")
    if '%' in b:
        _bump(d, "base_has", "percent escapes")
    _bump(d, "base_has", "query" if '?' in b else "no-query")
    _bump(d, "base_has", "fragment" if '#' in b else "no-fragment")
    _bump(d, "base_has", "userinfo" if '@' in bp[0] else "no-userinfo")
    _bump(d, "base_has", "port" if ':' in bp[0].rpartition('@')[2] else "no-port")
    segs = _segs_of(case["ref1"])
    _bump(d, "ref1_segments", str(min(len(segs), 8)))
    if _kind(case["ref1"]) == 'path-relative':
        depth = max(0, len(bp[2].split('/')) - 1) if bp[1] else 0
        ups = sum(1 for s in segs if s == '..')
        if ups > depth:
            _bump(d, "depth", "ref1 climbs above the root (excess '..')")
    if case["ref1"] and any(m in case["ref1"] for m in ('?', '#')) and (
            case["ref1"].endswith('?') or case["ref1"].endswith('#') or '?#' in case["ref1"] or '?&' in case["ref1"]):
        _bump(d, "depth", "ref1 with empty query/fragment marker (known finding)")


def sample(case, obs):
    return {"base": case["base"], "ref1": case["ref1"], "ref2": case["ref2"], "nav1": obs["nav1"],
            "nav2": obs["nav2"], "normalized_base": obs["nb1"]}


def shrink(case):
    """Drop / simplify path segments of the references and the base."""
    for key in ("ref2", "ref1", "base"):
        t = case[key]
        if key != "base" and t:
            yield dict(case, **{key: ''})
        head, sepq, tailq = t.partition('?') if '?' in t else t.partition('#')
        if sepq:
            yield dict(case, **{key: head})
        pre = ''
        body = head
        if '://' in head:
            pre, _, rest = head.partition('://')
            a, s, body = rest.partition('/')
            pre = pre + '://' + a + s
        segs = body.split('/')
        for i in range(len(segs)):
            if len(segs) > 1:
                yield dict(case, **{key: pre + '/'.join(segs[:i] + segs[i + 1:]) + sepq + tailq})
    if case["as_url1"] or case["as_url2"]:
        yield dict(case, as_url1=0, as_url2=0)


# --------------------------------------------------------------------------
# validation of the Spec's transcription against an independent implementation
def extra_evidence(results):
    """Testing of the SPEC, not of boltons (DESIGN 1.3 'Spec validation'): on a sample of this run's
    (base.to_text(), ref1) pairs Coq evaluates the verbatim RFC 3986 5.2 algorithm of Spec/C07_Spec.v
    (transform_gen false) and compares it with urllib.parse.urljoin.  Pairs urljoin is known not to
    treat per RFC are excluded: schemes it does not resolve against, empty references (it returns the
    base with its fragment), absolute references (returned unnormalised), empty path segments (it
    drops them) and empty query/fragment markers (it drops them).  Never influences the verdict."""
    import os
    import re
    import common as C
    from urllib.parse import urljoin
    rows, excluded = [], 0
    for r in results:
        if r.get("abnormal") or not isinstance(r.get("obs"), dict) or "before" not in r["obs"]:
            continue
        b, ref = r["obs"]["before"], r["case"]["ref1"]
        bpath = b.split('#')[0].split('?')[0].split('://', 1)[-1].partition('/')[2]
        rpath = ref.split('#')[0].split('?')[0]
        if (b.split(':')[0] not in ('http', 'https', 'ftp', 'ws') or ref == '' or '://' in rpath
                or '//' in ('/' + bpath) or '//' in rpath or ref[-1] in '?#' or '?#' in ref or '?&' in ref
                or not (b + ref).isascii()):
            excluded += 1
            continue
        rows.append((b, ref, urljoin(b, ref)))
        if len(rows) >= 400:
            break
    if not rows:
        return {"spec_validation": {"reference": "urllib.parse.urljoin", "compared": 0}}
    d = os.path.join(C.BUILD, "cases", ID)
    os.makedirs(d, exist_ok=True)
    path = os.path.join(d, "C07_specval_%d.v" % os.getpid())
    with open(path, "w") as f:
        f.write("From Boltons Require Import Lib.Prelude Lib.C07_Str Spec.C07_Spec Proofs.C07_RfcExamples.\n"
                "Open Scope N_scope.\n")
        for i, (b, ref, j) in enumerate(rows):
            f.write("Definition r%d := option_eqb str_eqb (rfc_resolve false %s %s) (Some %s).\n"
                    % (i, _codes(b), _codes(ref), _codes(j)))
        f.write("Eval vm_compute in (map (fun b : bool => if b then 1 else 0) [%s]).\n"
                % "; ".join("r%d" % i for i in range(len(rows))))
    rc, out = C.coqc(path)
    for ext in (".v", ".vo", ".vok", ".vos", ".glob"):
        if os.path.exists(path[:-2] + ext):
            os.remove(path[:-2] + ext)
    m = re.search(r"=\s*\[(.*?)\]\s*:\s*list", out, re.S)
    if rc != 0 or not m:
        return {"spec_validation": {"reference": "urllib.parse.urljoin", "error": out[-300:]}}
    bits = [int(x) for x in re.findall(r"\d+", m.group(1))]
    bad = [{"base": rows[i][0], "ref": rows[i][1], "urljoin": rows[i][2]} for i, v in enumerate(bits) if not v][:5]
    return {"spec_validation": {"reference": "urllib.parse.urljoin (pairs it resolves per RFC 3986)",
                                "spec": "Spec.C07_Spec.transform_gen false (RFC 3986 5.2 verbatim), evaluated by vm_compute",
                                "compared": len(bits), "agree": sum(bits), "excluded_from_sample": excluded,
                                "disagreements": bad,
                                "static": "all examples of RFC 3986 5.4.1/5.4.2/5.2.4/Appendix B: Props C07_spec_rfc_examples"}}
