"""C19 line readers (strutils.iter_splitlines, jsonutils.reverse_iter_lines, jsonutils.JSONLIterator):
plug-in.  Python only moves data: it builds inputs, calls the public API and writes down what came
back; model, Spec and every comparison live in coq/Check/C19_Check.v."""
import os
import sys

from common import cN, cZ, clist, cbool

sys.path.insert(0, os.path.join(os.path.dirname(os.path.abspath(__file__)), "translators"))
import c19_breaks  # noqa: E402

ID = "C19"
IMPORTS = ("From Boltons Require Import Lib.Prelude Lib.C19_Utf8 Spec.C19_Spec Model.C19_Model "
           "Gen.C19_Gen Check.C19_Check.")
CASE_TYPE = "c19_case"
VERDICT = "c19_verdict"
EXPLAIN = "c19_explain"
CASES_PER_FILE = 120
CASE_FILE_BYTES = 120000
CASE_TIMEOUT = 20
TIERS = {"quick": {"n": 1500}, "thorough": {"n": 40000, "exhaustive": True}}
RULE = ("four case kinds in rotation 3:1:4:2 - split: texts of 0-40 (some 200) code points over letters, digits, "
        "spaces, the 8 line-break forms, their near misses (\\t \\x1c-\\x1e \\x84 \\x86 U+2027 U+202A; 1 text in 6 is "
        "heavy in \\x1c-\\x1e) and the substrings ' 28'/' 29', observed through list(iter_splitlines(t)) (and "
        "t.splitlines() to validate the Spec); indent: the same texts through indent(t, margin, newline); rev: byte "
        "contents of 0-40 (some 4-13 KB) bytes over ASCII, 2/3/4-byte UTF-8 characters, \\n, \\r\\n, lone \\r (10%), "
        "\\v \\f, read with 3-5 block sizes from 1-9, len-1, len, len+1, 16, 4096/default, 10^9 through io.BytesIO, a "
        "real binary file, real utf-8 and latin-1 text-mode files and BytesIO with an encoding argument, optionally "
        "preseek=False at a cursor; jsonl: JSON Lines files of 0-8 lines (ints, strings with multi-byte characters, "
        "corrupt, blank and white-space lines, \\n/\\r\\n endings, 15% padded to 1-3 blocks of 4096 bytes with a "
        "\\r\\n or a multi-byte character across a block edge), drained forward and in reverse, ignore_errors "
        "on/off; thorough adds five complete small scopes (every text over {a,\\n,\\r,\\x85,U+2028} up to length 5 and over "
        "{a,' ','2','8',\\n,\\r,\\x85,U+2028,\\x1c} up to length 4; "
        "every content over {a,\\n,\\r} up to length 7 with block sizes 1,2,3,5,default; every JSON Lines file of up "
        "to 3 lines over 7 line kinds x 2 terminators, strict and lenient; every 1-3 byte string over "
        "the UTF-8 table's boundary bytes through the primitives); one case in eleven (prim) observes the CPython "
        "primitives of the model directly (bytes.splitlines, file iteration, lstrip, utf-8 decode); non-trivial = "
        "split/indent: >=2 breaks one of which is not \\n; rev: >=2 lines and a block edge inside the content; "
        "jsonl: >=2 objects and >=1 skipped line; distinct = distinct case hash")
ASSUMPTIONS = ["file content is UTF-8 (or arbitrary bytes in binary mode); block size >= 1",
               "reverse reader and JSONLIterator clauses: every \\r is followed by \\n (lone-\\r contents are only "
               "checked for model agreement and block-size independence)",
               "JSON values restricted to non-negative integers and escape-free strings (json.loads is an oracle)"]
TRUSTED = ["Model/C19_Model.v is hand-written; tied to boltons.strutils/jsonutils by the correspondence run",
           "harness/translators/c19_breaks.py (alternatives of _line_ending_re) and harness/c19.py serialiser",
           "CPython: re alternation/finditer, bytes.splitlines, file seek/read/iteration, lstrip, UTF-8 codec, "
           "json.loads (Check.mini_loads on the generator's alphabet)"]


def translators(repo):
    c19_breaks.selftest()
    return {"C19_Gen": c19_breaks.translate(repo)}


# --------------------------------------------------------------------------
# data helpers
# --------------------------------------------------------------------------
def expand(runs):
    out = []
    for piece, n in runs:
        out.extend(piece * n)
    return out


def rle(seq):
    """[(piece, count)] with piece repeated count times; periods 1-4."""
    seq = list(seq)
    out, lit, i, n = [], [], 0, len(seq)
    while i < n:
        best = None
        for p in (1, 2, 3, 4):
            if i + p > n:
                break
            piece = seq[i:i + p]
            k = 1
            while seq[i + k * p:i + (k + 1) * p] == piece:
                k += 1
            if k * p >= 12 and (best is None or k * p > best[0] * len(best[1])):
                best = (k, piece)
        if best:
            if lit:
                out.append((lit, 1))
                lit = []
            out.append((best[1], best[0]))
            i += best[0] * len(best[1])
        else:
            lit.append(seq[i])
            i += 1
    if lit:
        out.append((lit, 1))
    return out


def crtext(seq):
    return clist("(%s, %s)" % (clist(cN(x) for x in piece), cN(n)) for piece, n in rle(seq))


def crtext_runs(runs):
    return clist("(%s, %s)" % (clist(cN(x) for x in piece), cN(n)) for piece, n in runs)


def clines(lines):
    return clist(crtext(l) for l in lines)


# --------------------------------------------------------------------------
# generation
# --------------------------------------------------------------------------
BREAKS = [[10], [13], [13, 10], [11], [12], [0x85], [0x2028], [0x2029]]
NEAR = [[9], [0x1c], [0x1d], [0x1e], [0x84], [0x86], [0x2027], [0x202a], [0x0e], [0x1f], [0xa0]]
TYPO = [[32, 50, 56], [32, 50, 57], [0x20, 0x32], [50, 56], [0x202, 56]]
ORD = [[97], [98], [99], [32], [48], [50], [56], [57], [233], [0x20ac], [0x1d11e], [122]]


def gen_text(rng):
    r = rng.random()
    n = rng.randint(0, 6) if r < 0.25 else rng.randint(0, 40) if r < 0.93 else rng.randint(100, 220)
    pb = rng.choice([0.1, 0.25, 0.5, 0.8])
    style = rng.choice(["plain", "plain", "plain", "ctl", "near", "typo"])
    p_near = {"plain": 0.06, "ctl": 0.3, "near": 0.3, "typo": 0.05}[style]
    p_typo = {"plain": 0.06, "ctl": 0.03, "near": 0.03, "typo": 0.35}[style]
    out = []
    while len(out) < n:
        x = rng.random()
        if x < pb:
            out += rng.choice(BREAKS)
        elif x < pb + p_near:
            c = rng.choice(NEAR)
            if style == "ctl" and rng.random() < 0.7:
                c = rng.choice([[0x1c], [0x1d], [0x1e]])
            elif style != "ctl" and c[0] in (0x1c, 0x1d, 0x1e):
                c = [9]
            out += c
        elif x < pb + p_near + p_typo:
            out += rng.choice(TYPO)
        else:
            out += rng.choice(ORD)
    if rng.random() < 0.3:
        out += rng.choice(BREAKS)
    if rng.random() < 0.2:
        out = rng.choice(BREAKS) + out
    return out


FEATURES = [[13, 10], [13], [10], [0x2028], [0x85], [32, 50, 56], [0x1d11e], [11, 12], [13, 10, 13, 10], [10, 13]]


def gen_long_text(rng, tier="thorough"):
    """size class: a text whose length is about a power of two, with a line break (or near miss) exactly across the
    4096 / 8192 offset - where a scanner that worked in chunks would have its edge"""
    b = rng.choice([4096, 4096, 8192]) if tier == "thorough" else 4096
    k = rng.randint(0, 3)
    head = gen_text(rng)[:k]
    runs = [[head, 1], [[rng.choice([97, 233, 32])], b - len(head) - rng.randint(0, 2)], [rng.choice(FEATURES), 1],
            [gen_text(rng)[:12], 1]]
    if rng.random() < 0.3:
        runs += [[[98], b - 20], [rng.choice(FEATURES), 1]]
    return [r for r in runs if r[0] and r[1] > 0]


def gen_split(rng, tier):
    if rng.random() < 0.006:
        return {"k": "split", "runs": gen_long_text(rng, tier)}
    return {"k": "split", "runs": [[gen_text(rng), 1]]}


MARGINS = [[32, 32], [9], [62, 32], [], [0x2028], [10]]
NEWLINES = [[10], [10], [13, 10], [], [124], [0x2028]]


def gen_indent(rng, tier):
    if rng.random() < 0.006:
        return {"k": "indent", "runs": gen_long_text(rng, tier), "margin": rng.choice(MARGINS), "newline": rng.choice(NEWLINES)}
    return {"k": "indent", "runs": [[gen_text(rng), 1]], "margin": rng.choice(MARGINS), "newline": rng.choice(NEWLINES)}


def sweep(tier):
    """thorough tier: complete small scopes.  split: every text over {a, \\n, \\r, \\x85, U+2028} up to length 5;
    rev: every content over {a, \\n, \\r} up to length 7, block sizes 1, 2, 3, 5 and the default;
    prim: every 1-3 byte string over the UTF-8 table's boundary bytes."""
    import itertools
    for n in range(0, 6):
        for t in itertools.product([97, 10, 13, 0x85, 0x2028], repeat=n):
            yield {"k": "split", "runs": [[list(t), 1]]}
    # ... and over {a, ' ', '2', '8', \n, \r, \x85, U+2028, \x1c} up to length 4 (the ' 28' typo, \x1c is no break),
    # alternately through iter_splitlines and indent
    j = 0
    for n in range(0, 5):
        for t in itertools.product([97, 32, 50, 56, 10, 13, 0x85, 0x2028, 0x1c], repeat=n):
            j += 1
            if j % 2:
                yield {"k": "split", "runs": [[list(t), 1]]}
            else:
                yield {"k": "indent", "runs": [[list(t), 1]], "margin": MARGINS[j % len(MARGINS)],
                       "newline": NEWLINES[j % len(NEWLINES)]}
    k = 0
    for n in range(0, 8):
        for t in itertools.product([97, 10, 13], repeat=n):
            k += 1
            yield {"k": "rev", "runs": [[list(t), 1]], "mode": REV_MODES[k % len(REV_MODES)], "pos": None,
                   "bs": [[1, "pos"], [2, "kw"], [3, "kw"], [5, "pos"], [4096, "default"]]}
    # every JSON Lines file of up to 3 lines over {int, padded string, corrupt, empty, white space} x {\n, \r\n},
    # with and without the final terminator, strict and ignore_errors
    toks = [[49], [32, 34, 97, 34, 32], [120], [], [32, 9], [110, 117, 108, 108], [123, 34, 97, 34, 58, 91, 93, 125]]
    k = 0
    for n in range(0, 4):
        for body in itertools.product(range(len(toks)), repeat=n):
            for terms in itertools.product([[10], [13, 10]], repeat=n):
                for last_open in ([False, True] if n else [False]):
                    content = []
                    for i in range(n):
                        content += toks[body[i]] + ([] if (last_open and i == n - 1) else terms[i])
                    for ie in (False, True):
                        k += 1
                        yield {"k": "jsonl", "runs": [[content, 1]] if content else [],
                               "mode": JSONL_MODES[k % len(JSONL_MODES)], "ie": ie}
    # the UTF-8 decoder (and the other primitives) on every 1-, 2-, 3-byte string over the boundary bytes of the
    # codec's table (3-byte strings: non-ASCII lead), and the 4-byte boundary combinations
    edge = [0x00, 0x0a, 0x0d, 0x20, 0x41, 0x7f, 0x80, 0x8f, 0x90, 0x9f, 0xa0, 0xbf, 0xc0, 0xc1, 0xc2, 0xdf, 0xe0, 0xe1,
            0xec, 0xed, 0xee, 0xef, 0xf0, 0xf1, 0xf3, 0xf4, 0xf5, 0xff]
    for n in (1, 2, 3):
        for t in itertools.product(edge, repeat=n):
            if n < 3 or t[0] >= 0xc0:
                yield {"k": "prim", "runs": [[list(t), 1]]}
    for lead in (0xf0, 0xf1, 0xf4):
        for t in itertools.product([0x80, 0x8f, 0x90, 0xbf, 0x41], repeat=3):
            yield {"k": "prim", "runs": [[[lead] + list(t), 1]]}


CH_ASCII = [[97], [98], [120], [32], [49]]
CH_MULTI = [[0xc3, 0xa9], [0xe2, 0x82, 0xac], [0xf0, 0x9d, 0x84, 0x9e], [0xe2, 0x80, 0xa8], [0xc2, 0x85], [0xc2, 0xa0]]
CH_BIN_ODD = [[11], [12], [0x85], [0x80], [0xff], [0], [0x1c]]
MODES = ["bytesio", "binfile", "textfile"]
# after /repo 3e62fa7 the file's own / the given encoding is honoured
REV_MODES = ["bytesio", "binfile", "textfile", "bytesio", "rawfile", "textfile", "latin1file", "enc_utf8", "enc_latin1",
             "rwfile"]
JSONL_MODES = ["bytesio", "binfile", "textfile", "bytesio", "rawfile", "textfile", "latin1file", "rwfile"]
UTF8_MODES = ("textfile", "enc_utf8")
SBCS_MODES = tuple("sbcs:%d" % i for i in range(len(c19_breaks.SBCS)))       # real text files in cp1252, koi8-r, ...
TEXT_MODES = ("textfile", "enc_utf8", "latin1file", "enc_latin1") + SBCS_MODES
_SBCS_TABLES = None
ENC_ARGS = ["utf-8", "latin-1", "sbcs:0", "sbcs:%d" % c19_breaks.SBCS.index("ascii"), "none"]


def own_codec(mode):
    """the handle's own encoding (None: a binary handle)"""
    if mode == "textfile":
        return "utf-8"
    if mode == "latin1file":
        return "latin-1"
    return mode if mode in SBCS_MODES else None


def arg_codec(case):
    """the encoding argument (None: not given, or given as None)"""
    if case["mode"] == "enc_utf8":
        return "utf-8"
    if case["mode"] == "enc_latin1":
        return "latin-1"
    e = case.get("enc")
    return None if e in (None, "none") else e


def eff_codec(case):
    """what the lines must be decoded with: the caller's encoding wins"""
    return arg_codec(case) or own_codec(case["mode"])


def py_codec(name):
    return c19_breaks.SBCS[int(name.split(":")[1])] if name.startswith("sbcs:") else name


def coq_codec(name):
    if name is None:
        return "None"
    if name.startswith("sbcs:"):
        return "(Some (sbcs %d%%nat))" % int(name.split(":")[1])
    return {"utf-8": "(Some TextUtf8)", "latin-1": "(Some TextLatin1)"}[name]


def sbcs_defined(mode, content):
    """drop the bytes the codec of an sbcs mode leaves undefined (used for JSONL, where forward text iteration would
    raise in the middle of the file)."""
    global _SBCS_TABLES
    if _SBCS_TABLES is None:
        _SBCS_TABLES = c19_breaks.sbcs_tables()
    row = _SBCS_TABLES[int(mode.split(":")[1])]
    return [b for b in content if row[b] is not None]


def gen_content(rng, n, mode, lone_cr, invalid, utf8=None):
    utf8 = (mode in UTF8_MODES) if utf8 is None else utf8
    out = []
    pb = rng.choice([0.1, 0.3, 0.6])
    crlf = rng.choice([0.0, 0.3, 0.7, 1.0])
    while len(out) < n:
        x = rng.random()
        if x < pb:
            if lone_cr and rng.random() < 0.4:
                out += [13]
            elif rng.random() < crlf:
                out += [13, 10]
            else:
                out += [10]
        elif x < pb + 0.25:
            out += rng.choice(CH_MULTI)
        elif x < pb + 0.33:
            if utf8 and not invalid:
                out += rng.choice([[11], [12], [0x1c]])
            else:
                out += rng.choice(CH_BIN_ODD)
        else:
            out += rng.choice(CH_ASCII)
    return out


def pick_blocksizes(rng, n):
    cands = [1, 1, 2, 2, 3, 3, 4, 5, 6, 7, 8, 9, 16, max(1, n - 1), max(1, n), n + 1, 4096, 4096, 10 ** 9]
    k = rng.randint(3, 5)
    bs = []
    while len(bs) < k:
        b = rng.choice(cands)
        if b not in [x[0] for x in bs]:
            how = rng.choice(["pos", "kw"])
            if b == 4096 and rng.random() < 0.5:
                how = "default"
            bs.append([b, how])
    return bs


def gen_rev(rng, tier):
    mode = rng.choice(REV_MODES) if rng.random() < 0.85 else rng.choice(SBCS_MODES)
    enc = None
    if mode not in ("enc_utf8", "enc_latin1") and rng.random() < 0.3:
        # an explicit encoding argument, whatever the handle (text handles in ANOTHER encoding included):
        # the caller's encoding wins
        enc = rng.choice(ENC_ARGS)
    probe = {"mode": mode, "enc": enc}
    eff = eff_codec(probe)
    utf8 = eff == "utf-8"
    binary_handle = own_codec(mode) is None
    r = rng.random()
    lone_cr = rng.random() < 0.10
    invalid = utf8 and rng.random() < 0.04
    if r < 0.95:
        n = rng.randint(0, 5) if r < 0.2 else rng.randint(0, 40)
        content = gen_content(rng, n, mode, lone_cr, invalid, utf8)
        runs = [[content, 1]]
        bs = pick_blocksizes(rng, len(content))
    elif r < 0.956:
        # size class: 64-128 KB with a line break / multi-byte character across the offset 65536 or 131072 from the
        # END (where the backward reader's blocks of 4096 / 65536 have their edges)
        b = rng.choice([65536, 65536, 131072])
        feat = rng.choice([[13, 10], [10], [13, 10, 13, 10]] + ([[0xc3, 0xa9], [0xe2, 0x82, 0xac], [0xf0, 0x9d, 0x84, 0x9e]]
                                                                if (utf8 or eff is None) else [[0xe9], [0xa0]]))
        tail = gen_content(rng, rng.randint(0, 6), mode, False, False, utf8)
        runs = [[gen_content(rng, rng.randint(0, 6), mode, False, False, utf8), 1], [[97], rng.randint(1, 3000)], [feat, 1],
                [[98], b - len(tail) - rng.randint(0, len(feat))], [tail, 1]]
        runs = [x for x in runs if x[0] and x[1] > 0]
        bs = [[4096, rng.choice(["pos", "kw", "default"])], [65536, "kw"], [rng.choice([b, b - 1, 4095, 10 ** 9]), "kw"]]
    else:
        # 1-3 blocks of 4096: few lines, long runs
        runs = []
        for _ in range(rng.randint(1, 6)):
            runs.append([rng.choice(CH_ASCII + CH_MULTI[:3]), rng.randint(1, 2500)])
            runs.append([gen_content(rng, rng.randint(0, 8), mode, lone_cr, False, utf8), 1])
        bs = [[4096, rng.choice(["pos", "kw", "default"])], [rng.choice([1000, 4095, 4097, 5000, 8192, 100000]), "kw"]]
    pos = None
    if binary_handle and rng.random() < 0.15:
        pos = rng.randint(0, len(expand(runs)))
        if utf8:
            c = expand(runs)
            while 0 < pos < len(c) and 0x80 <= c[pos] < 0xc0:     # keep the cursor on a character boundary
                pos -= 1
    case = {"k": "rev", "runs": runs, "mode": mode, "pos": pos, "bs": bs}
    if enc is not None:
        case["enc"] = enc
    if rng.random() < 0.25 and (own_codec(mode) is not None or mode == "bytesio"):
        case["wrap"] = True
    if own_codec(mode) is not None and rng.random() < 0.25:
        case["nl"] = True
    if pos is None and binary_handle and rng.random() < 0.25:
        # default preseek=True must ignore where the cursor happens to be
        case["pre_cursor"] = rng.randint(0, len(expand(runs)))
    return case


J_OK = [[48], [55], [49, 50], [51, 48, 48], [34, 97, 98, 34], [34, 34], [34, 0xc3, 0xa9, 0xe2, 0x82, 0xac, 34],
        [34, 120, 32, 121, 34], [34, 0xf0, 0x9d, 0x84, 0x9e, 34], [34, 35, 44, 58, 34], [57, 57, 57, 57, 57, 57, 57]]
# every JSON value kind as a whole record (null false true 0 "" [] {} and spaced containers)
J_KINDS = [[110, 117, 108, 108], [102, 97, 108, 115, 101], [116, 114, 117, 101], [48], [34, 34], [91, 93], [123, 125],
           [91, 32, 93], [123, 9, 32, 125]]
def _b(t):
    return list(t.encode("utf-8"))


# non-empty (nested) containers, the usual JSON Lines record; keys/strings over the check's alphabet
# numbers: negative integers, -0 (an int), floats in their canonical spelling (= Python's repr)
J_NUM = [_b(t) for t in ['-1', '-0', '0.5', '-0.0', '12.25', '0.0', '-300', '1.0', '0.0001', '99999.75']]
J_CONT = [_b(t) for t in ['[1.5, -2, {"a": -0.5}]', '{"n": -1, "f": 0.0}', '{"a": 1}', '{"a":1,"b":[1,2,"x y"],"n":null}', '[1, 2]', '[[], {}]', '{"\u00e9": "\u20ac"}',
                           '[true,false,null]', '{ "x" : { "n" : [ 0 ] } }', '{"s": "", "l": [], "t": true}', '[""]',
                           '{"b":{"b":{"b":[[[12]]]}}}', '[\t1 ,\t"a" ]']]
J_BAD = [_b(t) for t in ['1.', '.5', '-', '--1', '1-1', '-01', '1.5.2', '- 1', '[1.]', '[-]', '007', '[1,]', '[1 2]', '{"a" 1}', '{"a":}', '[1,2', '{"a":1}}', '{1:2}', '[,1]', '{"a":1,}', '[01]',
                          '{"a":1 "b":2}', '[1]]', '{"a"}', '[nul]', '["a]', '{"a":[1,}']] + [[110, 117, 108], [110, 117, 108, 108, 120], [116, 114, 117], [102, 97, 108, 115], [91], [123], [93], [125],
         [91, 93, 93], [123, 125, 49], [110, 117, 108, 108, 32, 49], [110], [120], [49, 50, 120], [48, 49], [34, 97, 98], [49, 32, 50], [0xc3, 0xa9], [34, 97, 34, 98, 34], [35],
         [34, 97, 9, 98, 34], [49, 11], [34], [44], [49, 0xc2, 0xa0]]
J_BAD_BIN = [[34, 0xc3, 34], [0x80], [49, 0xc0, 0xaf]]
J_BLANK = [[], [], [32], [32, 32, 9], [9], [11], [12, 32]]
WS_LEAD = [[], [], [], [32], [9, 32], [11], [12], [32, 32, 32]]
WS_LEAD_TEXT = [[0xc2, 0xa0], [0xe2, 0x80, 0xa8], [0x1c], [0xc2, 0x85]]
WS_TRAIL = [[], [], [], [32], [9], [32, 32]]


def gen_jsonl(rng, tier):
    mode = rng.choice(JSONL_MODES) if rng.random() < 0.85 else rng.choice(SBCS_MODES)
    ie = rng.random() < 0.6
    # text modes: the mirror clause is checked (and proved) for every text, lone \r included
    lone_cr = rng.random() < (0.15 if mode in TEXT_MODES else 0.05)
    nlines = rng.choice([0, 1, 1, 2, 3, 4, 5, 6, 8])
    p_bad = rng.choice([0.0, 0.0, 0.15, 0.4])
    p_blank = rng.choice([0.0, 0.2, 0.5])
    crlf = rng.choice([0.0, 0.0, 0.3, 1.0])
    big = rng.random() < 0.15
    runs = []
    for i in range(nlines):
        x = rng.random()
        if x < p_blank:
            body = rng.choice(J_BLANK)
            if big and rng.random() < 0.5:
                runs.append([[32], rng.randint(500, 3000)])
        else:
            lead = list(rng.choice(WS_LEAD))
            if mode == "textfile" and rng.random() < 0.1:
                lead += rng.choice(WS_LEAD_TEXT)
            if mode == "latin1file" and rng.random() < 0.1:
                lead += rng.choice([[0xa0], [0x85], [0x1c]])
            if big and rng.random() < 0.5:
                runs.append([[32], rng.randint(500, 3000)])
            if rng.random() < p_bad:
                tok = rng.choice(J_BAD + (J_BAD_BIN if mode != "textfile" else []))
                if mode == "latin1file" and tok in J_BAD_BIN:
                    tok = [0x80]                      # a C1 control character: "Expecting value"
            else:
                y = rng.random()
                tok = (rng.choice(J_KINDS) if y < 0.3 else rng.choice(J_CONT) if y < 0.55 else rng.choice(J_NUM) if y < 0.7
                       else rng.choice(J_OK))
            body = lead + tok + rng.choice(WS_TRAIL)
        last = i == nlines - 1
        if last and rng.random() < 0.4:
            end = []
        elif lone_cr and rng.random() < 0.5:
            end = [13]
        elif rng.random() < crlf:
            end = [13, 10]
        else:
            end = [10]
        runs.append([body, 1])
        if big and rng.random() < 0.4:
            runs.append([[32], rng.randint(200, 3000)])
        runs.append([end, 1])
    if rng.random() < 0.15:
        runs.insert(0, [rng.choice([[10], [13, 10], [32, 10], [10, 10]]), 1])
    runs = [r for r in runs if r[0] and r[1]]
    if big and runs:
        # put a block edge (4096 bytes from the end, or 8192) inside a \r\n or a multi-byte character
        content = expand(runs)
        feats = [i for i in range(len(content) - 1)
                 if (content[i] == 13 and content[i + 1] == 10) or content[i] >= 0xc2]
        if feats:
            i = rng.choice(feats)
            after = len(content) - (i + 1)          # bytes after the first byte of the feature
            k = rng.choice([1, 1, 1, 2, 2, 3])
            if tier == "thorough" and rng.random() < 0.06:
                k = rng.choice([8, 8, 8, 16])         # 32 / 64 KB: about 70 files per thorough run
            pad = 4096 * k - after
            if pad < 0:
                pad %= 4096
            # trailing white space after the final line break keeps the file's lines unchanged but one blank
            runs.append([[32], pad])
            if rng.random() < 0.5:
                runs.append([[10], 1])
                runs[-2][1] = pad - 1 if pad >= 1 else 4095
            runs = [r for r in runs if r[1]]
    if mode in SBCS_MODES:
        runs = [[sbcs_defined(mode, r[0]), r[1]] for r in runs]
        runs = [r for r in runs if r[0]]
    case = {"k": "jsonl", "runs": runs, "mode": mode, "ie": ie, "style": rng.randrange(9)}
    if rng.random() < 0.25 and (own_codec(mode) is not None or mode == "bytesio"):
        case["wrap"] = True
    if own_codec(mode) is not None and rng.random() < 0.25:
        case["nl"] = True
    if mode not in TEXT_MODES and rng.random() < 0.2:
        case["pre_cursor"] = rng.randint(0, len(expand(runs)))
    return case


UTF8_EDGE = [[0xc0, 0x80], [0xc1, 0xbf], [0xc2, 0x80], [0xdf, 0xbf], [0xe0, 0x80, 0x80], [0xe0, 0x9f, 0xbf], [0xe0, 0xa0, 0x80],
             [0xed, 0x9f, 0xbf], [0xed, 0xa0, 0x80], [0xed, 0xbf, 0xbf], [0xee, 0x80, 0x80], [0xef, 0xbf, 0xbf],
             [0xf0, 0x80, 0x80, 0x80], [0xf0, 0x8f, 0xbf, 0xbf], [0xf0, 0x90, 0x80, 0x80], [0xf4, 0x8f, 0xbf, 0xbf],
             [0xf4, 0x90, 0x80, 0x80], [0xf5, 0x80, 0x80, 0x80], [0xe2, 0x82], [0xf0, 0x9d, 0x84], [0x80], [0xbf], [0xc3],
             [0xe2, 0x28, 0xa1], [0xf0, 0x28, 0x8c, 0xbc], [0xfe], [0xff], [0xc3, 0xa9], [0xe2, 0x80, 0xa8], [0xc2, 0x85],
             [0xc2, 0xa0], [0xe1, 0x9a, 0x80], [0xe3, 0x80, 0x80], [0x1c], [0x1f], [0]]


def gen_prim(rng, tier):
    n = rng.randint(0, 24)
    out = []
    p_edge = rng.choice([0.0, 0.1, 0.3])
    while len(out) < n:
        x = rng.random()
        if x < p_edge:
            out += rng.choice(UTF8_EDGE)
        elif x < p_edge + 0.3:
            out += rng.choice([[10], [13], [13, 10], [32], [9], [11], [12]])
        elif x < p_edge + 0.45:
            out += rng.choice(CH_MULTI)
        else:
            out += rng.choice(CH_ASCII)
    return {"k": "prim", "runs": [[out, 1]]}


def generate(rng, tier, n):
    if TIERS.get(tier, {}).get("exhaustive") and n >= TIERS[tier]["n"]:
        for c in sweep(tier):
            yield c
    # kinds interleaved so that the first generated cases (used by the driver's canary) are of different kinds
    order = ["rev", "jsonl", "split", "indent", "rev", "split", "rev", "jsonl", "split", "rev"]
    gens = {"rev": gen_rev, "jsonl": gen_jsonl, "split": gen_split, "indent": gen_indent, "prim": gen_prim}
    for i in range(n):
        yield gens[order[i % 10]](rng, tier)
        if i % 10 == 9:
            yield gens["prim"](rng, tier)        # one in eleven: the CPython primitives themselves


# --------------------------------------------------------------------------
# running the implementation
# --------------------------------------------------------------------------
class _Files:
    """Fresh file objects over the same content."""

    def __init__(self, content, mode, wrap=False, nl=False):
        self.content, self.mode, self.tmp, self.n, self.wrap = bytes(content), mode, None, 0, wrap
        # newline='' : universal line-end detection without translation (same lines, terminators kept)
        self.kw = {"newline": ""} if nl else {}

    def open(self):
        import io
        import tempfile
        if self.mode in ("bytesio", "enc_utf8", "enc_latin1"):
            return io.BufferedReader(io.BytesIO(self.content)) if self.wrap else io.BytesIO(self.content)
        if self.wrap and own_codec(self.mode) is not None:
            # a text handle that is not a real file: TextIOWrapper over BytesIO
            return io.TextIOWrapper(io.BytesIO(self.content), encoding=py_codec(own_codec(self.mode)), **self.kw)
        if self.tmp is None:
            base = os.path.join(os.environ.get("VERIF_BUILD") or os.path.join(
                os.path.dirname(os.path.dirname(os.path.abspath(__file__))), "build"), "tmp_c19")
            os.makedirs(base, exist_ok=True)           # real files live under /verif/build (git-ignored), not /tmp
            self.tmp = tempfile.TemporaryDirectory(prefix="c19_", dir=base)
            self.path = os.path.join(self.tmp.name, "data")
            with open(self.path, "wb") as f:
                f.write(self.content)
        if self.mode == "binfile":
            return open(self.path, "rb")
        if self.mode == "rawfile":
            return open(self.path, "rb", buffering=0)          # io.FileIO: nothing to detach
        if self.mode == "rwfile":
            return open(self.path, "r+b")                      # io.BufferedRandom
        if self.mode == "latin1file":
            return open(self.path, "r", encoding="latin-1", **self.kw)
        if self.mode in SBCS_MODES:
            return open(self.path, "r", encoding=c19_breaks.SBCS[int(self.mode.split(":")[1])], **self.kw)
        return open(self.path, "r", encoding="utf-8", **self.kw)

    def close(self):
        if self.tmp is not None:
            self.tmp.cleanup()


def _line(text, l):
    if text:
        if type(l) is not str:
            raise TypeError("text-mode line of type %s" % type(l))
        return [ord(c) for c in l]
    if type(l) is not bytes:
        raise TypeError("binary line of type %s" % type(l))
    return list(l)


def _jobj(o):
    """every JSON value kind can be a whole record; None is a value (JSON null), not "nothing"."""
    if o is None:
        return {"n": 0}
    if type(o) is bool:
        return {"b": o}
    if type(o) is int:
        return {"i": o}
    if type(o) is float and o == o and o not in (float("inf"), float("-inf")):
        return {"f": [ord(c) for c in repr(o)]}
    if type(o) is str:
        return {"s": [ord(c) for c in o]}
    if type(o) in (list, dict):
        import json
        # canonical text of a container: no white space between tokens, characters as they are
        return {"c": [ord(c) for c in json.dumps(o, separators=(",", ":"), ensure_ascii=False)]}
    raise TypeError("object outside the check's JSON alphabet: %r" % (o,))


def run_impl(case):
    k = case["k"]
    content = expand(case["runs"])
    if k == "split":
        from boltons.strutils import iter_splitlines
        text = "".join(chr(c) for c in content)
        it = iter_splitlines(text)
        lines = [l for l in it]
        return {"lines": [[ord(c) for c in l] for l in lines], "py": [[ord(c) for c in l] for l in text.splitlines()]}
    if k == "prim":
        import io
        b = bytes(content)
        res = {"bsplit": [list(l) for l in b.splitlines()], "biter": [list(l) for l in io.BytesIO(b)],
               "blstrip": list(b.lstrip()), "dec": None, "titer": None, "tlstrip": None}
        try:
            t = b.decode("utf-8")
        except UnicodeDecodeError:
            return res
        res["dec"] = [ord(c) for c in t]
        res["titer"] = [[ord(c) for c in l] for l in io.TextIOWrapper(io.BytesIO(b), encoding="utf-8")]
        res["tlstrip"] = [ord(c) for c in t.lstrip()]
        return res
    if k == "indent":
        from boltons.strutils import indent
        text = "".join(chr(c) for c in content)
        margin = "".join(chr(c) for c in case["margin"])
        newline = "".join(chr(c) for c in case["newline"])
        if newline == "\n" and len(content) % 2:
            res = indent(text, margin)                     # default newline
        else:
            res = indent(text, margin, newline)
        if type(res) is not str:
            raise TypeError("indent returned %s" % type(res))
        return {"text": [ord(c) for c in res]}
    files = _Files(content, case["mode"], bool(case.get("wrap")), bool(case.get("nl")))
    try:
        if k == "rev":
            from boltons.jsonutils import reverse_iter_lines
            out = []
            for bs, how in case["bs"]:
                f = files.open()
                kw = {}
                if arg_codec(case) is not None:
                    kw["encoding"] = py_codec(arg_codec(case))
                elif case.get("enc") == "none":
                    kw["encoding"] = None
                if case["pos"] is not None:
                    f.seek(case["pos"])
                    kw["preseek"] = False
                elif case.get("pre_cursor") is not None:
                    f.seek(case["pre_cursor"])
                    if bs % 2:
                        kw["preseek"] = True
                try:
                    if how == "default":
                        it = reverse_iter_lines(f, **kw)
                    elif how == "kw":
                        it = reverse_iter_lines(f, blocksize=bs, **kw)
                    elif "preseek" in kw and "encoding" not in kw:
                        it = reverse_iter_lines(f, bs, kw["preseek"])          # all positional
                    else:
                        it = reverse_iter_lines(f, bs, **kw)
                    lines = list(it)
                    out.append({"lines": [_line(eff_codec(case) is not None, l) for l in lines]})
                except ValueError:          # UnicodeDecodeError on bytes that are not text
                    out.append({"raise": "ValueError"})
                finally:
                    try:
                        f.close()
                    except ValueError:
                        pass           # a detached text wrapper cannot be closed (DESIGN Appendix C)
            return out
        if k == "jsonl":
            from boltons.jsonutils import JSONLIterator
            res = {}
            for name, rev in (("fwd", False), ("rev", True)):
                f = files.open()
                try:
                    style = case.get("style", 0)        # how the public API is used; all spellings mean the same
                    if rev:
                        if case.get("pre_cursor") is not None:
                            f.seek(case["pre_cursor"])         # reverse mode starts from the end regardless
                        if style % 3 == 1:
                            it = JSONLIterator(f, bool(case["ie"]), 1)                 # positional, truthy
                        elif style % 3 == 2:
                            it = JSONLIterator(f, reverse=True, ignore_errors=(1 if case["ie"] else 0))
                        else:
                            it = JSONLIterator(f, ignore_errors=case["ie"], reverse=True)
                    elif case["ie"]:
                        it = JSONLIterator(f, True) if style % 3 == 1 else JSONLIterator(f, ignore_errors=True)
                    else:
                        it = JSONLIterator(f, reverse=False) if style % 3 == 2 else JSONLIterator(f)
                    objs, err = [], False
                    drain = (style // 3) % 3
                    if drain == 1:                      # the iterator protocol: for ... in
                        try:
                            for o in it:
                                objs.append(_jobj(o))
                        except ValueError:
                            err = True
                    else:
                        while True:
                            try:
                                objs.append(_jobj(it.next() if drain == 2 else next(it)))
                            except StopIteration:
                                break
                            except ValueError:
                                err = True
                                break
                    res[name] = {"objs": objs, "err": err}
                finally:
                    try:
                        f.close()
                    except ValueError:
                        pass
            return res
    finally:
        files.close()
    raise ValueError("unknown case kind %r" % (k,))


# --------------------------------------------------------------------------
# rendering
# --------------------------------------------------------------------------
def _mode(m):
    if m in SBCS_MODES:
        return "(sbcs %d%%nat)" % int(m.split(":")[1])
    return {"textfile": "TextUtf8", "enc_utf8": "TextUtf8", "latin1file": "TextLatin1",
            "enc_latin1": "TextLatin1"}.get(m, "Binary")


def _lres(o):
    if "raise" in o:
        return "(Raise %s)" % o["raise"]
    return "(Ok %s)" % clines(o["lines"])


def _jval(x):
    if "n" in x:
        return "JObsNull"
    if "b" in x:
        return "(JObsBool %s)" % cbool(x["b"])
    if "i" in x:
        return "(JObsInt %s)" % cZ(x["i"])
    if "f" in x:
        return "(JObsFloat %s)" % crtext(x["f"])
    if "s" in x:
        return "(JObsStr %s)" % crtext(x["s"])
    return "(JObsCont %s)" % crtext(x["c"])


def _jres(o):
    return "(Ok (%s, %s))" % (clist(_jval(x) for x in o["objs"]), cbool(o["err"]))


def to_coq(case, obs):
    k = case["k"]
    if k == "split":
        return "CSplit %s %s %s" % (crtext_runs(case["runs"]), clines(obs["lines"]), clines(obs["py"]))
    if k == "prim":
        def opt(x, f):
            return "None" if x is None else "(Some %s)" % f(x)
        return "CPrim %s %s %s %s %s %s %s" % (crtext_runs(case["runs"]), clines(obs["bsplit"]), clines(obs["biter"]),
                                              crtext(obs["blstrip"]), opt(obs["dec"], crtext),
                                              opt(obs["titer"], clines), opt(obs["tlstrip"], crtext))
    if k == "indent":
        return "CIndent %s %s %s %s" % (crtext_runs(case["runs"]), crtext(case["margin"]), crtext(case["newline"]),
                                        crtext(obs["text"]))
    if k == "rev":
        runs = clist("(%s, %s)" % (cN(bs), _lres(o)) for (bs, _how), o in zip(case["bs"], obs))
        pos = "None" if case["pos"] is None else "(Some %s)" % cN(case["pos"])
        return "CRev %s %s %s %s %s" % (crtext_runs(case["runs"]), coq_codec(own_codec(case["mode"])),
                                        coq_codec(arg_codec(case)), pos, runs)
    return "CJsonl %s %s %s %s %s" % (crtext_runs(case["runs"]), _mode(case["mode"]), cbool(case["ie"]),
                                      _jres(obs["fwd"]), _jres(obs["rev"]))


def corrupt(case, obs):
    import copy
    bad = copy.deepcopy(obs)
    k = case["k"]
    if k == "split":
        if not bad["lines"]:
            bad["lines"] = [[]]
        else:
            bad["lines"][-1] = bad["lines"][-1] + [97]
        return bad
    if k == "prim":
        bad["blstrip"] = bad["blstrip"] + [32]
        return bad
    if k == "indent":
        bad["text"] = bad["text"] + [32]
        return bad
    if k == "rev":
        o = bad[-1]
        if "lines" not in o:
            return None
        if o["lines"]:
            o["lines"] = o["lines"][1:]
        else:
            o["lines"] = [[]]
        return bad
    if bad["rev"]["objs"]:
        bad["rev"]["objs"] = bad["rev"]["objs"][:-1]
        return bad
    return None


# --------------------------------------------------------------------------
# evidence
# --------------------------------------------------------------------------
def _edges(case, content):
    """block edges (offsets from the file start) for each block size used."""
    n = len(content) if case.get("pos") is None else case["pos"]
    out = []
    for bs in ([b for b, _ in case["bs"]] if case["k"] == "rev" else [4096]):
        e = n - bs
        while e > 0:
            out.append(e)
            e -= bs
            if len(out) > 50000:
                break
    return out


def nontrivial(case, obs):
    k = case["k"]
    content = expand(case["runs"])
    if k == "prim":
        return len(content) >= 4
    if k in ("split", "indent"):
        brk = [c for c in content if c in (10, 11, 12, 13, 0x85, 0x2028, 0x2029)]
        return len(brk) >= 2 and any(c != 10 for c in brk)
    if k == "rev":
        return any("lines" in o and len(o["lines"]) >= 2 for o in obs) and any(b < len(content) for b, _ in case["bs"])
    nobj = len(obs["fwd"]["objs"])
    nl = content.count(10) + 1
    return nobj >= 2 and nl > nobj


def distribution(d, case, obs):
    k = case["k"]
    content = expand(case["runs"])

    def inc(key, by=1):
        d[key] = d.get(key, 0) + by
    inc("kind:" + k)
    if k == "prim":
        inc("prim_decodable" if obs["dec"] is not None else "prim_invalid_utf8")
        return
    if k == "indent":
        return
    if k == "split":
        for c, name in ((10, "LF"), (13, "CR"), (11, "VT"), (12, "FF"), (0x85, "NEL"), (0x2028, "LS"), (0x2029, "PS")):
            if c in content:
                inc("split_has_" + name)
        if any(content[i] == 13 and content[i + 1] == 10 for i in range(len(content) - 1)):
            inc("split_has_CRLF")
        if any(c in content for c in (0x1c, 0x1d, 0x1e)):
            inc("split_has_sep_ctl(spec validation skipped)")
        d["split_max_len"] = max(d.get("split_max_len", 0), len(content))
        if len(content) >= 4096:
            inc("split_4096_or_longer")
        return
    if case.get("wrap"):
        inc("handle_is_a_wrapper_over_BytesIO")
    inc("mode:" + (case["mode"] if case["mode"] not in SBCS_MODES
                    else "textfile:" + c19_breaks.SBCS[int(case["mode"].split(":")[1])]))
    edges = set(_edges(case, content))
    if any(e < len(content) and content[e] == 10 and content[e - 1] == 13 for e in edges):
        inc(k + "_edge_inside_CRLF")
    if any(e < len(content) and 0x80 <= content[e] < 0xc0 for e in edges):
        inc(k + "_edge_inside_multibyte_char")
    if len(content) > 4096:
        inc(k + "_larger_than_4096")
    if len(content) > 32000:
        inc(k + "_larger_than_32000")
    if 13 in content and any(content[i] == 13 and content[i + 1:i + 2] != [10] for i in range(len(content))):
        inc(k + "_lone_CR(outside domain)")
    if k == "rev":
        if case["pos"] is not None:
            inc("rev_preseek_false")
        if arg_codec(case) and own_codec(case["mode"]) and arg_codec(case) != own_codec(case["mode"]):
            inc("rev_encoding_argument_differs_from_text_handle")
        elif arg_codec(case) and own_codec(case["mode"]) is None:
            inc("rev_encoding_argument_on_binary_handle")
        elif case.get("enc") == "none":
            inc("rev_encoding_None_given")
        if case.get("pre_cursor") is not None:
            inc("rev_preseek_true_from_moved_cursor")
        if any("raise" in o for o in obs):
            inc("rev_decode_error")
        if content[:1] in ([10], [13]):
            inc("rev_starts_with_break")
    else:
        inc("jsonl_ignore_errors" if case["ie"] else "jsonl_strict")
        if obs["fwd"]["err"] or obs["rev"]["err"]:
            inc("jsonl_ended_by_error")
        inc("jsonl_objects", len(obs["fwd"]["objs"]))


def sample(case, obs):
    c = expand(case["runs"])
    s = {"kind": case["k"], "content_head": c[:40], "len": len(c)}
    for key in ("mode", "enc", "wrap", "nl", "pos", "pre_cursor", "bs", "ie", "margin", "newline"):
        if key in case:
            s[key] = case[key]
    s["obs"] = obs if len(str(obs)) < 600 else str(obs)[:600]
    s["model_obs"] = "identical to obs (agree = true is checked in Coq for every case)"
    return s


def extra_evidence(results):
    n_split = sum(1 for r in results if not r["abnormal"] and r["case"].get("k") == "split")
    return {"spec_validation": {
        "Spec.splitlines(is_py_break) == str.splitlines on every split text (part of agree)": n_split,
        "CPython tables probed over all code points/bytes and required equal to the Coq predicates "
        "(obligations C19_py_*)": ["str.splitlines breaks", "bytes.splitlines breaks", "str.lstrip set",
                                   "bytes.lstrip set", "json white space", "\\r\\n is one break"]}}


def shrink(case):
    """smaller cases: drop chunks of the content, drop block sizes."""
    content = expand(case["runs"])
    n = len(content)
    if case["k"] == "rev" and len(case["bs"]) > 1:
        for i in range(len(case["bs"])):
            c = dict(case)
            c["bs"] = case["bs"][:i] + case["bs"][i + 1:]
            yield c
    chunk = max(1, n // 2)
    cnt = 0
    while chunk >= 1 and cnt < 70:
        for s in range(0, n, chunk):
            cand = content[:s] + content[s + chunk:]
            c = dict(case)
            c["runs"] = [[list(p), k] for p, k in rle(cand)]
            if case.get("pos") is not None:
                c["pos"] = min(case["pos"], len(cand))
            cnt += 1
            yield c
        chunk //= 2
