"""C13 funcutils.wraps / update_wrapper: plug-in.

A case is a *base function description* (parameter names per kind, default and annotation objects, metadata,
sync/async, def/lambda, attributes it already carries), a STACK of wraps steps (injected/expected arguments, options,
entry point, argument forms) and a list of call shapes.  run_impl compiles the base function, applies the stack with
the real boltons.funcutils, and reports: inspect.signature of the base function before and after, its __dict__ after,
one more independent wraps(f); per level the own signature, metadata and __dict__ (function objects by identity);
and for every call shape the outcome of calling f directly, what the outermost wrapper received, and the outcome of
calling the outermost function.  Python only moves data; Coq decides (Check/C13_Check.v: agree, holds;
Props/C13.v: C13_agree_implies_holds).  translators() regenerates coq/Gen/C13_Gen.v from the source.
"""
import itertools
from common import cnat, clist, cpair, copt, cbool

ID = "C13"
IMPORTS = "From Boltons Require Import Lib.Prelude Spec.C13_Spec Model.C13_Model Check.C13_Check."
CASE_TYPE = "c13_case"
VERDICT = "c13_verdict"
EXPLAIN = "c13_explain"
CASES_PER_FILE = 60
CASE_TIMEOUT = 20
TIERS = {"quick": {"n": 1500}, "thorough": {"n": 6000, "exhaustive": True}}
RULE = ("base function: 0-4 positional-or-keyword parameters with every default suffix, optional *args, 0-3 keyword-only "
        "parameters each with/without default, optional **kwargs, annotations incl. return, sync/async, def/lambda, "
        "docstring None/''/text, __defaults__ ()/None, default objects incl. None/False/0/''/()/NO_DEFAULT/Ellipsis, and "
        "a pre-existing __dict__ (custom attributes, a __wrapped__ pointing elsewhere, a stale __source__, a truthful "
        "__signature__) x a STACK of 1-3 wraps steps, each plain / injected names present, absent, defaulted / expected "
        "names fresh, clashing, with/without default; via wraps or update_wrapper; update_dict / hide_wrapped options; "
        "str/list/tuple/generator/pairs/dict argument forms; every level observed (signature, metadata, __dict__ with "
        "__wrapped__ by identity) x call shapes on the outermost function (0..npos+2 positional values, subsets of "
        "parameter names as keywords, unknown keywords, names of *args/**kwargs as keywords), forwarded through every "
        "level to the base function when all steps are plain.  The thorough tier enumerates all 1120 signatures of the "
        "design's grid (<=3 positional, <=2 keyword-only) with plain wraps (every third one two levels deep) and all 1440 "
        "combinations of __doc__ None/''/text x __module__ None/str x update_dict x hide_wrapped x inject_to_varkw x "
        "def/lambda/non-identifier __name__ x sync/async x depth 1/2 x plain/inject/expect (a seed-dependent slice of both "
        "grids in the quick tier); in a stack that is not all plain the wrappers of the plain levels on top forward.  "
        "non-trivial = the signature has >= 2 parameter kinds and, among the call shapes, at least one accepted and one "
        "rejected call (or the stack stopped on a non-plain step); distinct = distinct canonical case hash")
ASSUMPTIONS = ["parameter names are distinct valid identifiers; positional-only parameters are outside the property",
               "call keywords are distinct (Python builds them from a dict)",
               "default/argument/annotation objects are compared by identity (token = object)"]
TRUSTED = ["Spec.C13_Spec.bind (Python's argument binding, transcribed) - validated on every case against direct calls "
           "of the real function",
           "Model/C13_Model.v is hand-written; source-text generation, compile/exec and inspect.signature are modelled "
           "structurally and exercised by the correspondence run; Model/C13_Text.v models the generated text",
           "Model.C13_Text.read_arglist stands in for Python's parser of argument lists (text-level theorems only)",
           "harness/c13.py builds the functions, maps objects to tokens by identity and serialises observations"]

# ---- translator (T): regenerate coq/Gen/C13_Gen.v from the source ---------------------------------
# Behaviour, not spelling, is extracted: what FunctionBuilder._KWONLY_MARKER.sub('', s) does on every string
# of length <= 5 over { * , blank a tab }, and the strings get_sig_str / get_invocation_str produce for a grid
# of 36 shapes.  Props/C13.v proves, against this regenerated data, that Model/C13_Text.v (scan = the
# substitution; sig_text / inv_text = the strings, modulo blanks) says the same.  Fails closed.
GEN_NAMES = {1: "a", 2: "b", 4: "d", 5: "e", 6: "args", 11: "kw"}


def _codes(sx):
    return "[" + "; ".join("%d" % ord(c) for c in sx) + "]"


def translators(repo):
    import importlib
    import os
    import re
    fu = importlib.import_module("boltons.funcutils")
    if not os.path.abspath(fu.__file__).startswith(os.path.abspath(repo) + os.sep):
        raise RuntimeError("boltons.funcutils imported from %s, not from %s" % (fu.__file__, repo))
    marker = fu.FunctionBuilder._KWONLY_MARKER
    if not isinstance(marker, re.Pattern):
        raise RuntimeError("_KWONLY_MARKER is not a compiled pattern")
    alphabet = "*, a\t"
    probes = [""]
    frontier = [""]
    for _ in range(5):
        frontier = [p + c for p in frontier for c in alphabet]
        probes += frontier
    lines = ["(* generated by harness/c13.py translators() from %s - do not edit *)" % "boltons/funcutils.py",
             "From Boltons Require Import Lib.Prelude Spec.C13_Spec Model.C13_Model Model.C13_Text.",
             "Local Open Scope N_scope.",
             "Definition gen_render (n : name) : text :=",
             "  match n with"]
    for t, nm in sorted(GEN_NAMES.items()):
        lines.append("  | %d%%nat => %s" % (t, _codes(nm)))
    lines += ["  | _ => [120]", "  end."]
    # the substitution, extensionally
    chunks = []
    for i in range(0, len(probes), 400):
        body = "; ".join("(%s, %s)" % (_codes(p), _codes(marker.sub("", p))) for p in probes[i:i + 400])
        lines.append("Definition gen_probes_%d : list (text * text) := [%s]." % (i // 400, body))
        chunks.append("gen_probes_%d" % (i // 400))
    lines.append("Definition gen_marker_probes : list (list (text * text)) := [%s]." % "; ".join(chunks))
    # the generated strings for a grid of shapes
    shapes = []
    for args in ([], [1], [1, 2]):
        for va in (None, 6):
            for kwo in ([], [4], [4, 5]):
                for vk in (None, 11):
                    fb = fu.FunctionBuilder("f", args=[GEN_NAMES[t] for t in args],
                                            varargs=GEN_NAMES.get(va), varkw=GEN_NAMES.get(vk),
                                            kwonlyargs=[GEN_NAMES[t] for t in kwo])
                    sig = fb.get_sig_str(with_annotations=False)
                    inv = fb.get_invocation_str()
                    if not (isinstance(sig, str) and isinstance(inv, str)):
                        raise RuntimeError("get_sig_str/get_invocation_str did not return str")
                    nat = lambda l: "[" + "; ".join("%d%%nat" % t for t in l) + "]"
                    opt = lambda o: "None" if o is None else "(Some %d%%nat)" % o
                    shapes.append("(mkFB 0%%nat 0%%nat None %s %s %s None %s [] [] false [], %s, %s)"
                                  % (nat(args), opt(va), opt(vk), nat(kwo), _codes(sig), _codes(inv)))
    lines.append("Definition gen_texts : list (fbuilder * text * text) := [\n  %s]." % ";\n  ".join(shapes))
    # the names chosen for the generated source (def name, name the wrapper is bound to), read off __source__
    # of real wraps results for a grid of ASCII function names x parameter names (Model/C13_Names.v)
    import keyword
    lines.append("Definition gen_keywords : list text := [%s]." % "; ".join(_codes(k) for k in keyword.kwlist))
    rows = []
    for fname in ["f", "_call", "-call", "_call_", "class", "1x", "a-b", "", "_func", "__call", "None", "x y", "_"]:
        for params in ([], ["_call"], ["_call", "_call_"], ["a"], ["_func"], ["_call__", "_call_", "_call"],
                       ["a", "*_call"], ["a", "**_call_"], ["_call", "*", "_call_"]):
            ns = {}
            exec("def _tmp_(%s): pass" % ", ".join(params), ns)
            f = ns["_tmp_"]
            f.__name__ = fname
            g = fu.wraps(f)(lambda *a, **k: None)
            src = getattr(g, "__source__", None)
            m = re.fullmatch(r"def ([^\s(]+)\(([^)]*)\):\n    return ([^\s(]+)\(([^)]*)\)", src or "")
            if not m:
                raise RuntimeError("cannot read def name / call name off __source__: %r" % (src,))
            if g.__name__ != fname:
                raise RuntimeError("__name__ not restored: %r" % (g.__name__,))
            pnames = [q.lstrip("*") for q in params if q.strip("*")]
            rows.append("(%s, [%s], %s, %s)" % (_codes(fname), "; ".join(_codes(q) for q in pnames),
                                                _codes(m.group(1)), _codes(m.group(3))))
    lines.append("Definition gen_names : list (text * list text * text * text) := [\n  %s]." % ";\n  ".join(rows))
    return {"C13_Gen": "\n".join(lines) + "\n"}


# ---- token tables ----------------------------------------------------------------
# parameter / keyword names: token >= 1 (0 is 'return' in annotations)
PNAMES = [None, "a", "b", "c", "d", "e", "args", "kwargs", "self", "_call", "_func", "kw", "x1", "\u00f1",
          "z", "_", "cls", "wrapper", "func", "_call_", "key", "default", "y", "w", "opt", "rest",
          "match", "type", "ab", "a_", "kw_only", "arg"]
NAME_TOK = {n: i for i, n in enumerate(PNAMES) if n}
# function names
FNAMES = ["f", "target", "_call", "_func", "<lambda>", "r\u00e9sum\u00e9", "wrapper", "_call_",
          "get-item", "class", "1x", "pkg.mod.fn", "has space", "test[1-2]", "-call", "",   # __name__ need not be an identifier
          "x\u00b2", "\u2460", "\ufb01x", "e\u0301"]    # \w but no identifier character; changed by NFKC (ligature, combining accent)
FNAME_TOK = {n: i for i, n in enumerate(FNAMES)}
LAMBDA = 4
NVALS = 40
_VALS = None
_VID = None
_ANNS = None
_AID = None


NSPECIAL = 8           # value tokens 0..7 are "special" objects: code that tests a default for truth / None /
                       # a sentinel instead of for presence goes wrong exactly on these
NO_DEFAULT_TOK = 5


def worker_init():
    global _VALS, _VID, _ANNS, _AID
    from boltons.funcutils import NO_DEFAULT
    vals = [None, False, 0, "", (), NO_DEFAULT, Ellipsis, 0.0]
    assert len(vals) == NSPECIAL and vals[NO_DEFAULT_TOK] is NO_DEFAULT
    for i in range(NSPECIAL, NVALS):
        vals.append([1000 + i, "s%d" % i, [i], (i, "t"), {"k": i}, i + 0.5][i % 6])
    _VALS = vals
    _VID = {id(v): i for i, v in enumerate(vals)}
    assert len(_VID) == NVALS
    import typing
    anns = [int, str, "fwd", typing.Optional[int], list, None, typing.Any, bytes, float, "x" * 3, dict, tuple]
    _ANNS = anns
    _AID = {id(a): i for i, a in enumerate(anns)}


def vtok(x):
    """Token of a value object (by identity); 97 = an object the harness never created (a copy, a repr ...)."""
    return _VID.get(id(x), 97)


def atok(x):
    return _AID.get(id(x), 97)


def pick_values(rng, k, allow_sentinel=True):
    """k value tokens, nearly half of them special objects (None, False, 0, '', (), the NO_DEFAULT sentinel,
    Ellipsis, 0.0), without repetition so that a default that moves is visible."""
    special = [t for t in range(NSPECIAL) if allow_sentinel or t != NO_DEFAULT_TOK]
    normal = list(range(NSPECIAL, NVALS))
    rng.shuffle(special)
    rng.shuffle(normal)
    out = []
    for _ in range(k):
        if special and rng.random() < 0.45:
            if 0 in special and rng.random() < 0.4:
                special.remove(0)            # None, the most common special default
                out.append(0)
            else:
                out.append(special.pop())
        else:
            out.append(normal.pop())
    return out


def doc_of(tok):
    return None if tok is None else ("" if tok == 0 else "doc %d" % tok)


def doc_tok(doc):
    if doc is None:
        return None
    if doc == "":
        return 0
    if not (isinstance(doc, str) and doc.startswith("doc ") and doc[4:].isdigit()):
        return 98             # some other docstring: Coq will say it is not f's
    return int(doc[4:])


def mod_of(tok):
    return None if tok is None else "mod%d" % tok


def mod_tok(m):
    if m is None:
        return None
    if not (isinstance(m, str) and m.startswith("mod") and m[3:].isdigit()):
        return 98
    return int(m[3:])


# ---- building the function ----------------------------------------------------------
def build_function(fd, seen):
    """Compile the function described by fd.  Its body returns locals()."""
    args = [PNAMES[t] for t in fd["args"]]
    nd = len(fd["defaults"] or [])
    ann = {n: a for n, a in fd["ann"]}
    ns = {"__name__": mod_of(fd["module"]) or "modnone", "_V": _VALS, "_A": _ANNS}
    lam = fd["form"] == "lambda"

    def p(tok, star=""):
        s = star + PNAMES[tok]
        if tok in ann and not lam:
            s += ": _A[%d]" % ann[tok]
        return s
    parts = []
    for i, t in enumerate(fd["args"]):
        s = p(t)
        j = i - (len(args) - nd)
        if j >= 0:
            s += ("=" if (t not in ann or lam) else " = ") + "_V[%d]" % fd["defaults"][j]
        parts.append(s)
    if fd["varargs"] is not None:
        parts.append(p(fd["varargs"], "*"))
    elif fd["kwonly"]:
        parts.append("*")
    kwd = dict(fd["kwdefaults"] or [])
    for t in fd["kwonly"]:
        s = p(t)
        if t in kwd:
            s += "=_V[%d]" % kwd[t]
        parts.append(s)
    if fd["varkw"] is not None:
        parts.append(p(fd["varkw"], "**"))
    fname = FNAMES[fd["name"]]
    if lam:
        src = "_f_ = lambda %s: locals()" % ", ".join(parts)
        exec(compile(src, "<c13-case>", "exec"), ns)
        f = ns["_f_"]
        assert f.__name__ == "<lambda>"
    else:
        ret = (" -> _A[%d]" % ann[0]) if 0 in ann else ""
        import keyword
        import unicodedata
        natural = fname.isidentifier() and not keyword.iskeyword(fname) and unicodedata.normalize("NFKC", fname) == fname
        defname = fname if natural else "_renamed_later_"
        src = "%sdef %s(%s)%s:\n    return locals()\n" % ("async " if fd["async"] else "", defname, ", ".join(parts), ret)
        exec(compile(src, "<c13-case>", "exec"), ns)
        f = ns[defname]
        f.__name__ = fname
    if fd["doc"] is not None:
        f.__doc__ = doc_of(fd["doc"])
    if fd["module"] is None:
        f.__module__ = None
    if fd["defaults"] == [] and fd.get("empty_defaults_tuple"):
        f.__defaults__ = ()
    if fd["kwdefaults"] == []:
        f.__kwdefaults__ = {}
    assert f.__doc__ == doc_of(fd["doc"]) and f.__module__ == mod_of(fd["module"])
    assert (f.__defaults__ is None) == (fd["defaults"] is None or (fd["defaults"] == [] and not fd.get("empty_defaults_tuple")))
    return f, src


def run_coro(c):
    try:
        c.send(None)
    except StopIteration as e:
        return e.value
    raise RuntimeError("coroutine did not finish in one step")


KINDS = None


def obs_sig(sig):
    import inspect
    kinds = {inspect.Parameter.POSITIONAL_OR_KEYWORD: 0, inspect.Parameter.VAR_POSITIONAL: 1,
             inspect.Parameter.KEYWORD_ONLY: 2, inspect.Parameter.VAR_KEYWORD: 3}
    ps = []
    for prm in sig.parameters.values():
        ps.append([NAME_TOK[prm.name], kinds[prm.kind],
                   None if prm.default is prm.empty else vtok(prm.default),
                   None if prm.annotation is prm.empty else atok(prm.annotation)])
    return {"params": ps, "ret": None if sig.return_annotation is sig.empty else atok(sig.return_annotation)}


def obs_binding(names, d):
    """d = locals() of f; report in the order of f's parameters.  names: [(name, kind)] from f's signature
    (kind 1 = *args, 3 = **kwargs)."""
    assert set(d) == {n for n, _ in names}, (names, d)
    out = []
    for n, kind in names:
        v = d[n]
        if kind == 1:
            assert type(v) is tuple, v
            out.append([NAME_TOK[n], "t", [vtok(x) for x in v]])
        elif kind == 3:
            assert type(v) is dict, v
            out.append([NAME_TOK[n], "d", [[NAME_TOK[k], vtok(x)] for k, x in v.items()]])
        else:
            out.append([NAME_TOK[n], "v", vtok(v)])
    return out


def _iterform(items, form):
    if form == "tuple":
        return tuple(items)
    if form == "gen":
        return (x for x in items)
    if form == "iter":
        return iter(list(items))
    return list(items)


ATTRS = ["__wrapped__", "__source__", "__signature__", "tag", "cache", "_private", "hits", "__custom__"]
ATTR_TOK = {n: i for i, n in enumerate(ATTRS)}
BASE_ID = 100          # identity token of the base function; step i creates function 101 + i
FOREIGN_ID = 90        # some unrelated function object a pre-existing __wrapped__ points at
WRAPPER_ID = 200       # the harness's wrapper of level i is 200 + i
STALE_SRC = 3          # value token of a __source__ the base function brought along (1 = a source wraps wrote)
STALE_SOURCE_TEXT = "def not_the_source(): pass"


def obs_dict(g, fids):
    """g.__dict__ as [attr token, value token] pairs; function objects by identity token."""
    import inspect
    out = []
    for k, v in g.__dict__.items():
        if k not in ATTR_TOK:
            continue              # an attribute neither the property nor the model knows (a private marker ...)
        kt = ATTR_TOK[k]
        if k == "__wrapped__":
            vt = fids[id(v)]
        elif k == "__source__":
            assert isinstance(v, str)
            vt = STALE_SRC if v == STALE_SOURCE_TEXT else 1
        elif k == "__signature__":
            assert isinstance(v, inspect.Signature)
            vt = 2
        else:
            vt = vtok(v)
        out.append([kt, vt])
    return out


def _foreign(*a, **k):
    return None


def _step_args(st, funcutils):
    injected = [PNAMES[t] for t in st["injected"]]
    if st["inj_form"] == "str" and len(injected) == 1:
        injected = injected[0]
    elif st["inj_form"] == "set" and len(injected) == 1:
        injected = frozenset(injected)
    elif st["inj_form"] == "dictkeys" and len(set(injected)) == len(injected):
        injected = dict.fromkeys(injected).keys()
    elif st["inj_form"] == "none" and not injected:
        injected = None
    else:
        injected = _iterform(injected, st["inj_form"])
    exp = [(PNAMES[n], funcutils.NO_DEFAULT if d is None else _VALS[d]) for n, d in st["expected"]]
    ef = st["exp_form"]
    if ef == "none" and not exp:
        expected = None
    elif ef == "str" and len(exp) == 1 and exp[0][1] is funcutils.NO_DEFAULT:
        expected = exp[0][0]
    elif ef == "names" and all(d is funcutils.NO_DEFAULT for _, d in exp):
        expected = [n for n, _ in exp]
    elif ef == "dict" and all(d is not funcutils.NO_DEFAULT for _, d in exp) and len(dict(exp)) == len(exp):
        expected = dict(exp)
    elif ef == "mixed":
        expected = [n if d is funcutils.NO_DEFAULT else (n, d) for n, d in exp]
    elif ef == "tuple_pairs":
        expected = tuple([n, d] for n, d in exp)              # pairs as lists, in a tuple
    elif ef == "items_view" and len(dict(exp)) == len(exp):
        expected = dict(exp).items()
    elif ef == "odict" and all(d is not funcutils.NO_DEFAULT for _, d in exp) and len(dict(exp)) == len(exp):
        import collections
        expected = collections.OrderedDict(exp)
    elif ef == "name_tuple" and all(d is funcutils.NO_DEFAULT for _, d in exp):
        expected = tuple(n for n, _ in exp)
    else:
        expected = _iterform(exp, "gen" if ef == "gen" else "list")
    kw = {}
    if not st.get("update_dict", True):
        kw["update_dict"] = False
    if st.get("hide_wrapped", False):
        kw["hide_wrapped"] = True
    if not st.get("inject_to_varkw", True):
        kw["inject_to_varkw"] = False
    return injected, expected, kw


def run_impl(case):
    import inspect
    from boltons import funcutils
    if _VALS is None:
        worker_init()
    fd = case["f"]
    f, src = build_function(fd, None)
    fids = {id(f): BASE_ID, id(_foreign): FOREIGN_ID}
    # attributes the base function already carries (a decorated function, a function with a cache ...)
    for kt, vt in fd.get("dict", []):
        k = ATTRS[kt]
        if k == "__wrapped__":
            f.__wrapped__ = {BASE_ID: f, FOREIGN_ID: _foreign}[vt]
        elif k == "__signature__":
            f.__signature__ = inspect.signature(f, follow_wrapped=False)
        elif k == "__source__":
            f.__source__ = STALE_SOURCE_TEXT
        else:
            setattr(f, k, _VALS[vt])
    assert [ATTR_TOK[k] for k in f.__dict__ if k in ATTR_TOK] == [kt for kt, _ in fd.get("dict", [])]
    fsig = inspect.signature(f, follow_wrapped=False)
    _kinds = {inspect.Parameter.POSITIONAL_OR_KEYWORD: 0, inspect.Parameter.VAR_POSITIONAL: 1,
              inspect.Parameter.KEYWORD_ONLY: 2, inspect.Parameter.VAR_KEYWORD: 3}
    pnames = [(n, _kinds[prm.kind]) for n, prm in fsig.parameters.items()]
    is_async = inspect.iscoroutinefunction(f)
    obs = {"fsig": obs_sig(fsig), "fasync": is_async, "src": src}
    forward = case["forward"]
    saw = []

    lower_saw = []       # what the wrappers of entered lower levels received (partial forwarding only)

    async def _nothing():
        return None

    def make_wrapper(below, top, forwards, entered=False, kind=None):
        """kind: 'async' (async def awaiting the function below; only for async functions), 'def' (plain def
        returning below(*a, **kw)), 'lambda' (the same as a lambda)."""
        kind = kind or ("async" if is_async else "def")

        def record(args, kwargs):
            if top:
                saw.append((args, dict(kwargs)))
            elif entered:
                lower_saw.append((args, dict(kwargs)))

        def passthrough(args, kwargs):
            record(args, kwargs)
            if forwards:
                return below(*args, **kwargs)          # for an async function: its coroutine, un-awaited
            return _nothing() if is_async else None     # something the generated "await" can await
        if kind == "async":
            assert is_async

            async def wrapper(*args, **kwargs):
                record(args, kwargs)
                if forwards:
                    return await below(*args, **kwargs)
                return None
        elif kind == "lambda":
            wrapper = lambda *args, **kwargs: passthrough(args, kwargs)      # noqa: E731
        else:
            def wrapper(*args, **kwargs):
                return passthrough(args, kwargs)
        return wrapper

    def enc_call(a, k):
        return {"pos": [vtok(x) for x in a], "kw": [[NAME_TOK[n], vtok(x)] for n, x in k.items()]}

    extra_seen = [0]

    def do_call(fn, c, coro):
        """Call, and for an async function drive the coroutine to completion the way `await` does; count how many
        awaits MORE than one it takes until a value that is no coroutine appears (98: the call of an async
        function's wrapper gave nothing awaitable at all)."""
        pos = [_VALS[t] for t in c["pos"]]
        kw = {PNAMES[n]: _VALS[v] for n, v in c["kw"]}
        assert len(kw) == len(c["kw"])
        try:
            r = fn(*pos, **kw)
            if coro:
                if not inspect.iscoroutine(r):
                    extra_seen[0] = max(extra_seen[0], 98)
                    return r
                r = run_coro(r)
                extra = 0
                while inspect.iscoroutine(r):
                    extra += 1
                    r = run_coro(r)
                extra_seen[0] = max(extra_seen[0], extra)
        except TypeError:
            return "TypeError"
        return r

    # f directly
    direct = []
    for c in case["calls"]:
        r = do_call(f, c, is_async)
        direct.append(r if r == "TypeError" else obs_binding(pnames, r))
    obs["direct"] = direct

    # the stack of wraps(...)
    levels, fail, cur = [], None, f
    nsteps = len(case["steps"])
    for i, st in enumerate(case["steps"]):
        injected, expected, kw = _step_args(st, funcutils)
        # every wrapper forwards (plain stacks), or only those of the top `partial` levels
        wrapper = make_wrapper(cur, i == nsteps - 1, forward or i >= nsteps - case.get("partial", 0),
                               entered=not forward and i >= nsteps - 1 - case.get("partial", 0),
                               kind=st.get("wkind"))
        fids[id(wrapper)] = WRAPPER_ID + i
        try:
            if st["entry"] == "update_wrapper":
                g = funcutils.update_wrapper(wrapper, cur, injected=injected, expected=expected, **kw)
            else:
                g = funcutils.wraps(cur, injected=injected, expected=expected, **kw)(wrapper)
        except ValueError:
            fail = "ValueError"
            break
        except SyntaxError:
            fail = "SyntaxError"
            break
        assert g is not cur and g is not wrapper
        fids[id(g)] = st["id"]
        levels.append({"sig": obs_sig(inspect.signature(g, follow_wrapped=False)),
                       "name": FNAME_TOK.get(g.__name__, 99), "doc": doc_tok(g.__doc__), "module": mod_tok(g.__module__),
                       "dict": obs_dict(g, fids),
                       "async": inspect.iscoroutinefunction(g), "gsrc": getattr(g, "__source__", None)})
        cur = g
    obs["levels"] = levels
    obs["fail"] = fail
    # wrapping must leave the wrapped function as it was
    obs["fsig_after"] = obs_sig(inspect.signature(f, follow_wrapped=False))
    obs["fdict_after"] = obs_dict(f, fids)
    # ... and one more, independent, plain wraps(f) afterwards must still see f's own signature
    try:
        again = funcutils.wraps(f)(make_wrapper(f, False, True))
        obs["again"] = obs_sig(inspect.signature(again, follow_wrapped=False))
    except (ValueError, SyntaxError):
        obs["again"] = None
    calls = []
    lowers = []
    assert extra_seen[0] == 0, "the original function itself needed %d extra awaits" % extra_seen[0]
    if fail is None:
        for c in case["calls"]:
            del saw[:]
            del lower_saw[:]
            r = do_call(cur, c, is_async)
            assert len(saw) <= 1
            sw = None
            if saw:
                a, k = saw[0]
                sw = {"pos": [vtok(x) for x in a], "kw": [[NAME_TOK[n], vtok(x)] for n, x in k.items()]}
            if r == "TypeError":
                out = "TypeError"
            elif forward:
                out = obs_binding(pnames, r)
            else:
                assert r is None
                out = []
            calls.append({"saw": sw, "out": out})
            lowers.append([enc_call(a, k) for a, k in lower_saw])
    obs["top_calls"] = calls
    obs["lower_saws"] = lowers
    obs["extra"] = extra_seen[0]
    return obs


# ---- rendering ---------------------------------------------------------------------------
def _on(x):
    return copt(None if x is None else cnat(x))


KIND_NAMES = ["PosOrKw", "VarPos", "KwOnly", "VarKw"]


def _sig(s):
    return "(mkSig %s %s)" % (clist("mkP %s %s %s %s" % (cnat(n), KIND_NAMES[k], _on(d), _on(a))
                                    for n, k, d, a in s["params"]), _on(s["ret"]))


def _nv(pairs):
    return clist(cpair(cnat(n), cnat(v)) for n, v in pairs)


def _call(c):
    return "(mkCall %s %s)" % (clist(cnat(v) for v in c["pos"]), _nv(c["kw"]))


def _bval(kind, v):
    if kind == "v":
        return "BV %s" % cnat(v)
    if kind == "t":
        return "BTuple %s" % clist(cnat(x) for x in v)
    return "BDict %s" % _nv(v)


def _rb(r):
    if r == "TypeError":
        return "(Raise TypeError)"
    return "(Ok %s)" % clist(cpair(cnat(n), _bval(k, v)) for n, k, v in r)


def _olist(l, f):
    return "None" if l is None else "(Some %s)" % f(l)


def _pyfunc(fd):
    defaults = fd["defaults"]
    if defaults == [] and not fd.get("empty_defaults_tuple"):
        defaults = None
    return "(mkF %s %s %s %s %s %s %s %s %s %s %s %s %s)" % (
        cnat(fd["name"]), _on(fd["doc"]), _on(fd["module"]),
        clist(cnat(t) for t in fd["args"]), _on(fd["varargs"]),
        clist(cnat(t) for t in fd["kwonly"]), _on(fd["varkw"]),
        _olist(defaults, lambda l: clist(cnat(v) for v in l)),
        _olist(fd["kwdefaults"], _nv),
        _nv([(n, a) for n, a in fd["ann"] if not (fd["form"] == "lambda")]),
        cbool(fd["async"]), cnat(BASE_ID), _nv(fd.get("dict", [])))


EXN = {"ValueError": "ValueError", "SyntaxError": "(OtherExn 1%nat)", "TypeError": "TypeError"}


def _step(st):
    return "(mkStep %s %s (mkOpt %s %s %s) %s)" % (
        clist(cnat(t) for t in st["injected"]), clist(cpair(cnat(n), _on(d)) for n, d in st["expected"]),
        cbool(st.get("update_dict", True)), cbool(st.get("hide_wrapped", False)),
        cbool(st.get("inject_to_varkw", True)), cnat(st["id"]))


def to_coq(case, obs):
    levels = clist("(mkBO %s %s %s %s %s %s)" % (_sig(b["sig"]), cnat(b["name"]), _on(b["doc"]), _on(b["module"]),
                                                  _nv(b["dict"]), cbool(b["async"])) for b in obs["levels"])
    fail = "None" if obs["fail"] is None else "(Some %s)" % EXN[obs["fail"]]
    return "mkCase %s %s %s %s %s %s %s %s %s %s %s %s %s %s %s %s %s" % (
        _pyfunc(case["f"]), clist(_step(st) for st in case["steps"]), cbool(case["forward"]), cnat(case.get("partial", 0)),
        clist("WAsync" if st.get("wkind", "async" if case["f"]["async"] else "def") == "async" else "WSync"
              for st in case["steps"]),
        clist(_call(c) for c in case["calls"]),
        _sig(obs["fsig"]), cbool(obs["fasync"]), clist(_rb(r) for r in obs["direct"]),
        _sig(obs["fsig_after"]), _nv(obs["fdict_after"]),
        "None" if obs["again"] is None else "(Some %s)" % _sig(obs["again"]), levels, fail,
        clist(cpair("None" if c["saw"] is None else "(Some %s)" % _call(c["saw"]), _rb(c["out"]))
              for c in obs["top_calls"]),
        cnat(obs["extra"]),
        clist(clist(_call(x) for x in l) for l in obs["lower_saws"]))


# ---- generation -----------------------------------------------------------------------------
def make_fd(rng, npos, nd, varargs, kwonly_defaults, varkw, annotate, is_async, form="def", names=None):
    """kwonly_defaults: list of bool (has default) per keyword-only parameter."""
    nk = len(kwonly_defaults)
    need = npos + nk + int(varargs) + int(varkw)
    pool = names or rng.sample(range(1, len(PNAMES)), need)
    it = iter(pool)
    args = [next(it) for _ in range(npos)]
    va = next(it) if varargs else None
    kwonly = [next(it) for _ in range(nk)]
    vk = next(it) if varkw else None
    vals = pick_values(rng, nd + nk)
    defaults = vals[:nd] if nd else None
    kwd = [[k, vals[nd + i]] for i, k in enumerate(kwonly) if kwonly_defaults[i]] or None
    ann = []
    if annotate and form != "lambda":
        cand = args + ([va] if va else []) + kwonly + ([vk] if vk else []) + [0]
        for n in cand:
            if annotate == "all" or rng.random() < 0.6:
                ann.append([n, rng.randrange(12)])
    fd = {"name": LAMBDA if form == "lambda" else (rng.choice(range(8, len(FNAMES))) if rng.random() < 0.2 else rng.choice([0, 0, 0, 1, 2, 3, 5, 6, 7])),
          "doc": rng.choice([None, None, 0, 1, 2]), "module": rng.choice([None, 1, 1, 2]),
          "args": args, "varargs": va, "kwonly": kwonly, "varkw": vk,
          "defaults": defaults, "kwdefaults": kwd, "ann": ann,
          "async": bool(is_async) and form != "lambda", "form": form}
    if defaults is None and rng.random() < 0.08:
        fd["defaults"] = []
        fd["empty_defaults_tuple"] = True
    if kwd is None and nk and rng.random() < 0.08:
        fd["kwdefaults"] = []
    fd["dict"] = make_dict(rng)
    return fd


def all_call_shapes(fd, extra_names):
    """Every call with 0..npos+2 positional values and every subset of (parameter names + extra names) as keywords."""
    names = list(dict.fromkeys(fd["args"] + fd["kwonly"] + list(extra_names)))
    shapes = []
    for np_ in range(0, len(fd["args"]) + 3):
        for r in range(0, len(names) + 1):
            for sub in itertools.combinations(names, r):
                shapes.append((np_, sub))
    return shapes


def make_calls(rng, fd, ncalls, extra_pool=()):
    used = set(fd["args"] + fd["kwonly"]) | {fd["varargs"], fd["varkw"]}
    unknown = [t for t in range(1, len(PNAMES)) if t not in used]
    extra = [rng.choice(unknown)]
    if fd["varargs"] is not None and rng.random() < 0.5:
        extra.append(fd["varargs"])          # the name of *args / **kwargs given as a keyword
    if fd["varkw"] is not None and rng.random() < 0.5:
        extra.append(fd["varkw"])
    extra += [t for t in extra_pool if t not in used and t not in extra]
    shapes = all_call_shapes(fd, extra)
    if len(shapes) > ncalls:
        # keep the accepting region well represented: bias to few positionals / all required names
        shapes = rng.sample(shapes, ncalls)
    calls = []
    for np_, sub in shapes:
        sub = list(sub)
        rng.shuffle(sub)
        vals = [rng.randrange(NVALS) for _ in range(np_ + len(sub))]
        calls.append({"pos": vals[:np_], "kw": [[n, vals[np_ + i]] for i, n in enumerate(sub)]})
    return calls


def accepting_call(rng, fd, style):
    """A call shape that binds: required parameters by position or keyword."""
    nreq = len(fd["args"]) - len(fd["defaults"] or [])
    if style == 0:
        np_ = rng.randint(nreq, len(fd["args"]) + (2 if fd["varargs"] is not None else 0))
    else:
        np_ = rng.randint(0, len(fd["args"]))
    kw = [n for n in fd["args"][np_:nreq]]
    kw += [n for n in fd["args"][max(np_, nreq):] if rng.random() < 0.5]
    kwd = dict(fd["kwdefaults"] or [])
    kw += [n for n in fd["kwonly"] if n not in kwd or rng.random() < 0.5]
    if fd["varkw"] is not None and rng.random() < 0.6:
        used = set(fd["args"] + fd["kwonly"])
        kw += rng.sample([t for t in range(1, len(PNAMES)) if t not in used], rng.randint(1, 2))
    rng.shuffle(kw)
    vals = [rng.randrange(NVALS) for _ in range(np_ + len(kw))]
    return {"pos": vals[:np_], "kw": [[n, vals[np_ + i]] for i, n in enumerate(kw)]}


def make_step(rng, cur, variant, sid):
    """One wraps step against the current parameter names cur = {args, kwonly, varargs, varkw}; returns the step and
    the names the result should have (failures are not simulated: then the stack simply stops)."""
    injected, expected = [], []
    params = cur["args"] + cur["kwonly"]
    used = set(params) | {cur["varargs"], cur["varkw"]}
    fresh = [t for t in range(1, len(PNAMES)) if t not in used]
    if variant in ("inject", "both"):
        for _ in range(rng.choice([1, 1, 2])):
            r = rng.random()
            if cur.get("defaulted") and r < 0.45:
                injected.append(rng.choice(cur["defaulted"]))   # a parameter that has a default
            elif params and r < 0.8:
                injected.append(rng.choice(params))
            elif r < 0.9:
                injected.append(rng.choice(fresh))
            else:
                injected.append(rng.choice([t for t in (cur["varargs"], cur["varkw"]) if t is not None] or fresh))
    if variant in ("expect", "both"):
        for _ in range(rng.choice([1, 1, 2])):
            r = rng.random()
            if r < 0.7:
                n = rng.choice(fresh)
            elif r < 0.9 and injected:
                n = rng.choice(injected)
            else:
                n = rng.choice(sorted(t for t in used if t is not None) or fresh)
            expected.append([n, rng.choice([None] + pick_values(rng, 2, allow_sentinel=False))])
    st = {"injected": injected,
          "inj_form": rng.choice(["list", "tuple", "gen", "str", "set", "dictkeys"] if injected else ["none", "list"]),
          "expected": expected,
          "exp_form": rng.choice(["pairs", "gen", "str", "names", "dict", "mixed", "tuple_pairs", "items_view", "odict",
                                  "name_tuple"] if expected else ["none", "pairs"]),
          "entry": rng.choice(["wraps", "wraps", "update_wrapper"]),
          "update_dict": rng.random() >= 0.1, "hide_wrapped": rng.random() < 0.1,
          "inject_to_varkw": not (injected and rng.random() < 0.25), "id": sid}
    new_args = [a for a in cur["args"] if a not in injected]
    for n, _ in expected:
        if n not in new_args and (n not in used or n in injected):
            new_args.append(n)
    nxt = dict(cur, args=new_args, kwonly=[a for a in cur["kwonly"] if a not in injected],
               defaulted=[a for a in cur.get("defaulted", []) if a not in injected] + [n for n, d in expected if d is not None])
    return st, nxt


def make_dict(rng):
    """Attributes the base function already carries: none / custom ones / it is itself a decorated function
    (__wrapped__ pointing elsewhere or at itself, a stale __source__, a truthful __signature__)."""
    r = rng.random()
    if r < 0.55:
        return []
    d = []
    for kt in rng.sample(range(8), rng.randint(1, 4)):
        if kt == 0:
            d.append([0, FOREIGN_ID])
        elif kt == 1:
            d.append([1, STALE_SRC])
        elif kt == 2:
            d.append([2, 2])
        else:
            d.append([kt, rng.randrange(NVALS)])
    return d


def make_case(rng, fd, ncalls, variant, depth=1, variants=None):
    nd = len(fd["defaults"] or [])
    cur = {"args": list(fd["args"]), "kwonly": list(fd["kwonly"]), "varargs": fd["varargs"], "varkw": fd["varkw"],
           "defaulted": fd["args"][len(fd["args"]) - nd:] + [k for k, _ in (fd["kwdefaults"] or [])]}
    steps = []
    for i in range(depth):
        v = variants[i] if variants else (variant if i == 0 else rng.choice(["plain", "plain", "inject", "expect", "both"]))
        st, cur = make_step(rng, cur, v, BASE_ID + 1 + i)
        steps.append(st)
    plain = all(not st["injected"] and not st["expected"] for st in steps)
    # the call shapes are drawn against the signature the outermost result should have
    fd2 = dict(fd)
    if not plain:
        fd2 = dict(fd, args=cur["args"], kwonly=cur["kwonly"])
        fd2["defaults"] = None
    calls = make_calls(rng, fd2, ncalls)
    for s in (0, 1, 1):
        calls.append(accepting_call(rng, fd, s))
    # in a stack that is not all plain, the wrappers of the plain levels on top forward, so that calls run
    # through the generated bodies of those levels and of the first level below them
    for st in steps:
        # the decorator's wrapper: a plain def / a lambda passing its arguments on, or (async functions) an async def
        st["wkind"] = rng.choice(["def", "async", "lambda", "def", "async"] if fd["async"] else ["def", "def", "lambda"])
    partial = 0
    if not plain:
        for st in reversed(steps):
            if st["injected"] or st["expected"]:
                break
            partial += 1
    return {"f": fd, "steps": steps, "forward": plain, "partial": partial, "calls": calls}


def grid():
    """The design's grid: <=3 positional (every default suffix), optional *args, <=2 keyword-only (each with/without
    default), optional **kw, annotations on/off, sync/async: 1120 signatures."""
    for npos in range(4):
        for nd in range(npos + 1):
            for va in (0, 1):
                for nk in range(3):
                    for kd in itertools.product((False, True), repeat=nk):
                        for vk in (0, 1):
                            for annot in (None, "all"):
                                for asy in (0, 1):
                                    yield (npos, nd, va, list(kd), vk, annot, asy)


def options_grid():
    """Metadata x options x kind of function x depth, for one small signature: every combination (864)."""
    for doc in (None, 0, 2):
        for module in (None, 1):
            for ud in (True, False):
                for hw in (False, True):
                    for tv in (True, False):
                        for kind in ("def", "lambda", "nonident"):
                            for asy in (False, True):
                                for depth in (1, 2):
                                    for variant in ("plain", "inject", "expect"):
                                        if kind == "lambda" and asy:
                                            continue
                                        yield (doc, module, ud, hw, tv, kind, asy, depth, variant)


def options_case(rng, spec, ncalls):
    doc, module, ud, hw, tv, kind, asy, depth, variant = spec
    form = "lambda" if kind == "lambda" else "def"
    fd = make_fd(rng, 2, 1, rng.random() < 0.5, [True], rng.random() < 0.5, None if form == "lambda" else "all", asy, form)
    fd["doc"], fd["module"] = doc, module
    if kind == "nonident":
        fd["name"] = rng.choice(range(8, len(FNAMES)))
    elif kind == "def":
        fd["name"] = rng.choice([0, 1, 5])
    case = make_case(rng, fd, ncalls, variant, depth=depth, variants=[variant] + ["plain"] * (depth - 1))
    for st in case["steps"]:
        st["update_dict"], st["hide_wrapped"], st["inject_to_varkw"] = ud, hw, tv
    return case


def generate(rng, tier, n):
    ncalls = 14 if tier == "quick" else 40
    count = 0
    og = list(options_grid())
    for spec in (og if tier == "thorough" else rng.sample(og, min(len(og), n // 8))):
        yield options_case(rng, spec, 8 if tier == "quick" else 20)
        count += 1
    if tier == "thorough":
        for (npos, nd, va, kd, vk, annot, asy) in grid():
            fd = make_fd(rng, npos, nd, va, kd, vk, annot, asy)
            yield make_case(rng, fd, 60, "plain", depth=1 + (count % 3 == 2))
            count += 1
    else:
        # a seed-dependent slice of the grid
        g = list(grid())
        for spec in rng.sample(g, min(len(g), n // 6)):
            npos, nd, va, kd, vk, annot, asy = spec
            fd = make_fd(rng, npos, nd, va, kd, vk, annot, asy)
            yield make_case(rng, fd, ncalls, "plain", depth=rng.choice([1, 1, 2]),
                            variants=["plain", "plain"])
            count += 1
    while count < n:
        npos = rng.choice([0, 1, 1, 2, 2, 2, 3, 3, 3, 4, 4, 5, 6])
        nd = rng.randint(0, npos)
        nk = rng.choice([0, 0, 0, 1, 1, 1, 2, 2, 3, 4])
        kd = [rng.random() < 0.5 for _ in range(nk)]
        form = "lambda" if rng.random() < 0.08 else "def"
        fd = make_fd(rng, npos, nd, rng.random() < 0.5, kd, rng.random() < 0.5,
                     rng.choice([None, "some", "all"]), rng.random() < 0.3, form)
        variant = rng.choice(["plain", "plain", "inject", "inject", "expect", "expect", "both"])
        depth = rng.choice([1, 1, 1, 1, 2, 2, 3])
        variants = None
        r_ = rng.random()
        if depth > 1 and r_ < 0.35:
            variants = ["plain"] * depth                      # a stack of pass-through decorators
        elif depth > 1 and r_ < 0.65:
            # a modifying decorator with pass-through decorators stacked on top: their wrappers forward
            variants = [rng.choice(["inject", "expect", "both"])] + ["plain"] * (depth - 1)
        yield make_case(rng, fd, ncalls, variant, depth=depth, variants=variants)
        count += 1


# ---- canary, evidence ---------------------------------------------------------------------------
def corrupt(case, obs):
    """A wrong observation: a default moved in an observed signature, __wrapped__ pointing one level too deep, a
    forwarded value changed, or a rejection turned into an acceptance (rotating)."""
    import copy
    if not obs.get("levels"):
        return None
    bad = copy.deepcopy(obs)
    kind = len(case["calls"]) % 3
    if kind == 1:
        for b in bad["levels"]:
            for e in b["dict"]:
                if e[0] == 0:
                    e[1] = e[1] - 1 if e[1] > BASE_ID else FOREIGN_ID
                    return bad
    if kind != 2:
        for b in bad["levels"]:
            for p in b["sig"]["params"]:
                if p[2] is not None:
                    p[2] = (p[2] + 1) % NVALS
                    return bad
    for c in bad["top_calls"]:
        if isinstance(c["out"], list) and c["out"]:
            for e in c["out"]:
                if e[1] == "v":
                    e[2] = (e[2] + 1) % NVALS
                    return bad
    for c in bad["top_calls"]:
        if c["out"] == "TypeError":
            c["out"] = []
            c["saw"] = {"pos": [], "kw": []}
            return bad
    return None


def nontrivial(case, obs):
    if obs.get("fail") is not None or not obs.get("top_calls"):
        return any(st["injected"] or st["expected"] for st in case["steps"])
    kinds = {p[1] for p in obs["fsig"]["params"]}
    outs = [c["out"] == "TypeError" for c in obs["top_calls"]]
    return len(kinds) >= 2 and any(outs) and not all(outs)


def distribution(d, case, obs):
    def inc(k, sub):
        d.setdefault(k, {})
        d[k][sub] = d[k].get(sub, 0) + 1
    fd = case["f"]
    inc("shape", "pos%d/def%d/%s/kwo%d/%s" % (len(fd["args"]), len(fd["defaults"] or []), "va" if fd["varargs"] else "-",
                                             len(fd["kwonly"]), "vk" if fd["varkw"] else "-"))
    inc("stack_depth", str(len(case["steps"])))
    inc("levels_built", str(len(obs.get("levels", []))))
    for st in case["steps"]:
        inc("step_variant", "plain" if not (st["injected"] or st["expected"]) else
            "+".join(x for x, y in (("inject", st["injected"]), ("expect", st["expected"])) if y))
        inc("entry", st["entry"])
        inc("options", "update_dict=%s,hide_wrapped=%s,inject_to_varkw=%s"
            % (st.get("update_dict", True), st.get("hide_wrapped", False), st.get("inject_to_varkw", True)))
    inc("base_dict", ",".join(sorted(ATTRS[k] if k < 3 else "custom" for k, _ in fd.get("dict", []))) or "empty")
    if any(k == 0 for k, _ in fd.get("dict", [])) or len(case["steps"]) > 1:
        inc("wrapped_function_already_has___wrapped__", "yes")
    inc("form", ("async " if fd["async"] else "") + fd["form"])
    inc("stack", "stopped:" + obs["fail"] if obs.get("fail") else "built")
    for st in case["steps"]:
        inc("wrapper_kind", ("async f / " if fd["async"] else "sync f / ") + st.get("wkind", "default"))
    inc("forwarding", "to f" if case["forward"] else "through %d lower levels" % case.get("partial", 0))
    for c in obs.get("top_calls", []):
        inc("call_outcome", "TypeError" if c["out"] == "TypeError" else "accepted")
    d["calls_total"] = d.get("calls_total", 0) + len(case["calls"])


def sample(case, obs):
    return {"source_of_f": obs.get("src"), "base_dict": case["f"].get("dict"), "steps": case["steps"],
            "levels": [{"source": b.get("gsrc"), "signature": b["sig"], "dict": b["dict"]} for b in obs.get("levels", [])],
            "stopped_by": obs.get("fail"),
            "first_calls": [{"call": c, "direct": dr, "via_wrappers": o}
                            for c, dr, o in zip(case["calls"][:3], obs["direct"][:3],
                                                (obs.get("top_calls") or [None] * 3)[:3])]}


def shrink(case):
    calls = case["calls"]
    if len(calls) > 1:
        half = len(calls) // 2
        for sub in (calls[:half], calls[half:]):
            yield dict(case, calls=sub)
        if len(calls) <= 8:
            for i in range(len(calls)):
                yield dict(case, calls=calls[:i] + calls[i + 1:])
    steps = case["steps"]
    if case.get("partial", 0):
        yield dict(case, partial=0)
    if len(steps) > 1 and not case.get("partial", 0):
        yield dict(case, steps=steps[:-1])
    for i, st in enumerate(steps):
        for key in ("injected", "expected"):
            if len(st[key]) >= 1:
                for j in range(len(st[key])):
                    st2 = dict(st)
                    st2[key] = st[key][:j] + st[key][j + 1:]
                    yield dict(case, steps=steps[:i] + [st2] + steps[i + 1:])
    fd = case["f"]
    if fd.get("dict"):
        for j in range(len(fd["dict"])):
            yield dict(case, f=dict(fd, dict=fd["dict"][:j] + fd["dict"][j + 1:]))
    if fd["ann"]:
        yield dict(case, f=dict(fd, ann=[]))
    if fd["async"]:
        yield dict(case, f=dict(fd, **{"async": False}))


def extra_evidence(results):
    """How often the run reached the regimes that matter (counted on the cases actually evaluated)."""
    cnt = {"stacked_cases": 0, "wrapped_function_already_had___wrapped__": 0, "levels_observed": 0,
           "injected_a_defaulted_positional": 0, "injected_a_positional_whose_default_is_None": 0,
           "injected_a_positional_with_another_special_default": 0, "expected_with_special_default": 0,
           "stack_stopped_by_error": 0, "forwarded_through_2_or_more_levels": 0, "function_name_not_identifier": 0,
           "hide_wrapped_steps": 0, "update_dict_false_steps": 0}
    for r in results:
        if r.get("abnormal"):
            continue
        c, o = r["case"], r["obs"]
        fd = c["f"]
        steps = c["steps"]
        cnt["levels_observed"] += len(o.get("levels", []))
        if len(steps) > 1:
            cnt["stacked_cases"] += 1
            if c["forward"] and o.get("fail") is None:
                cnt["forwarded_through_2_or_more_levels"] += 1
        if any(k == 0 for k, _ in fd.get("dict", [])) or len(o.get("levels", [])) > 1:
            cnt["wrapped_function_already_had___wrapped__"] += 1
        if o.get("fail"):
            cnt["stack_stopped_by_error"] += 1
        if fd["name"] >= 8:
            cnt["function_name_not_identifier"] += 1
        D = fd["defaults"] or []
        dd = dict(zip(fd["args"][len(fd["args"]) - len(D):], D))
        st = steps[0]
        inj = [a for a in st["injected"] if a in dd]
        if inj:
            cnt["injected_a_defaulted_positional"] += 1
            if any(dd[a] == 0 for a in inj):
                cnt["injected_a_positional_whose_default_is_None"] += 1
            if any(0 < dd[a] < NSPECIAL for a in inj):
                cnt["injected_a_positional_with_another_special_default"] += 1
        for s_ in steps:
            if any(d is not None and d < NSPECIAL for _, d in s_["expected"]):
                cnt["expected_with_special_default"] += 1
            cnt["hide_wrapped_steps"] += bool(s_.get("hide_wrapped"))
            cnt["update_dict_false_steps"] += not s_.get("update_dict", True)
    ncalls = sum(len(r["case"]["calls"]) for r in results if not r.get("abnormal"))
    return {"regimes_reached": cnt,
            "spec_validation": {"reference": "the CPython interpreter: the real base function called directly on every "
                                             "call shape; Coq checks Spec.bind(observed signature, call) = observed "
                                             "outcome (frame or TypeError) inside holds",
                                "pairs_compared": ncalls}}
