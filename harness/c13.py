"""C13 funcutils.wraps / update_wrapper: plug-in.

A case is a *function description* (parameter names per kind, default and
annotation objects, metadata, sync/async, def/lambda), the injected/expected
arguments of wraps, and a list of call shapes.  run_impl compiles the function,
wraps it with the real boltons.funcutils, and reports inspect.signature of both,
the metadata, and for every call shape: the outcome of calling f directly, what
the wrapper received, and the outcome of calling the wrapped function.  Python
only moves data; Coq decides (Check/C13_Check.v).
"""
import itertools
from common import cnat, clist, cpair, copt, cbool

ID = "C13"
IMPORTS = "From Boltons Require Import Lib.Prelude Spec.C13_Spec Model.C13_Model Check.C13_Check."
CASE_TYPE = "c13_case"
VERDICT = "c13_verdict"
EXPLAIN = "c13_explain"
CASES_PER_FILE = 60
CASE_TIMEOUT = 20
TIERS = {"quick": {"n": 1000}, "thorough": {"n": 9000, "exhaustive": True}}
RULE = ("function signatures (0-4 positional-or-keyword parameters with every default suffix, optional *args, 0-3 "
        "keyword-only parameters each with/without default, optional **kwargs, annotations incl. return, sync/async, "
        "def/lambda, docstring None/''/text, __defaults__ ()/None) x wraps variants (plain; injected names present/"
        "absent; expected names fresh/clashing, with/without default; via wraps or update_wrapper; str/list/tuple/"
        "pairs/dict argument forms) x call shapes (0..npos+2 positional values, subsets of parameter names as "
        "keywords, unknown keywords, names of *args/**kwargs as keywords).  The thorough tier enumerates all 1120 "
        "signatures of the design's grid (<=3 positional, <=2 keyword-only) with plain wraps.  non-trivial = the "
        "signature has >= 2 parameter kinds and, among the call shapes, at least one accepted and one rejected call; "
        "distinct = distinct canonical case hash")
ASSUMPTIONS = ["parameter names are distinct valid identifiers; positional-only parameters are outside the property",
               "call keywords are distinct (Python builds them from a dict)",
               "default/argument/annotation objects are compared by identity (token = object)"]
TRUSTED = ["Spec.C13_Spec.bind (Python's argument binding, transcribed) - validated on every case against direct calls "
           "of the real function",
           "Model/C13_Model.v is hand-written; source-text generation, compile/exec and inspect.signature are modelled "
           "structurally and exercised by the correspondence run; Model/C13_Text.v models the generated text",
           "harness/c13.py builds the functions and serialises observations"]

# ---- token tables ----------------------------------------------------------------
# parameter / keyword names: token >= 1 (0 is 'return' in annotations)
PNAMES = [None, "a", "b", "c", "d", "e", "args", "kwargs", "self", "_call", "_func", "kw", "x1", "\u00f1",
          "z", "_", "cls", "wrapper", "func", "_call_", "key", "default", "y", "w", "opt", "rest"]
NAME_TOK = {n: i for i, n in enumerate(PNAMES) if n}
# function names
FNAMES = ["f", "target", "_call", "_func", "<lambda>", "r\u00e9sum\u00e9", "wrapper", "_call_"]
FNAME_TOK = {n: i for i, n in enumerate(FNAMES)}
LAMBDA = 4
NVALS = 40
_VALS = None
_VID = None
_ANNS = None
_AID = None


def worker_init():
    global _VALS, _VID, _ANNS, _AID
    vals = [None]
    for i in range(1, NVALS):
        vals.append([1000 + i, "s%d" % i, [i], (i, "t"), {"k": i}, i + 0.5][i % 6])
    _VALS = vals
    _VID = {id(v): i for i, v in enumerate(vals)}
    import typing
    anns = [int, str, "fwd", typing.Optional[int], list, None, typing.Any, bytes, float, "x" * 3, dict, tuple]
    _ANNS = anns
    _AID = {id(a): i for i, a in enumerate(anns)}


def doc_of(tok):
    return None if tok is None else ("" if tok == 0 else "doc %d" % tok)


def doc_tok(doc):
    if doc is None:
        return None
    if doc == "":
        return 0
    assert doc.startswith("doc "), doc
    return int(doc[4:])


def mod_of(tok):
    return None if tok is None else "mod%d" % tok


def mod_tok(m):
    if m is None:
        return None
    assert m.startswith("mod"), m
    return int(m[3:])


# ---- building the function ----------------------------------------------------------
def build_function(fd, seen):
    """Compile the function described by fd.  Its body returns locals()."""
    args = [PNAMES[t] for t in fd["args"]]
    nd = len(fd["defaults"] or [])
    ann = {n: a for n, a in fd["ann"]}
    ns = {"__name__": mod_of(fd["module"]) or "modnone", "_V": _VALS, "_A": _ANNS}
    lam = fd["form"] == "lambda"

    def p(tok, star=""):
        s = star + PNAMES[tok]
        if tok in ann and not lam:
            s += ": _A[%d]" % ann[tok]
        return s
    parts = []
    for i, t in enumerate(fd["args"]):
        s = p(t)
        j = i - (len(args) - nd)
        if j >= 0:
            s += ("=" if (t not in ann or lam) else " = ") + "_V[%d]" % fd["defaults"][j]
        parts.append(s)
    if fd["varargs"] is not None:
        parts.append(p(fd["varargs"], "*"))
    elif fd["kwonly"]:
        parts.append("*")
    kwd = dict(fd["kwdefaults"] or [])
    for t in fd["kwonly"]:
        s = p(t)
        if t in kwd:
            s += "=_V[%d]" % kwd[t]
        parts.append(s)
    if fd["varkw"] is not None:
        parts.append(p(fd["varkw"], "**"))
    fname = FNAMES[fd["name"]]
    if lam:
        src = "_f_ = lambda %s: locals()" % ", ".join(parts)
        exec(compile(src, "<c13-case>", "exec"), ns)
        f = ns["_f_"]
        assert f.__name__ == "<lambda>"
    else:
        ret = (" -> _A[%d]" % ann[0]) if 0 in ann else ""
        src = "%sdef %s(%s)%s:\n    return locals()\n" % ("async " if fd["async"] else "", fname, ", ".join(parts), ret)
        exec(compile(src, "<c13-case>", "exec"), ns)
        f = ns[fname]
    if fd["doc"] is not None:
        f.__doc__ = doc_of(fd["doc"])
    if fd["module"] is None:
        f.__module__ = None
    if fd["defaults"] == [] and fd.get("empty_defaults_tuple"):
        f.__defaults__ = ()
    if fd["kwdefaults"] == []:
        f.__kwdefaults__ = {}
    assert f.__doc__ == doc_of(fd["doc"]) and f.__module__ == mod_of(fd["module"])
    assert (f.__defaults__ is None) == (fd["defaults"] is None or (fd["defaults"] == [] and not fd.get("empty_defaults_tuple")))
    return f, src


def run_coro(c):
    try:
        c.send(None)
    except StopIteration as e:
        return e.value
    raise RuntimeError("coroutine did not finish in one step")


KINDS = None


def obs_sig(sig):
    import inspect
    kinds = {inspect.Parameter.POSITIONAL_OR_KEYWORD: 0, inspect.Parameter.VAR_POSITIONAL: 1,
             inspect.Parameter.KEYWORD_ONLY: 2, inspect.Parameter.VAR_KEYWORD: 3}
    ps = []
    for prm in sig.parameters.values():
        ps.append([NAME_TOK[prm.name], kinds[prm.kind],
                   None if prm.default is prm.empty else _VID[id(prm.default)],
                   None if prm.annotation is prm.empty else _AID[id(prm.annotation)]])
    return {"params": ps, "ret": None if sig.return_annotation is sig.empty else _AID[id(sig.return_annotation)]}


def obs_binding(names, d):
    """d = locals() of f; report in the order of f's parameters."""
    assert set(d) == set(names), (names, d)
    out = []
    for n in names:
        v = d[n]
        if id(v) in _VID:
            out.append([NAME_TOK[n], "v", _VID[id(v)]])
        elif isinstance(v, tuple):
            out.append([NAME_TOK[n], "t", [_VID[id(x)] for x in v]])
        else:
            assert type(v) is dict, v
            out.append([NAME_TOK[n], "d", [[NAME_TOK[k], _VID[id(x)]] for k, x in v.items()]])
    return out


def _iterform(items, form):
    if form == "tuple":
        return tuple(items)
    if form == "gen":
        return (x for x in items)
    if form == "iter":
        return iter(list(items))
    return list(items)


def run_impl(case):
    import inspect
    from boltons import funcutils
    if _VALS is None:
        worker_init()
    fd = case["f"]
    f, src = build_function(fd, None)
    fsig = inspect.signature(f)
    pnames = list(fsig.parameters)
    obs = {"fsig": obs_sig(fsig), "fasync": inspect.iscoroutinefunction(f), "src": src}
    forward = case["forward"]
    is_async = inspect.iscoroutinefunction(f)
    saw = []
    if is_async:
        async def wrapper(*args, **kwargs):
            saw.append((args, dict(kwargs)))
            if forward:
                return await f(*args, **kwargs)
            return None
    else:
        def wrapper(*args, **kwargs):
            saw.append((args, dict(kwargs)))
            if forward:
                return f(*args, **kwargs)
            return None

    def do_call(fn, c, coro):
        pos = [_VALS[t] for t in c["pos"]]
        kw = {PNAMES[n]: _VALS[v] for n, v in c["kw"]}
        assert len(kw) == len(c["kw"])
        try:
            r = fn(*pos, **kw)
            if coro:
                r = run_coro(r)
        except TypeError:
            return "TypeError"
        return r

    # f directly
    direct = []
    for c in case["calls"]:
        r = do_call(f, c, is_async)
        direct.append(r if r == "TypeError" else obs_binding(pnames, r))
    obs["direct"] = direct

    # wraps(...)
    injected = [PNAMES[t] for t in case["injected"]]
    if case["inj_form"] == "str" and len(injected) == 1:
        injected = injected[0]
    elif case["inj_form"] == "none" and not injected:
        injected = None
    else:
        injected = _iterform(injected, case["inj_form"])
    exp = [(PNAMES[n], funcutils.NO_DEFAULT if d is None else _VALS[d]) for n, d in case["expected"]]
    ef = case["exp_form"]
    if ef == "none" and not exp:
        expected = None
    elif ef == "str" and len(exp) == 1 and exp[0][1] is funcutils.NO_DEFAULT:
        expected = exp[0][0]
    elif ef == "names" and all(d is funcutils.NO_DEFAULT for _, d in exp):
        expected = [n for n, _ in exp]
    elif ef == "dict" and all(d is not funcutils.NO_DEFAULT for _, d in exp) and len(dict(exp)) == len(exp):
        expected = dict(exp)
    elif ef == "mixed":
        expected = [n if d is funcutils.NO_DEFAULT else (n, d) for n, d in exp]
    else:
        expected = _iterform(exp, "gen" if ef == "gen" else "list")
    try:
        if case["entry"] == "update_wrapper":
            g = funcutils.update_wrapper(wrapper, f, injected=injected, expected=expected)
        else:
            g = funcutils.wraps(f, injected=injected, expected=expected)(wrapper)
    except ValueError:
        obs["build"] = "ValueError"
        return obs
    except SyntaxError:
        obs["build"] = "SyntaxError"
        return obs
    b = {"sig": obs_sig(inspect.signature(g, follow_wrapped=False)),
         "name": FNAME_TOK[g.__name__], "doc": doc_tok(g.__doc__), "module": mod_tok(g.__module__),
         "wrapped": getattr(g, "__wrapped__", None) is f,
         "async": inspect.iscoroutinefunction(g), "gsrc": getattr(g, "__source__", None)}
    assert g is not f and g is not wrapper
    calls = []
    for c in case["calls"]:
        del saw[:]
        r = do_call(g, c, is_async)
        assert len(saw) <= 1
        sw = None
        if saw:
            a, k = saw[0]
            sw = {"pos": [_VID[id(x)] for x in a], "kw": [[NAME_TOK[n], _VID[id(x)]] for n, x in k.items()]}
        if r == "TypeError":
            out = "TypeError"
        elif forward:
            out = obs_binding(pnames, r)
        else:
            assert r is None
            out = []
        calls.append({"saw": sw, "out": out})
    b["calls"] = calls
    obs["build"] = b
    return obs


# ---- rendering ---------------------------------------------------------------------------
def _on(x):
    return copt(None if x is None else cnat(x))


KIND_NAMES = ["PosOrKw", "VarPos", "KwOnly", "VarKw"]


def _sig(s):
    return "(mkSig %s %s)" % (clist("mkP %s %s %s %s" % (cnat(n), KIND_NAMES[k], _on(d), _on(a))
                                    for n, k, d, a in s["params"]), _on(s["ret"]))


def _nv(pairs):
    return clist(cpair(cnat(n), cnat(v)) for n, v in pairs)


def _call(c):
    return "(mkCall %s %s)" % (clist(cnat(v) for v in c["pos"]), _nv(c["kw"]))


def _bval(kind, v):
    if kind == "v":
        return "BV %s" % cnat(v)
    if kind == "t":
        return "BTuple %s" % clist(cnat(x) for x in v)
    return "BDict %s" % _nv(v)


def _rb(r):
    if r == "TypeError":
        return "(Raise TypeError)"
    return "(Ok %s)" % clist(cpair(cnat(n), _bval(k, v)) for n, k, v in r)


def _olist(l, f):
    return "None" if l is None else "(Some %s)" % f(l)


def _pyfunc(fd):
    defaults = fd["defaults"]
    if defaults == [] and not fd.get("empty_defaults_tuple"):
        defaults = None
    return "(mkF %s %s %s %s %s %s %s %s %s %s %s)" % (
        cnat(fd["name"]), _on(fd["doc"]), _on(fd["module"]),
        clist(cnat(t) for t in fd["args"]), _on(fd["varargs"]),
        clist(cnat(t) for t in fd["kwonly"]), _on(fd["varkw"]),
        _olist(defaults, lambda l: clist(cnat(v) for v in l)),
        _olist(fd["kwdefaults"], _nv),
        _nv([(n, a) for n, a in fd["ann"] if not (fd["form"] == "lambda")]),
        cbool(fd["async"]))


EXN = {"ValueError": "ValueError", "SyntaxError": "(OtherExn 1%nat)", "TypeError": "TypeError"}


def to_coq(case, obs):
    b = obs["build"]
    if isinstance(b, str):
        build = "(Raise %s)" % EXN[b]
    else:
        build = "(Ok (mkBO %s %s %s %s %s %s %s))" % (
            _sig(b["sig"]), cnat(b["name"]), _on(b["doc"]), _on(b["module"]), cbool(b["wrapped"]), cbool(b["async"]),
            clist(cpair("None" if c["saw"] is None else "(Some %s)" % _call(c["saw"]), _rb(c["out"]))
                  for c in b["calls"]))
    return "mkCase %s %s %s %s %s %s %s %s %s" % (
        _pyfunc(case["f"]), clist(cnat(t) for t in case["injected"]),
        clist(cpair(cnat(n), _on(d)) for n, d in case["expected"]), cbool(case["forward"]),
        clist(_call(c) for c in case["calls"]),
        _sig(obs["fsig"]), cbool(obs["fasync"]), clist(_rb(r) for r in obs["direct"]), build)


# ---- generation -----------------------------------------------------------------------------
def make_fd(rng, npos, nd, varargs, kwonly_defaults, varkw, annotate, is_async, form="def", names=None):
    """kwonly_defaults: list of bool (has default) per keyword-only parameter."""
    nk = len(kwonly_defaults)
    need = npos + nk + int(varargs) + int(varkw)
    pool = names or rng.sample(range(1, len(PNAMES)), need)
    it = iter(pool)
    args = [next(it) for _ in range(npos)]
    va = next(it) if varargs else None
    kwonly = [next(it) for _ in range(nk)]
    vk = next(it) if varkw else None
    vals = rng.sample(range(0, NVALS), nd + nk)
    defaults = vals[:nd] if nd else None
    kwd = [[k, vals[nd + i]] for i, k in enumerate(kwonly) if kwonly_defaults[i]] or None
    ann = []
    if annotate and form != "lambda":
        cand = args + ([va] if va else []) + kwonly + ([vk] if vk else []) + [0]
        for n in cand:
            if annotate == "all" or rng.random() < 0.6:
                ann.append([n, rng.randrange(12)])
    fd = {"name": LAMBDA if form == "lambda" else rng.choice([0, 0, 1, 2, 3, 5, 6, 7]),
          "doc": rng.choice([None, None, 0, 1, 2]), "module": rng.choice([None, 1, 1, 2]),
          "args": args, "varargs": va, "kwonly": kwonly, "varkw": vk,
          "defaults": defaults, "kwdefaults": kwd, "ann": ann,
          "async": bool(is_async) and form != "lambda", "form": form}
    if defaults is None and rng.random() < 0.08:
        fd["defaults"] = []
        fd["empty_defaults_tuple"] = True
    if kwd is None and nk and rng.random() < 0.08:
        fd["kwdefaults"] = []
    return fd


def all_call_shapes(fd, extra_names):
    """Every call with 0..npos+2 positional values and every subset of (parameter names + extra names) as keywords."""
    names = list(dict.fromkeys(fd["args"] + fd["kwonly"] + list(extra_names)))
    shapes = []
    for np_ in range(0, len(fd["args"]) + 3):
        for r in range(0, len(names) + 1):
            for sub in itertools.combinations(names, r):
                shapes.append((np_, sub))
    return shapes


def make_calls(rng, fd, ncalls, extra_pool=()):
    used = set(fd["args"] + fd["kwonly"]) | {fd["varargs"], fd["varkw"]}
    unknown = [t for t in range(1, len(PNAMES)) if t not in used]
    extra = [rng.choice(unknown)]
    if fd["varargs"] is not None and rng.random() < 0.5:
        extra.append(fd["varargs"])          # the name of *args / **kwargs given as a keyword
    if fd["varkw"] is not None and rng.random() < 0.5:
        extra.append(fd["varkw"])
    extra += [t for t in extra_pool if t not in used and t not in extra]
    shapes = all_call_shapes(fd, extra)
    if len(shapes) > ncalls:
        # keep the accepting region well represented: bias to few positionals / all required names
        shapes = rng.sample(shapes, ncalls)
    calls = []
    for np_, sub in shapes:
        sub = list(sub)
        rng.shuffle(sub)
        vals = [rng.randrange(NVALS) for _ in range(np_ + len(sub))]
        calls.append({"pos": vals[:np_], "kw": [[n, vals[np_ + i]] for i, n in enumerate(sub)]})
    return calls


def accepting_call(rng, fd, style):
    """A call shape that binds: required parameters by position or keyword."""
    nreq = len(fd["args"]) - len(fd["defaults"] or [])
    if style == 0:
        np_ = rng.randint(nreq, len(fd["args"]) + (2 if fd["varargs"] is not None else 0))
    else:
        np_ = rng.randint(0, len(fd["args"]))
    kw = [n for n in fd["args"][np_:nreq]]
    kw += [n for n in fd["args"][max(np_, nreq):] if rng.random() < 0.5]
    kwd = dict(fd["kwdefaults"] or [])
    kw += [n for n in fd["kwonly"] if n not in kwd or rng.random() < 0.5]
    if fd["varkw"] is not None and rng.random() < 0.6:
        used = set(fd["args"] + fd["kwonly"])
        kw += rng.sample([t for t in range(1, len(PNAMES)) if t not in used], rng.randint(1, 2))
    rng.shuffle(kw)
    vals = [rng.randrange(NVALS) for _ in range(np_ + len(kw))]
    return {"pos": vals[:np_], "kw": [[n, vals[np_ + i]] for i, n in enumerate(kw)]}


def make_case(rng, fd, ncalls, variant):
    injected, expected = [], []
    params = fd["args"] + fd["kwonly"]
    used = set(params) | {fd["varargs"], fd["varkw"]}
    fresh = [t for t in range(1, len(PNAMES)) if t not in used]
    if variant in ("inject", "both"):
        k = rng.choice([1, 1, 2])
        for _ in range(k):
            r = rng.random()
            if params and r < 0.8:
                injected.append(rng.choice(params))
            elif r < 0.9:
                injected.append(rng.choice(fresh))
            else:
                injected.append(rng.choice([t for t in (fd["varargs"], fd["varkw"]) if t is not None] or fresh))
    if variant in ("expect", "both"):
        k = rng.choice([1, 1, 2])
        for _ in range(k):
            r = rng.random()
            if r < 0.8:
                n = rng.choice(fresh)
            elif r < 0.9 and injected:
                n = rng.choice(injected)
            else:
                n = rng.choice(sorted(t for t in used if t is not None) or fresh)
            expected.append([n, rng.choice([None, rng.randrange(NVALS), rng.randrange(NVALS)])])
    plain = not injected and not expected
    # the call shapes are drawn against the signature the result should have
    fd2 = dict(fd)
    if not plain:
        fd2 = dict(fd, args=[a for a in fd["args"] if a not in injected] + [n for n, _ in expected if n not in used or n in injected],
                   kwonly=[a for a in fd["kwonly"] if a not in injected])
        fd2["defaults"] = None
    calls = make_calls(rng, fd2, ncalls)
    for s in (0, 1, 1):
        calls.append(accepting_call(rng, fd, s))
    # distinct keyword names per call are guaranteed by construction
    return {"f": fd, "injected": injected,
            "inj_form": rng.choice(["list", "tuple", "gen", "str"] if injected else ["none", "list"]),
            "expected": expected,
            "exp_form": rng.choice(["pairs", "gen", "str", "names", "dict", "mixed"] if expected else ["none", "pairs"]),
            "entry": rng.choice(["wraps", "wraps", "update_wrapper"]),
            "forward": plain, "calls": calls}


def grid():
    """The design's grid: <=3 positional (every default suffix), optional *args, <=2 keyword-only (each with/without
    default), optional **kw, annotations on/off, sync/async: 1120 signatures."""
    for npos in range(4):
        for nd in range(npos + 1):
            for va in (0, 1):
                for nk in range(3):
                    for kd in itertools.product((False, True), repeat=nk):
                        for vk in (0, 1):
                            for annot in (None, "all"):
                                for asy in (0, 1):
                                    yield (npos, nd, va, list(kd), vk, annot, asy)


def generate(rng, tier, n):
    ncalls = 14 if tier == "quick" else 40
    count = 0
    if tier == "thorough":
        for (npos, nd, va, kd, vk, annot, asy) in grid():
            fd = make_fd(rng, npos, nd, va, kd, vk, annot, asy)
            yield make_case(rng, fd, 60, "plain")
            count += 1
    else:
        # a seed-dependent slice of the grid
        g = list(grid())
        for spec in rng.sample(g, min(len(g), n // 6)):
            npos, nd, va, kd, vk, annot, asy = spec
            fd = make_fd(rng, npos, nd, va, kd, vk, annot, asy)
            yield make_case(rng, fd, ncalls, "plain")
            count += 1
    while count < n:
        npos = rng.choice([0, 1, 1, 2, 2, 3, 3, 4])
        nd = rng.randint(0, npos)
        nk = rng.choice([0, 0, 1, 1, 2, 3])
        kd = [rng.random() < 0.5 for _ in range(nk)]
        form = "lambda" if rng.random() < 0.08 else "def"
        fd = make_fd(rng, npos, nd, rng.random() < 0.5, kd, rng.random() < 0.5,
                     rng.choice([None, "some", "all"]), rng.random() < 0.3, form)
        variant = rng.choice(["plain", "plain", "inject", "inject", "expect", "expect", "both"])
        yield make_case(rng, fd, ncalls, variant)
        count += 1


# ---- canary, evidence ---------------------------------------------------------------------------
def corrupt(case, obs):
    """A wrong observation: a default moved in the observed signature of the wrapped function, or a forwarded value
    changed."""
    import copy
    b = obs.get("build")
    if not isinstance(b, dict):
        return None
    bad = copy.deepcopy(obs)
    for p in bad["build"]["sig"]["params"]:
        if p[2] is not None:
            p[2] = (p[2] + 1) % NVALS
            return bad
    for c in bad["build"]["calls"]:
        if isinstance(c["out"], list) and c["out"]:
            for e in c["out"]:
                if e[1] == "v":
                    e[2] = (e[2] + 1) % NVALS
                    return bad
    for c in bad["build"]["calls"]:
        if c["out"] == "TypeError":
            c["out"] = []
            c["saw"] = {"pos": [], "kw": []}
            return bad
    return None


def nontrivial(case, obs):
    b = obs.get("build")
    if not isinstance(b, dict):
        return bool(case["injected"] or case["expected"])
    kinds = {p[1] for p in obs["fsig"]["params"]}
    outs = [c["out"] == "TypeError" for c in b["calls"]]
    return len(kinds) >= 2 and any(outs) and not all(outs)


def distribution(d, case, obs):
    def inc(k, sub):
        d.setdefault(k, {})
        d[k][sub] = d[k].get(sub, 0) + 1
    fd = case["f"]
    inc("shape", "pos%d/def%d/%s/kwo%d/%s" % (len(fd["args"]), len(fd["defaults"] or []), "va" if fd["varargs"] else "-",
                                             len(fd["kwonly"]), "vk" if fd["varkw"] else "-"))
    variant = ("plain" if case["forward"] else
               "+".join(x for x, y in (("inject", case["injected"]), ("expect", case["expected"])) if y))
    inc("variant", variant)
    inc("form", ("async " if fd["async"] else "") + fd["form"])
    inc("entry", case["entry"])
    b = obs.get("build")
    inc("build", b if isinstance(b, str) else "ok")
    if isinstance(b, dict):
        for c in b["calls"]:
            inc("call_outcome", "TypeError" if c["out"] == "TypeError" else "accepted")
    d["calls_total"] = d.get("calls_total", 0) + len(case["calls"])


def sample(case, obs):
    b = obs.get("build")
    return {"source_of_f": obs.get("src"), "injected": case["injected"], "expected": case["expected"],
            "wrapped_source": b.get("gsrc") if isinstance(b, dict) else b,
            "wrapped_signature": b["sig"] if isinstance(b, dict) else None,
            "first_calls": [{"call": c, "direct": dr, "via_wrapper": o}
                            for c, dr, o in zip(case["calls"][:3], obs["direct"][:3],
                                                b["calls"][:3] if isinstance(b, dict) else [None] * 3)]}


def shrink(case):
    calls = case["calls"]
    if len(calls) > 1:
        half = len(calls) // 2
        for sub in (calls[:half], calls[half:]):
            yield dict(case, calls=sub)
        if len(calls) <= 8:
            for i in range(len(calls)):
                yield dict(case, calls=calls[:i] + calls[i + 1:])
    for key in ("injected", "expected"):
        if len(case[key]) > 1:
            for i in range(len(case[key])):
                c = dict(case)
                c[key] = case[key][:i] + case[key][i + 1:]
                yield c
    fd = case["f"]
    if fd["ann"]:
        yield dict(case, f=dict(fd, ann=[]))
    if fd["async"]:
        yield dict(case, f=dict(fd, **{"async": False}))
