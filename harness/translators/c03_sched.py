"""Deterministic opcode-level thread scheduler for C03 (DESIGN 3/C03 "Tie (C)").

Real `threading.Thread`s run public operations on ONE real LRI/LRU.  Exactly one
thread runs at a time (baton passing over semaphores); a thread can be pre-empted
before any bytecode instruction executed in a frame of boltons/cacheutils.py
(`sys.settrace` + `frame.f_trace_opcodes`).  The cache's `_lock` *instance
attribute* is replaced by a scheduler-aware lock of the same kind as the one the
constructor made (re-entrant for `threading.RLock`, plain for `threading.Lock`;
anything else: fail closed), so that a thread blocking on the lock hands the baton
on instead of hanging the whole process, and so that the order of the outermost
lock acquisitions can be recorded.

Nothing in here states the property: the run returns raw observations.
"""
import sys
import threading

MAX_OPCODES = 60000          # per run; beyond = "hang" (e.g. a corrupted ring walked forever)
WAIT_S = 8.0


class Abort(BaseException):
    pass


class SelfDeadlock(Exception):
    """the main thread (sequential set-up / probe) tried to re-acquire a non re-entrant cache lock"""


class SchedLock:
    """Scheduler-aware replacement for the per-cache lock."""

    def __init__(self, sched, reentrant):
        self.sched = sched
        self.reentrant = reentrant
        self.owner = None
        self.depth = 0

    def acquire(self, blocking=True, timeout=-1):
        s = self.sched
        me = s.me()
        while True:
            if self.owner is None:
                self.owner, self.depth = me, 1
                s.on_outer_acquire(me)
                return True
            if self.owner == me and self.reentrant:
                self.depth += 1
                return True
            # held by another thread (or by me and not re-entrant): block
            s.block(me)

    def release(self):
        me = self.sched.me()
        if self.owner != me:
            raise RuntimeError("cannot release un-acquired lock")
        self.depth -= 1
        if self.depth == 0:
            self.owner = None
            self.sched.on_outer_release(me)

    def __enter__(self):
        self.acquire()
        return self

    def __exit__(self, *a):
        self.release()
        return False


class Sched:
    def __init__(self, nthreads, plan, start, code_file, extra_files=()):
        self.n = nthreads
        self.sems = [threading.Semaphore(0) for _ in range(nthreads)]
        self.main_sem = threading.Semaphore(0)
        self.state = ["ready"] * nthreads       # ready | blocked | done
        self.count = [0] * nthreads             # traced opcodes per thread
        self.total = 0
        self.plan = {}
        for (tid, k, to) in plan:
            self.plan.setdefault((tid, k), to)
        self.start = start
        self.code_file = code_file
        self.code_files = frozenset((code_file,) + tuple(extra_files))
        self.order = []                         # (tid, opidx) per outermost acquisition
        self.opidx = [0] * nthreads
        self.aborting = False
        self.status = "done"
        self.idents = {}
        self.switches = 0
        self.blocked_acquires = 0

    # -- identity -----------------------------------------------------------
    def me(self):
        return self.idents.get(threading.get_ident(), -1)

    # -- baton ----------------------------------------------------------------
    def pick(self, me, prefer=None):
        if prefer is not None and prefer != me and 0 <= prefer < self.n and self.state[prefer] == "ready":
            return prefer
        for d in range(1, self.n + 1):
            t = (me + d) % self.n
            if t != me and self.state[t] == "ready":
                return t
        return None

    def park(self):
        """A run that is being abandoned (deadlock / hang): this thread must never run
        cache code again.  Raising out of a trace callback crashes CPython 3.12.1
        (segfault seen), so the thread simply sleeps for ever; it is a daemon."""
        while True:
            threading.Event().wait(3600)

    def wait(self, me):
        self.sems[me].acquire()
        if self.aborting:
            self.park()

    def switch(self, me, to):
        self.switches += 1
        self.sems[to].release()
        self.wait(me)

    def fail(self, status):
        """deadlock / hang: stop everything"""
        if not self.aborting:
            self.status = status
            self.aborting = True
            self.main_sem.release()
        self.park()

    def block(self, me):
        if me < 0:
            raise SelfDeadlock("main thread blocked on the cache lock")
        self.blocked_acquires += 1
        self.state[me] = "blocked"
        to = self.pick(me)
        if to is None:
            self.fail("deadlock")
        self.switch(me, to)

    def on_outer_acquire(self, me):
        if me >= 0:
            self.order.append((me, self.opidx[me]))

    def on_outer_release(self, me):
        for t in range(self.n):
            if self.state[t] == "blocked":
                self.state[t] = "ready"

    def on_opcode(self, me):
        k = self.count[me]
        self.count[me] = k + 1
        self.total += 1
        if self.total > MAX_OPCODES:
            self.fail("hang")
        to = self.plan.get((me, k))
        if to is not None:
            t = self.pick(me, to)
            if t is not None:
                self.switch(me, t)

    # -- thread body ------------------------------------------------------------
    def make_tracer(self, me):
        code_files = self.code_files
        on_opcode = self.on_opcode

        def local(frame, event, arg):
            if event == "opcode":
                on_opcode(me)
            return local

        def tracer(frame, event, arg):
            if frame.f_code.co_filename in code_files:
                frame.f_trace_opcodes = True
                frame.f_trace_lines = False
                return local
            return None
        return tracer

    def thread_main(self, me, body):
        self.idents[threading.get_ident()] = me
        try:
            self.wait(me)
            sys.settrace(self.make_tracer(me))
            try:
                body(me)
            finally:
                sys.settrace(None)
            self.state[me] = "done"
            to = self.pick(me)
            if to is not None:
                self.switches += 1
                self.sems[to].release()
            elif any(s == "blocked" for s in self.state):
                self.status = "deadlock"
                self.aborting = True
                self.main_sem.release()
            else:
                self.main_sem.release()
        except Abort:
            pass

    def run(self, bodies):
        """bodies: list of callables body(tid).  Returns status."""
        threads = [threading.Thread(target=self.thread_main, args=(i, b), daemon=True)
                   for i, b in enumerate(bodies)]
        for t in threads:
            t.start()
        first = self.start if 0 <= self.start < self.n else 0
        self.sems[first].release()
        if not self.main_sem.acquire(timeout=WAIT_S):
            self.status = "hang"
        if self.status != "done":
            self.aborting = True          # the threads of this run stay parked (daemons)
        else:
            for t in threads:
                t.join(timeout=2.0)
        return self.status


def lock_kind(lock):
    """'rlock' / 'lock' for the two stdlib kinds; anything else fails closed."""
    if isinstance(lock, type(threading.RLock())):
        return "rlock"
    if isinstance(lock, type(threading.Lock())):
        return "lock"
    raise RuntimeError("cache._lock is of unknown type %r: cannot schedule it" % (type(lock),))
