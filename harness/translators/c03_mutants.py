"""C03 mutant validation (DESIGN 5): applies one small lock-discipline mutant (or harmless rewrite)
at a time to a scratch copy of /repo/boltons under /tmp/scratch_C03 (never touches /repo), runs the
registered quick check against it with VERIF_REPO, prints one line per mutant, removes the scratch
copy.  usage: /venv/bin/python harness/translators/c03_mutants.py [name ...]   (default: all)
Expected: every M* -> rc=1 with VIOLATION lines; every H* -> rc=0.  Do not run two C03 checks at
the same time on the SAME Coq tree; this script gives every mutant a private copy (VERIF_COQ/VERIF_BUILD)."""
import subprocess, shutil, os, sys, re
SRC = open('/repo/boltons/cacheutils.py').read()

def dedent_with(src, header_after):
    """remove the first `with self._lock:` after the given def line, dedenting its block"""
    i = src.index(header_after)
    j = src.index("        with self._lock:\n", i)
    lines = src[j:].split("\n")
    out = []
    k = 1
    while k < len(lines) and (lines[k].startswith("            ") or lines[k].strip() == ""):
        if lines[k].strip() == "" and not (k + 1 < len(lines) and lines[k+1].startswith("            ")):
            break
        out.append(lines[k][4:] if lines[k].strip() else lines[k])
        k += 1
    return src[:j] + "\n".join(out) + "\n" + "\n".join(lines[k:])


def _ordereddict_rewrite(s):
    """H4: the list-cell ring replaced by collections.OrderedDict (behaviour-preserving rewrite of the
    recency structure: DESIGN 5 lists it among the rewrites that must stay silent)"""
    i = s.index("    def _init_ll(self):")
    j = s.index("    def __setitem__(self, key, value):")
    helpers = '''    def _init_ll(self):
        self._order = OrderedDict()

    def _get_flattened_ll(self):
        return [(_MISSING, _MISSING)] + list(self._order.items())

    def _get_link_and_move_to_front_of_ll(self, key):
        self._order.move_to_end(key)        # KeyError if the key has no link
        return key

    def _set_key_and_add_to_front_of_ll(self, key, value):
        self._order[key] = value

    def _set_key_and_evict_last_in_ll(self, key, value):
        evicted, _ = self._order.popitem(last=False)
        self._order[key] = value
        return evicted

    def _remove_from_ll(self, key):
        del self._order[key]

'''
    s = s[:i] + helpers + s[j:]
    s = s.replace("                link[VALUE] = value\n", "                self._order[link] = value\n")
    s = s.replace("                link = self._link_lookup[key]\n", "                link = self._order[key]\n")
    a = s.index("class LRI(dict):"); b = s.index("class LRU(LRI):")
    lri = s[a:b].replace("            return link[VALUE]\n", "            return link\n")
    lru = s[b:].replace("            return link[VALUE]\n", "            return self._order[link]\n")
    s = s[:a] + lri + lru
    return s.replace("import heapq\n", "import heapq\nfrom collections import OrderedDict\n", 1)

MUTANTS = {
 "M1_setitem_nolock": lambda s: dedent_with(s, "    def __setitem__(self, key, value):"),
 "M2_dictset_outside": lambda s: s.replace("                link[VALUE] = value\n            super().__setitem__(key, value)\n        return", "                link[VALUE] = value\n        super().__setitem__(key, value)\n        return"),
 "M3_plain_lock": lambda s: s.replace("    from threading import RLock\n", "    from threading import Lock as RLock\n"),
 "M4_lru_getitem_nolock": lambda s: s[:s.index("class LRU(LRI):")] + dedent_with(s[s.index("class LRU(LRI):"):], "    def __getitem__(self, key):"),
 "M5_pop_nolock": lambda s: dedent_with(s, "    def pop(self, key, default=_MISSING):"),
 "M6_delitem_nolock": lambda s: dedent_with(s, "    def __delitem__(self, key):"),
 "M7_copy_nolock": lambda s: dedent_with(s, "    def copy(self):"),
 "M8_setdefault_nolock": lambda s: dedent_with(s, "    def setdefault(self, key, default=None):"),
 "M9_update_nolock": lambda s: dedent_with(s, "    def update(self, E, **F):"),
 "M10_popitem_nolock": lambda s: dedent_with(s, "    def popitem(self):"),
 "M11_clear_nolock": lambda s: dedent_with(s, "    def clear(self):"),
 "M12_lri_getitem_nolock": lambda s: dedent_with(s, "    def __getitem__(self, key):"),
 "M13_repr_nolock": lambda s: s.replace("        with self._lock:\n            val_map = super().__repr__()\n", "        val_map = super().__repr__()\n"),
 "M14_or_nolock": lambda s: dedent_with(s, "    def __or__(self, other):"),
 "M15_len_nolock": lambda s: dedent_with(s, "    def __len__(self):"),
 "M16_contains_nolock": lambda s: dedent_with(s, "    def __contains__(self, key):"),
 "H1_rename_locals": lambda s: s.replace("second_newest", "penultimate").replace("oldanchor", "former_anchor"),
 "H2_get_extra_lock": lambda s: s.replace("    def get(self, key, default=None):\n        try:\n            return self[key]\n        except KeyError:\n            self.soft_miss_count += 1\n            return default",
      "    def get(self, key, default=None):\n        with self._lock:\n            try:\n                return self[key]\n            except KeyError:\n                self.soft_miss_count += 1\n                return default"),
 "H4_ordereddict_ring": _ordereddict_rewrite,
 "H3_reorder_independent": lambda s: s.replace("        newest[PREV] = second_newest\n        newest[NEXT] = anchor\n        return newest", "        newest[NEXT] = anchor\n        newest[PREV] = second_newest\n        return newest"),
}
names = sys.argv[1:] or list(MUTANTS)
for name in names:
    d = "/tmp/scratch_C03"
    shutil.rmtree(d, ignore_errors=True)
    os.makedirs(d)
    shutil.copytree("/repo/boltons", d + "/boltons")
    new = MUTANTS[name](SRC)
    assert new != SRC, name
    compile(new, "cacheutils.py", "exec")
    open(d + "/boltons/cacheutils.py", "w").write(new)
    # private copy of the Coq tree: the regenerated Gen file of the mutant never touches /verif/coq
    subprocess.run(["cp", "-a", "/verif/coq", d + "/coq"], check=True)
    env = dict(os.environ, VERIF_REPO=d, VERIF_JOBS="4", VERIF_COQ=d + "/coq", VERIF_BUILD=d + "/build",
               VERIF_EVIDENCE_DIR=d + "/ev", VERIF_REPLAY_DIR=d + "/rp")
    p = subprocess.run(["/venv/bin/python", "/verif/harness/vcheck.py", "C03", "--tier", "quick"], env=env, stdout=subprocess.PIPE, stderr=subprocess.STDOUT, text=True, timeout=1500)
    lines = [l for l in p.stdout.splitlines() if l.startswith(("C03 tier", "VIOLATION", "HARNESS", "KNOWN"))]
    print(name, "rc=%d" % p.returncode, " | ".join(lines), flush=True)
shutil.rmtree("/tmp/scratch_C03", ignore_errors=True)
