"""C02 translator: the five linked-list helpers of boltons.cacheutils.LRI -> Gallina programs
(list stmt of Model/C02_PtrInterp.v).  Walks the ast of the CURRENT source; fails closed (raises) on
any construct outside the tiny straight-line subset the interpreter understands."""
import ast
import os

HELPERS = [("_init_ll", "gen_init_ll", 0),
           ("_get_link_and_move_to_front_of_ll", "gen_move_to_front", 1),
           ("_set_key_and_add_to_front_of_ll", "gen_add_to_front", 2),
           ("_set_key_and_evict_last_in_ll", "gen_evict", 2),
           ("_remove_from_ll", "gen_remove", 1)]
FIELDS = ("PREV", "NEXT", "KEY", "VALUE")


class Unsupported(Exception):
    pass


def _is_self_attr(node, name):
    return (isinstance(node, ast.Attribute) and isinstance(node.value, ast.Name) and node.value.id == "self"
            and node.attr == name)


class _Fn:
    def __init__(self, fn, nparams):
        self.fn = fn
        self.vars = {}
        args = [a.arg for a in fn.args.args]
        want = ["self", "key", "value"][:1 + nparams]
        if (args != want or fn.args.vararg or fn.args.kwarg or fn.args.kwonlyargs or fn.args.defaults
                or fn.decorator_list):
            raise Unsupported("%s: signature %r, expected %r" % (fn.name, args, want))
        self.params = set(want[1:])

    def var(self, name, define=False):
        if name not in self.vars:
            if not define:
                raise Unsupported("%s: variable %s used before assignment" % (self.fn.name, name))
            self.vars[name] = len(self.vars)
        return self.vars[name]

    def field(self, node):
        if isinstance(node, ast.Name) and node.id in FIELDS:
            return node.id
        raise Unsupported("%s: subscript %s" % (self.fn.name, ast.dump(node)))

    def expr(self, e):
        if isinstance(e, ast.Name):
            if e.id == "key" and "key" in self.params:
                return "EKey"
            if e.id == "value" and "value" in self.params:
                return "EValue"
            if e.id == "_MISSING":
                return "EMissing"
            return "(EVar %d)" % self.var(e.id)
        if _is_self_attr(e, "_anchor"):
            return "EAnchor"
        if isinstance(e, ast.Subscript):
            if _is_self_attr(e.value, "_link_lookup"):
                return "(ELookup %s)" % self.expr(e.slice)
            return "(EField %s %s)" % (self.expr(e.value), self.field(e.slice))
        if (isinstance(e, ast.Call) and isinstance(e.func, ast.Attribute) and e.func.attr == "pop"
                and _is_self_attr(e.func.value, "_link_lookup") and len(e.args) == 1 and not e.keywords):
            return "(ELookupPop %s)" % self.expr(e.args[0])
        if isinstance(e, ast.List) and len(e.elts) == 4:
            return "(ENewCell %s)" % " ".join(self.expr(x) for x in e.elts)
        if isinstance(e, ast.List) and not e.elts:
            return "ENewEmpty"
        raise Unsupported("%s: expression %s" % (self.fn.name, ast.dump(e)))

    def target(self, t):
        if isinstance(t, ast.Name):
            if t.id in self.params or t.id in FIELDS or t.id == "_MISSING":
                raise Unsupported("%s: assignment to %s" % (self.fn.name, t.id))
            return "TVar %d" % self.var(t.id, define=True)
        if _is_self_attr(t, "_anchor"):
            return "TAnchor"
        if isinstance(t, ast.Subscript):
            if _is_self_attr(t.value, "_link_lookup"):
                return "TLookup %s" % self.expr(t.slice)
            return "TField %s %s" % (self.expr(t.value), self.field(t.slice))
        raise Unsupported("%s: target %s" % (self.fn.name, ast.dump(t)))

    def stmt(self, s):
        if isinstance(s, ast.Expr) and isinstance(s.value, ast.Constant) and isinstance(s.value.value, str):
            return None                                      # docstring
        if isinstance(s, ast.Assign):
            if len(s.targets) == 1:
                t = s.targets[0]
                if (isinstance(t, ast.Subscript) and isinstance(t.value, ast.Name) and isinstance(t.slice, ast.Slice)
                        and t.slice.lower is None and t.slice.upper is None and t.slice.step is None
                        and isinstance(s.value, ast.List) and len(s.value.elts) == 4):
                    return "SFill %d %s" % (self.var(t.value.id), " ".join(self.expr(x) for x in s.value.elts))
                if _is_self_attr(t, "_link_lookup") and isinstance(s.value, ast.Dict) and not s.value.keys:
                    return "SLookupClear"
            value = self.expr(s.value)                        # right-hand side first (uses before definitions)
            targets = [self.target(t) for t in s.targets]     # then the targets, left to right
            return "SAssign [%s] %s" % ("; ".join(targets), value)
        if isinstance(s, ast.Delete) and len(s.targets) == 1:
            t = s.targets[0]
            if isinstance(t, ast.Subscript) and _is_self_attr(t.value, "_link_lookup"):
                return "SLookupDel %s" % self.expr(t.slice)
        if isinstance(s, ast.Return) and s.value is not None:
            return "SReturn %s" % self.expr(s.value)
        raise Unsupported("%s: statement %s" % (self.fn.name, ast.dump(s)[:200]))

    def program(self):
        out = []
        for s in self.fn.body:
            r = self.stmt(s)
            if r is not None:
                out.append(r)
        return out


def helper_roles(repo):
    """python method name -> role name (gen_...) for the five helpers of the current source."""
    text = translate(repo)
    out = {}
    lines = text.splitlines()
    for i, l in enumerate(lines):
        if l.startswith("(* LRI.") and i + 1 < len(lines) and lines[i + 1].startswith("Definition "):
            out[l[len("(* LRI."):-len(" *)")]] = lines[i + 1].split()[1]
    return out


def translate(repo):
    path = os.path.join(repo, "boltons", "cacheutils.py")
    tree = ast.parse(open(path).read())
    # PREV, NEXT, KEY, VALUE = range(4)
    ok = False
    for node in tree.body:
        if (isinstance(node, ast.Assign) and len(node.targets) == 1 and isinstance(node.targets[0], ast.Tuple)
                and [getattr(e, "id", None) for e in node.targets[0].elts] == list(FIELDS)
                and isinstance(node.value, ast.Call) and getattr(node.value.func, "id", None) == "range"
                and len(node.value.args) == 1 and isinstance(node.value.args[0], ast.Constant)
                and node.value.args[0].value == 4):
            ok = True
    if not ok:
        raise Unsupported("PREV, NEXT, KEY, VALUE = range(4) not found")
    cls = [n for n in tree.body if isinstance(n, ast.ClassDef) and n.name == "LRI"]
    if len(cls) != 1:
        raise Unsupported("class LRI not found")
    fns = {n.name: n for n in cls[0].body if isinstance(n, ast.FunctionDef)}
    # LRU must not override a helper
    for n in tree.body:
        if isinstance(n, ast.ClassDef) and n.name == "LRU":
            for m in n.body:
                if isinstance(m, ast.FunctionDef) and m.name.startswith("_") and not m.name.startswith("__"):
                    raise Unsupported("LRU overrides %s" % m.name)
    lines = ["(* generated by harness/translators/c02_helpers.py from %s; do not edit *)" % "boltons/cacheutils.py",
             "From Boltons Require Import Lib.Prelude Lib.C02_Syntax Model.C02_Model Model.C02_PtrModel Model.C02_PtrInterp.",
             ""]
    # The helpers are recognised by what they do, not by their names (renaming a private helper is a
    # harmless refactoring): every private method of LRI that lies inside the subset is translated and
    # given a role by its distinctive construct; each role must be filled exactly once.
    ROLES = [("gen_init_ll", "SFill "), ("gen_add_to_front", "ENewCell "), ("gen_evict", "SLookupDel "),
             ("gen_remove", "ELookupPop "), ("gen_move_to_front", "SReturn ")]
    progs = {}
    for name, fn in fns.items():
        if not name.startswith("_") or name.startswith("__"):
            continue
        try:
            progs[name] = _Fn(fn, len(fn.args.args) - 1).program()
        except (Unsupported, IndexError):
            continue                       # not a straight-line helper (e.g. _print_ll, _get_flattened_ll)
    found = {}
    for name, prog in progs.items():
        text = " ".join(prog)
        mine = [r for r, mark in ROLES if mark in text]
        if "gen_evict" in mine and "gen_move_to_front" in mine:
            mine.remove("gen_move_to_front")        # the evicting helper also returns a value
        if len(mine) != 1:
            raise Unsupported("cannot classify private method %s: %r" % (name, mine))
        if mine[0] in found:
            raise Unsupported("two candidates for %s: %s and %s" % (mine[0], found[mine[0]][0], name))
        found[mine[0]] = (name, prog)
    uses_ring = any(isinstance(n, ast.Attribute) and n.attr in ("_anchor", "_link_lookup") for n in ast.walk(cls[0]))
    if not found and not uses_ring:
        # The class keeps no hand-written linked list at all (no _anchor, no _link_lookup, none of the five
        # helpers): the recency structure was replaced wholesale.  Then there is nothing for (T) to tie; the
        # obligations are stated under `gen_present = true` and become vacuous, (C) alone carries the check.
        lines.append("(* no linked-list helpers in the source: the (T) obligations are vacuous for this tree *)")
        lines.append("Definition gen_present : bool := false.\n")
        for coqname, _ in ROLES:
            lines.append("Definition %s : list stmt := [].\n" % coqname)
        return "\n".join(lines)
    lines.append("Definition gen_present : bool := true.\n")
    for coqname, _ in ROLES:
        if coqname not in found:
            raise Unsupported("no straight-line private method of LRI plays the role %s" % coqname)
        pyname, prog = found[coqname]
        lines.append("(* LRI.%s *)" % pyname)
        lines.append("Definition %s : list stmt :=\n  [ %s ].\n" % (coqname, ";\n    ".join(prog)))
    return "\n".join(lines)


import sys

if __name__ == "__main__" and "--selftest" not in sys.argv:
    print(translate(sys.argv[1] if len(sys.argv) > 1 else "/repo"))


def selftest(repo="/repo"):
    """Perturb the source in memory and check that the generated programs change / the translator refuses."""
    import tempfile
    import shutil
    good = translate(repo)
    src = open(os.path.join(repo, "boltons", "cacheutils.py")).read()
    results = []
    for name, old, new, expect in [
            ("evict via anchor[PREV]", "self._anchor = anchor = oldanchor[NEXT]", "self._anchor = anchor = oldanchor[PREV]", "differs"),
            ("dropped back-pointer write", "        link[NEXT][PREV] = link[PREV]\n", "", "differs"),
            ("renamed local", "second_newest", "penultimate", "same"),
            ("renamed private helper", "_remove_from_ll", "_unlink", "same_programs"),
            ("if statement in a helper", "        link = self._link_lookup.pop(key)\n",
             "        link = self._link_lookup.pop(key)\n        if link is None:\n            return\n", "refused")]:
        assert old in src, name
        d = tempfile.mkdtemp(prefix="c02_tr_")
        try:
            os.makedirs(os.path.join(d, "boltons"))
            open(os.path.join(d, "boltons", "cacheutils.py"), "w").write(src.replace(old, new))
            try:
                out = translate(d)
                got = "same" if out == good else "differs"
                if expect == "same_programs":
                    strip = lambda t: [l for l in t.splitlines() if not l.startswith("(* LRI.")]
                    got = "same_programs" if strip(out) == strip(good) else "differs"
            except Unsupported:
                got = "refused"
        finally:
            shutil.rmtree(d, ignore_errors=True)
        results.append((name, expect, got))
        assert got == expect, (name, expect, got)
    return results


if __name__ == "__main__" and "--selftest" in sys.argv:
    for r in selftest():
        print("selftest %-32s expected %-8s got %s" % r)
