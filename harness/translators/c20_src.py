"""(T) tie for C20: ThresholdCounter.add regenerated as Gallina from /repo's current source."""
import ast
import os
import py2coq


def shape_try_incr(T, s, probe, scope=None):
    """try: self.D[key][0] += inc   except KeyError: self.D[key] = [a, b]"""
    if not isinstance(s, ast.Try):
        return None
    try:
        assert len(s.body) == 1 and len(s.handlers) == 1 and not s.orelse and not s.finalbody
        a, h = s.body[0], s.handlers[0]
        assert isinstance(a, ast.AugAssign) and isinstance(a.op, ast.Add)
        t = a.target
        assert isinstance(t, ast.Subscript) and isinstance(t.slice, ast.Constant) and t.slice.value == 0
        t2 = t.value
        assert isinstance(t2, ast.Subscript) and isinstance(t2.slice, ast.Name)
        d = t2.value
        assert isinstance(d, ast.Attribute) and isinstance(d.value, ast.Name) and d.value.id == "self"
        assert isinstance(h.type, ast.Name) and h.type.id == "KeyError" and h.name is None and len(h.body) == 1
        b = h.body[0]
        assert isinstance(b, ast.Assign) and len(b.targets) == 1
        bt = b.targets[0]
        assert isinstance(bt, ast.Subscript) and ast.dump(bt.value) == ast.dump(d) and ast.dump(bt.slice) == ast.dump(t2.slice)
        assert isinstance(b.value, ast.List) and len(b.value.elts) == 2
    except (AssertionError, AttributeError):
        raise py2coq.Unsupported("try statement of an unknown shape")
    if probe:
        return ["self"]
    return "let self := %s self (pd_incr0_or_insert (%s self) %s %s (%s, %s)) in\n" % (
        T.cfg["attrs"][d.attr][1], T.cfg["attrs"][d.attr][0], T.expr(t2.slice, scope), T.expr(a.value, scope),
        T.expr(b.value.elts[0], scope), T.expr(b.value.elts[1], scope))


CFG = {"name": "src_add", "params": [("self", "tc"), ("key", "K")], "ret": "tc", "num": "N", "procedure": True,
       "attrs": {"total": ("tc_total", "set_total", "int"), "_count_map": ("tc_map", "set_map", "dict"),
                 "_cur_bucket": ("tc_bucket", "set_bucket", "int"), "_thresh_count": ("tc_w", "set_w", "int")},
       "kinds": {"k": "key", "v": "pairNN"}, "calls": {"sum": ("sum2", "int")}, "shapes": [shape_try_incr]}

HEADER = """(* GENERATED on every run by harness/translators/c20_src.py from %s
   (ThresholdCounter.add); do not edit.  Integers are N: the only subtraction is _cur_bucket - 1 and
   _cur_bucket >= 1 is an invariant (Proofs.C20_Proofs.inv_bucket). *)
From Boltons Require Import Lib.Prelude Lib.PySrc Model.C20_Model.
Open Scope N_scope.
Definition set_total (s : tc) (x : N) : tc := mkTC x (tc_bucket s) (tc_w s) (tc_map s).
Definition set_bucket (s : tc) (x : N) : tc := mkTC (tc_total s) x (tc_w s) (tc_map s).
Definition set_map (s : tc) (m : pydict (N * N)) : tc := mkTC (tc_total s) (tc_bucket s) (tc_w s) m.
"""


def generate(repo):
    path = os.path.join(repo, "boltons", "cacheutils.py")
    return {"C20_Src": HEADER % path + py2coq.translate(path, "ThresholdCounter.add", CFG)}
