"""(T) tie for C20: ThresholdCounter.add regenerated as Gallina from /repo's current source."""
import ast
import os
import py2coq


def shape_try_incr(T, s, probe, scope=None):
    """try: self.D[key][0] += inc   except KeyError: self.D[key] = [a, b]"""
    if not isinstance(s, ast.Try):
        return None
    try:
        assert len(s.body) == 1 and len(s.handlers) == 1 and not s.orelse and not s.finalbody
        a, h = s.body[0], s.handlers[0]
        assert isinstance(a, ast.AugAssign) and isinstance(a.op, ast.Add)
        t = a.target
        assert isinstance(t, ast.Subscript) and isinstance(t.slice, ast.Constant) and t.slice.value == 0
        t2 = t.value
        assert isinstance(t2, ast.Subscript) and isinstance(t2.slice, ast.Name)
        d = t2.value
        assert isinstance(d, ast.Attribute) and isinstance(d.value, ast.Name) and d.value.id == "self"
        assert isinstance(h.type, ast.Name) and h.type.id == "KeyError" and h.name is None and len(h.body) == 1
        b = h.body[0]
        assert isinstance(b, ast.Assign) and len(b.targets) == 1
        bt = b.targets[0]
        assert isinstance(bt, ast.Subscript) and ast.dump(bt.value) == ast.dump(d) and ast.dump(bt.slice) == ast.dump(t2.slice)
        assert isinstance(b.value, ast.List) and len(b.value.elts) == 2
    except (AssertionError, AttributeError):
        raise py2coq.Unsupported("try statement of an unknown shape")
    if probe:
        return ["self"]
    return "let self := %s self (pd_incr0_or_insert (%s self) %s %s (%s, %s)) in\n" % (
        T.cfg["attrs"][d.attr][1], T.cfg["attrs"][d.attr][0], T.expr(t2.slice, scope), T.expr(a.value, scope),
        T.expr(b.value.elts[0], scope), T.expr(b.value.elts[1], scope))


CFG = {"name": "src_add", "params": [("self", "tc"), ("key", "K")], "ret": "tc", "num": "N", "procedure": True,
       "attrs": {"total": ("tc_total", "set_total", "int"), "_count_map": ("tc_map", "set_map", "dict"),
                 "_cur_bucket": ("tc_bucket", "set_bucket", "int"), "_thresh_count": ("tc_w", "set_w", "int")},
       "kinds": {"k": "key", "v": "pairNN"}, "calls": {"sum": ("sum2", "int")}, "shapes": [shape_try_incr]}

# ---- ThresholdCounter.update -----------------------------------------------------------------------
def _is(node, cls, **kw):
    return isinstance(node, cls) and all(getattr(node, k, None) == v for k, v in kw.items())


def cond_update(T, e, scope):
    # `iterable is not None`
    if isinstance(e, ast.Compare) and len(e.ops) == 1 and isinstance(e.ops[0], ast.IsNot) and \
            _is(e.left, ast.Name, id="iterable") and _is(e.comparators[0], ast.Constant, value=None):
        return "(negb (src_is_none iterable))"
    # `callable(iteritems)`
    if isinstance(e, ast.Call) and _is(e.func, ast.Name, id="callable") and len(e.args) == 1 and not e.keywords and \
            _is(e.args[0], ast.Name, id="iteritems") and "iteritems" in scope:
        return "(opt_is_some iteritems)"
    return None


def shape_getattr_items(T, s, probe, scope=None):
    """iteritems = (getattr(iterable, 'iteritems', None) or getattr(iterable, 'items', None))"""
    if not (isinstance(s, ast.Assign) and len(s.targets) == 1 and _is(s.targets[0], ast.Name, id="iteritems")):
        return None
    v = s.value

    def ga(c, name):
        return (isinstance(c, ast.Call) and _is(c.func, ast.Name, id="getattr") and len(c.args) == 3 and not c.keywords and
                _is(c.args[0], ast.Name, id="iterable") and _is(c.args[1], ast.Constant, value=name) and
                _is(c.args[2], ast.Constant, value=None))
    if not (isinstance(v, ast.BoolOp) and isinstance(v.op, ast.Or) and len(v.values) == 2 and
            ga(v.values[0], "iteritems") and ga(v.values[1], "items")):
        raise py2coq.Unsupported("assignment to iteritems of an unknown shape")
    if probe:
        return []
    scope.add("iteritems")          # bound for the rest of the enclosing block
    return "let iteritems := src_items_method iterable in\n"


def iter_update(T, e, scope):
    if isinstance(e, ast.Call) and _is(e.func, ast.Name, id="iteritems") and not e.args and not e.keywords and "iteritems" in scope:
        return "(opt_items iteritems)"                      # for key, count in iteritems()
    if isinstance(e, ast.Call) and _is(e.func, ast.Name, id="range") and len(e.args) == 1 and _is(e.args[0], ast.Name, id="count"):
        return "(seq 0 count)"                              # for i in range(count)
    if _is(e, ast.Name, id="iterable"):
        return "(src_keys iterable)"                        # for key in iterable
    return None


def render_self_update(T, call, scope):
    """self.update(kwargs): the positional source is the keyword dict (a mapping), no further keywords"""
    if len(call.args) != 1 or call.keywords or not _is(call.args[0], ast.Name, id="kwargs"):
        raise py2coq.Unsupported("recursive call of update of an unknown shape")
    return "src_update fuel self (SrcMapping kwargs) []"


CFG_UPDATE = {"name": "src_update", "params": [("self", "tc"), ("iterable", "upd_src"), ("kwargs", "list (K * nat)")],
              "kwarg": "kwargs", "ret": "tc", "num": "N", "procedure": True, "recursive_fuel": True,
              "kinds": {"kwargs": "pairs", "iterable": "src", "count": "nat", "key": "key", "i": "nat"},
              "truthy": {"pairs": "is_nonempty"}, "self_methods": {"add": "src_add", "update": render_self_update},
              "conds": [cond_update], "iterables": [iter_update], "shapes": [shape_getattr_items]}

HEADER_UPDATE = """
(* ---- ThresholdCounter.update(iterable, **kwargs) ----------------------------------------------------
   The positional argument is None, something with a callable iteritems/items (a mapping: its pairs), or
   any other iterable (its keys); kwargs is the keyword dictionary (key -> count).  Recursion on fuel. *)
Inductive upd_src := SrcNone | SrcMapping (kcs : list (K * nat)) | SrcIterable (ks : list K).
Definition src_is_none (x : upd_src) : bool := match x with SrcNone => true | _ => false end.
Definition src_items_method (x : upd_src) : option (list (K * nat)) := match x with SrcMapping m => Some m | _ => None end.
Definition opt_is_some {A} (o : option A) : bool := match o with Some _ => true | None => false end.
Definition opt_items (o : option (list (K * nat))) : list (K * nat) := match o with Some m => m | None => [] end.
Definition src_keys (x : upd_src) : list K := match x with SrcIterable ks => ks | _ => [] end.
"""

# ---- value-returning methods -------------------------------------------------------------------------
ATTRS = {"total": ("tc_total", "set_total", "int"), "_count_map": ("tc_map", "set_map", "dict"),
         "_cur_bucket": ("tc_bucket", "set_bucket", "int"), "_thresh_count": ("tc_w", "set_w", "int")}


def iter_values(T, e, scope):
    # self._count_map.values()
    if isinstance(e, ast.Call) and isinstance(e.func, ast.Attribute) and e.func.attr == "values" and not e.args and not e.keywords and \
            isinstance(e.func.value, ast.Attribute) and _is(e.func.value.value, ast.Name, id="self") and e.func.value.attr == "_count_map":
        return "(d_values (tc_map self))"
    return None


CFG_COMMON = {"name": "src_get_common_count", "params": [("self", "tc")], "ret": "N", "num": "N", "attrs": ATTRS,
              "kinds": {"count": "int", "_": "int"}, "calls": {"sum": ("sumN", "int")}, "iterables": [iter_values]}
CFG_UNCOMMON = {"name": "src_get_uncommon_count", "params": [("self", "tc")], "ret": "N", "num": "N", "attrs": ATTRS,
                "self_funcs": {"get_common_count": "src_get_common_count"}, "self_func_kinds": {"get_common_count": "int"}}
CFG_LEN = {"name": "src_len", "params": [("self", "tc")], "ret": "N", "num": "N", "attrs": ATTRS, "calls": {"len": ("nlen", "int")}}


def cond_mc(T, e, scope):
    if isinstance(e, ast.Compare) and len(e.ops) == 1 and _is(e.left, ast.Name, id="n") and _is(e.comparators[0], ast.Constant, value=None):
        if isinstance(e.ops[0], ast.IsNot):
            return "(opt_is_some n)"
        if isinstance(e.ops[0], ast.Is):
            return "(negb (opt_is_some n))"
    return None


def expr_mc(T, e, scope):
    if _is(e, ast.Name, id="n"):
        return "(opt_getZ n)"              # only evaluated where Python has already established `n is not None`
    # sorted(self.iteritems(), key=lambda x: x[1], reverse=True)
    if isinstance(e, ast.Call) and _is(e.func, ast.Name, id="sorted"):
        try:
            assert len(e.args) == 1 and len(e.keywords) == 2
            a = e.args[0]
            assert isinstance(a, ast.Call) and isinstance(a.func, ast.Attribute) and _is(a.func.value, ast.Name, id="self")
            assert a.func.attr in ("iteritems", "items") and not a.args and not a.keywords
            kw = {k.arg: k.value for k in e.keywords}
            lam = kw["key"]
            assert isinstance(lam, ast.Lambda) and len(lam.args.args) == 1 and isinstance(lam.body, ast.Subscript)
            assert _is(lam.body.value, ast.Name, id=lam.args.args[0].arg) and _is(lam.body.slice, ast.Constant, value=1)
            assert _is(kw["reverse"], ast.Constant, value=True)
        except (AssertionError, KeyError):
            raise py2coq.Unsupported("sorted(...) call of an unknown shape")
        return "(sort_desc (tc_items self))"
    # ret[:n]
    if isinstance(e, ast.Subscript) and _is(e.value, ast.Name, id="ret") and isinstance(e.slice, ast.Slice) and \
            e.slice.lower is None and e.slice.step is None and _is(e.slice.upper, ast.Name, id="n"):
        return "(firstn (Z.to_nat (opt_getZ n)) ret)"
    return None


def kind_mc(T, e):
    if _is(e, ast.Name, id="n"):
        return "int"
    return None


CFG_MC = {"name": "src_most_common", "params": [("self", "tc"), ("n", "option Z")], "ret": "list (K * N)", "num": "Z",
          "defaults": {"n": "None"}, "attrs": ATTRS, "kinds": {"ret": "list"}, "calls": {"len": ("zlen", "int")},
          "conds": [cond_mc], "exprs": [expr_mc], "kind_of": [kind_mc], "rv_default": "[]"}

HEADER_VALUES = """
(* ---- value-returning methods: get_common_count, get_uncommon_count, __len__, most_common(n) ---------- *)
Definition opt_getZ (o : option Z) : Z := match o with Some z => z | None => 0%Z end.
"""

HEADER = """(* GENERATED on every run by harness/translators/c20_src.py from %s
   (ThresholdCounter.add); do not edit.  Integers are N: the only subtraction is _cur_bucket - 1 and
   _cur_bucket >= 1 is an invariant (Proofs.C20_Proofs.inv_bucket). *)
From Boltons Require Import Lib.Prelude Lib.PySrc Model.C20_Model.
Open Scope N_scope.
Definition set_total (s : tc) (x : N) : tc := mkTC x (tc_bucket s) (tc_w s) (tc_map s).
Definition set_bucket (s : tc) (x : N) : tc := mkTC (tc_total s) x (tc_w s) (tc_map s).
Definition set_map (s : tc) (m : pydict (N * N)) : tc := mkTC (tc_total s) (tc_bucket s) (tc_w s) m.
"""


def generate(repo):
    path = os.path.join(repo, "boltons", "cacheutils.py")
    return {"C20_Src": HEADER % path + py2coq.translate(path, "ThresholdCounter.add", CFG) + HEADER_UPDATE +
            py2coq.translate(path, "ThresholdCounter.update", CFG_UPDATE) + HEADER_VALUES +
            py2coq.translate(path, "ThresholdCounter.get_common_count", CFG_COMMON) +
            py2coq.translate(path, "ThresholdCounter.get_uncommon_count", CFG_UNCOMMON) +
            py2coq.translate(path, "ThresholdCounter.__len__", CFG_LEN) +
            py2coq.translate(path, "ThresholdCounter.most_common", CFG_MC)}
