"""(T) tie for C07, second part: URL.normalize and URL.navigate regenerated as Gallina from /repo's
current source on every run (Gen/C07_Src2.v) and proved equal to the model in Proofs/C07_SrcEq2.v
(C07_source_normalize, C07_source_navigate).

Uses the shared fail-closed translator py2coq after a small, equally fail-closed, preparation of
the ast (anything not listed raises py2coq.Unsupported = broken tie):

  normalize   `x.lower()`                      -> lower x            (ASCII lower-casing of the model)
  navigate    the prologue
                  orig_dest = None
                  if not isinstance(dest, URL):
                      dest, orig_dest = URL(dest), dest
              is PINNED (compared with exactly this text) and cut off: it is the str/URL dispatch that
              Model.navigate performs with url_of_text.  The rest of the body is translated as a
              function of  self, dest (a URL object), orig_is_none (bool: dest was passed as a URL
              object) and dest_copy (the value of `URL(dest)`, only used where the source builds it):
                  `orig_dest is None`                    -> orig_is_none
                  `URL(dest.to_text(full_quote=True))`   -> dest_copy
                  `dest.<attr>`                          -> the model's field / property of dest
                  `dest.path.startswith('/')`            -> starts_with "/" (path_text dest)
                  `x.insert(0, e)`                       -> x := e :: x
                  `x.normalize()`                        -> x := src_normalize x true
                  `ret = self.from_parts(k=v, ...)`      -> ret := from_parts ... with exactly the eight
                                                            keywords of the model; `a or b` values become
                                                            or_str / or_port (Python's value-`or`)
"""
import ast
import os
import py2coq
from py2coq import Unsupported

URL_ATTRS = {  # attribute -> (model projection, kind)
    "scheme": ("u_scheme", "str"), "host": ("u_host", "str"), "username": ("u_user", "str"),
    "password": ("u_pass", "str"), "fragment": ("u_frag", "str"), "port": ("u_port", "port"),
    "path_parts": ("u_path", "list"), "query_params": ("u_query", "qlist"), "path": ("path_text", "str"),
}

PROLOGUE = """
orig_dest = None
if not isinstance(dest, URL):
    dest, orig_dest = URL(dest), dest
"""

FROM_PARTS_ORDER = ["scheme", "host", "path_parts", "query_params", "fragment", "port", "username", "password"]


class _PrepNavigate(ast.NodeTransformer):
    """dest.<attr> -> dget_<attr>(dest); dest.path.startswith(c) -> startswith(dget_path(dest), c);
    orig_dest is None -> orig_is_none; URL(dest) -> dest_copy."""

    def visit_Call(self, node):
        f = node.func
        if isinstance(f, ast.Attribute) and f.attr == "startswith" and len(node.args) == 1 and not node.keywords:
            return ast.Call(func=ast.Name(id="startswith", ctx=ast.Load()),
                            args=[self.visit(f.value), self.visit(node.args[0])], keywords=[])
        if isinstance(f, ast.Name) and f.id == "URL":
            # URL(dest.to_text(full_quote=True)): the copy of the destination object
            a = node.args[0] if len(node.args) == 1 and not node.keywords else None
            if isinstance(a, ast.Call) and isinstance(a.func, ast.Attribute) and a.func.attr == "to_text" \
                    and isinstance(a.func.value, ast.Name) and a.func.value.id == "dest" and not a.args \
                    and len(a.keywords) == 1 and a.keywords[0].arg == "full_quote" \
                    and isinstance(a.keywords[0].value, ast.Constant) and a.keywords[0].value.value is True:
                return ast.Name(id="dest_copy", ctx=ast.Load())
            raise Unsupported("URL(...) other than URL(dest.to_text(full_quote=True))")
        return self.generic_visit(node)

    def visit_Attribute(self, node):
        if isinstance(node.value, ast.Name) and node.value.id == "dest" and isinstance(node.ctx, ast.Load):
            if node.attr not in URL_ATTRS:
                raise Unsupported("dest.%s" % node.attr)
            return ast.Call(func=ast.Name(id="dget_" + node.attr, ctx=ast.Load()),
                            args=[ast.Name(id="dest", ctx=ast.Load())], keywords=[])
        return self.generic_visit(node)

    def visit_Compare(self, node):
        if len(node.ops) == 1 and isinstance(node.ops[0], ast.Is) and isinstance(node.left, ast.Name) \
                and node.left.id == "orig_dest" and isinstance(node.comparators[0], ast.Constant) \
                and node.comparators[0].value is None:
            return ast.Name(id="orig_is_none", ctx=ast.Load())
        return self.generic_visit(node)

    def visit_Name(self, node):
        if node.id == "orig_dest":
            raise Unsupported("orig_dest used other than in `orig_dest is None`")
        return node


class _PrepLower(ast.NodeTransformer):
    def visit_Call(self, node):
        f = node.func
        if isinstance(f, ast.Attribute) and f.attr == "lower" and not node.args and not node.keywords:
            return ast.Call(func=ast.Name(id="str_lower", ctx=ast.Load()), args=[self.visit(f.value)], keywords=[])
        return self.generic_visit(node)


# ---- statement shapes ------------------------------------------------------------------------
def shape_insert0(T, s, probe, scope=None):
    """x.insert(0, e)"""
    if not (isinstance(s, ast.Expr) and isinstance(s.value, ast.Call) and isinstance(s.value.func, ast.Attribute)
            and s.value.func.attr == "insert" and isinstance(s.value.func.value, ast.Name)):
        return None
    c = s.value
    if len(c.args) != 2 or c.keywords or not (isinstance(c.args[0], ast.Constant) and c.args[0].value == 0
                                              and type(c.args[0].value) is int):
        raise Unsupported("insert() other than insert(0, e)")
    x = c.func.value.id
    if probe:
        return [x]
    if x not in scope:
        raise Unsupported("insert on unbound %s" % x)
    return "let %s := %s :: %s in\n" % (py2coq.cname(x), T.expr(c.args[1], scope), py2coq.cname(x))


def shape_normalize_call(T, s, probe, scope=None):
    """x.normalize()   (x a local URL object; with_case defaults to True)"""
    if not (isinstance(s, ast.Expr) and isinstance(s.value, ast.Call) and isinstance(s.value.func, ast.Attribute)
            and s.value.func.attr == "normalize" and isinstance(s.value.func.value, ast.Name)):
        return None
    c = s.value
    if c.args or c.keywords:
        raise Unsupported("normalize() with arguments")
    x = c.func.value.id
    if x == "self":
        raise Unsupported("navigate normalizes the base itself")
    if probe:
        return [x]
    if x not in scope:
        raise Unsupported("normalize on unbound %s" % x)
    return "let %s := src_normalize %s true in\n" % (py2coq.cname(x), py2coq.cname(x))


def shape_from_parts(T, s, probe, scope=None):
    """x = self.from_parts(scheme=..., host=..., port=..., path_parts=..., query_params=..., fragment=...,
    username=..., password=...)"""
    if not (isinstance(s, ast.Assign) and len(s.targets) == 1 and isinstance(s.targets[0], ast.Name)
            and isinstance(s.value, ast.Call) and isinstance(s.value.func, ast.Attribute)
            and s.value.func.attr == "from_parts"):
        return None
    c = s.value
    if not (isinstance(c.func.value, ast.Name) and c.func.value.id == "self") or c.args:
        raise Unsupported("from_parts not called as self.from_parts(keyword=...)")
    kw = {k.arg: k.value for k in c.keywords}
    if None in kw or sorted(kw) != sorted(FROM_PARTS_ORDER) or len(c.keywords) != len(FROM_PARTS_ORDER):
        raise Unsupported("from_parts keywords %s" % sorted(k for k in kw if k))
    x = s.targets[0].id
    if probe:
        return [x]

    def val(name):
        v = kw[name]
        if isinstance(v, ast.BoolOp):
            if not isinstance(v.op, ast.Or) or len(v.values) != 2:
                raise Unsupported("value of %s" % name)
            f = "or_port" if name == "port" else "or_str"
            want = "port" if name == "port" else "str"
            if T.kind(v.values[0]) != want or T.kind(v.values[1]) != want:
                raise Unsupported("kinds in the value of %s" % name)
            return "(%s %s %s)" % (f, T.expr(v.values[0], scope), T.expr(v.values[1], scope))
        want = {"path_parts": "list", "query_params": "qlist", "port": "port"}.get(name, "str")
        if T.kind(v) != want:
            raise Unsupported("kind of the value of %s" % name)
        return T.expr(v, scope)
    return "let %s := from_parts %s in\n" % (py2coq.cname(x), " ".join(val(n) for n in FROM_PARTS_ORDER))


def _call_startswith(T, e, scope):
    if len(e.args) != 2 or e.keywords or T.kind(e.args[0]) != "str" or T.kind(e.args[1]) != "str":
        raise Unsupported("startswith")
    return "(starts_with %s %s)" % (T.expr(e.args[1], scope), T.expr(e.args[0], scope))


def _calls():
    c = {"list": ("", "list"), "startswith": (_call_startswith, "bool"), "str_lower": ("lower", "str"),
         "resolve_path_parts": ("resolve_path_parts", "list")}
    for a, (proj, kind) in URL_ATTRS.items():
        c["dget_" + a] = (proj, kind)
    return c


COMMON = {
    "num": "N",
    "consts": {repr(''): "(@nil N)", repr('/'): "[47]"},
    "eqb": {"str": "str_eqb", "list": "strs_eqb"},
    "truthy": {"list": "nonempty", "str": "nonempty", "qlist": "nonempty"},
    "attrs": {"scheme": ("u_scheme", "set_scheme", "str"), "host": ("u_host", "set_host", "str"),
              "path_parts": ("u_path", "set_path", "list"), "query_params": ("u_query", "set_query", "qlist"),
              "username": ("u_user", "set_user", "str"), "password": ("u_pass", "set_pass", "str"),
              "port": ("u_port", "set_port", "port"), "fragment": ("u_frag", "set_frag", "str")},
    "subscripts": {("list", "[:-1]"): ("removelast", "list"), ("list", "[:1]"): ("py_first1", "list")},
}

HEADER = """(* GENERATED on every run by harness/translators/c07_src2.py from %s
   (URL.normalize, URL.navigate without its str/URL dispatch prologue); do not edit. *)
From Boltons Require Import Lib.Prelude Lib.PySrc Lib.C07_Str Spec.C07_Spec Gen.C07_Gen Model.C07_Model.
Open Scope N_scope.
Definition set_scheme (u : url) (x : str) : url :=
  mkUrl x (u_sep u) (u_user u) (u_pass u) (u_host u) (u_port u) (u_path u) (u_query u) (u_frag u).
Definition set_host (u : url) (x : str) : url :=
  mkUrl (u_scheme u) (u_sep u) (u_user u) (u_pass u) x (u_port u) (u_path u) (u_query u) (u_frag u).
Definition set_path (u : url) (x : list str) : url :=
  mkUrl (u_scheme u) (u_sep u) (u_user u) (u_pass u) (u_host u) (u_port u) x (u_query u) (u_frag u).
Definition py_first1 {A} (l : list A) : list A := firstn 1 l.                  (* l[:1] *)
"""


def _function(path, name):
    return py2coq.get_function(path, "URL." + name)


def gen_normalize(path):
    node = _PrepLower().visit(_function(path, "normalize"))
    ast.fix_missing_locations(node)
    cfg = dict(COMMON, name="src_normalize", params=[("self", "url"), ("with_case", "bool")], ret="url",
               procedure=True, kinds={"with_case": "bool"}, defaults={"with_case": "True"}, calls=_calls())
    return py2coq.Translator(cfg).function(node)


def gen_navigate(path):
    node = _function(path, "navigate")
    body = list(node.body)
    if body and isinstance(body[0], ast.Expr) and isinstance(body[0].value, ast.Constant):
        body = body[1:]
    want = ast.parse(PROLOGUE).body
    if len(body) < len(want) + 1 or [ast.dump(x) for x in body[:len(want)]] != [ast.dump(x) for x in want]:
        raise Unsupported("the str/URL dispatch prologue of navigate changed")
    if [a.arg for a in node.args.args] != ["self", "dest"] or node.args.vararg or node.args.kwarg \
            or node.args.kwonlyargs or node.args.defaults:
        raise Unsupported("parameters of navigate changed")
    rest = [_PrepNavigate().visit(x) for x in body[len(want):]]
    fn = ast.FunctionDef(name="navigate", body=rest, decorator_list=[], returns=None, type_comment=None,
                         args=ast.arguments(posonlyargs=[], kwonlyargs=[], kw_defaults=[], defaults=[], vararg=None,
                                            kwarg=None, args=[ast.arg(arg=a) for a in
                                                              ("self", "dest", "orig_is_none", "dest_copy")]))
    try:
        fn.type_params = []
    except Exception:
        pass
    ast.fix_missing_locations(fn)
    # kinds and pre-bindings of the locals are inferred from what is assigned to them (by role, not by
    # name: renaming a local of navigate is not an alarm)
    kinds = {"dest": "url", "dest_copy": "url", "orig_is_none": "bool"}
    cfg = dict(COMMON, name="src_navigate_core",
               params=[("self", "url"), ("dest", "url"), ("orig_is_none", "bool"), ("dest_copy", "url")],
               ret="url", kinds=kinds, calls=_calls(), rv_default="self", prebind={},
               shapes=[shape_insert0, shape_normalize_call, shape_from_parts])
    T = py2coq.Translator(cfg)
    default = {"list": "(@nil str)", "url": "self", "qlist": "(@nil (str * option str))", "str": "(@nil N)"}

    def infer(stmts):
        for st in stmts:
            if isinstance(st, ast.Assign) and len(st.targets) == 1 and isinstance(st.targets[0], ast.Name):
                v = st.value
                if isinstance(v, ast.Call) and isinstance(v.func, ast.Attribute) and v.func.attr == "from_parts":
                    k = "url"
                else:
                    k = T.kind(v)
                name = st.targets[0].id
                if kinds.get(name, k) != k or k not in default:
                    raise Unsupported("local %s changes kind (%s)" % (name, k))
                kinds[name] = k
                cfg["prebind"].setdefault(name, default[k])
            elif isinstance(st, ast.If):
                infer(st.body)
                infer(st.orelse)
    infer(rest)
    return py2coq.Translator(cfg).function(fn)


# ---- URL.from_parts ---------------------------------------------------------------------------
class _PrepFromParts(ast.NodeTransformer):
    """ret -> self (the object under construction); `tuple(x) or ('',)` -> or_list(x, ['']);
    tuples -> lists."""

    def visit_Name(self, node):
        if node.id == "ret":
            return ast.Name(id="self", ctx=node.ctx)
        return node

    def visit_Tuple(self, node):
        return ast.List(elts=[self.visit(e) for e in node.elts], ctx=node.ctx)

    def visit_BoolOp(self, node):
        if isinstance(node.op, ast.Or) and len(node.values) == 2:
            return ast.Call(func=ast.Name(id="or_list", ctx=ast.Load()),
                            args=[self.visit(node.values[0]), self.visit(node.values[1])], keywords=[])
        raise Unsupported("boolean operator in from_parts")


def shape_query_update(T, s, probe, scope=None):
    """self.query_params.update(x)"""
    if not (isinstance(s, ast.Expr) and isinstance(s.value, ast.Call) and isinstance(s.value.func, ast.Attribute)
            and s.value.func.attr == "update"):
        return None
    c = s.value
    tgt = c.func.value
    if not (isinstance(tgt, ast.Attribute) and tgt.attr == "query_params" and isinstance(tgt.value, ast.Name)
            and tgt.value.id == "self") or len(c.args) != 1 or c.keywords or T.kind(c.args[0]) != "qlist":
        raise Unsupported("update() other than <object>.query_params.update(<pairs>)")
    if probe:
        return ["self"]
    return "let self := set_query self (py_omd_update (u_query self) %s) in\n" % T.expr(c.args[0], scope)


FROM_PARTS_PARAMS = [("scheme", "str"), ("host", "str"), ("path_parts", "list str"), ("query_params", "list (str * option str)"),
                     ("fragment", "str"), ("port", "option N"), ("username", "str"), ("password", "str")]


def gen_from_parts(path):
    node = _function(path, "from_parts")
    body = list(node.body)
    if body and isinstance(body[0], ast.Expr) and isinstance(body[0].value, ast.Constant):
        body = body[1:]
    first, last = ast.parse("ret = cls()").body[0], ast.parse("return ret", mode="exec").body[0] if False else None
    if len(body) < 3 or ast.dump(body[0]) != ast.dump(first) or not (
            isinstance(body[-1], ast.Return) and isinstance(body[-1].value, ast.Name) and body[-1].value.id == "ret"):
        raise Unsupported("from_parts no longer is `ret = cls(); ...; return ret`")
    if [a.arg for a in node.args.args] != ["cls"] + [p for p, _ in FROM_PARTS_PARAMS] or node.args.vararg \
            or node.args.kwarg or node.args.kwonlyargs:
        raise Unsupported("parameters of from_parts changed")
    mid = [_PrepFromParts().visit(x) for x in body[1:-1]]
    fn = ast.FunctionDef(name="from_parts", body=mid + [ast.Return(value=None)], decorator_list=[], returns=None,
                         type_comment=None,
                         args=ast.arguments(posonlyargs=[], kwonlyargs=[], kw_defaults=[], defaults=[], vararg=None,
                                            kwarg=None, args=[ast.arg(arg=a) for a in
                                                              ["self"] + [p for p, _ in FROM_PARTS_PARAMS]]))
    try:
        fn.type_params = []
    except Exception:
        pass
    ast.fix_missing_locations(fn)
    calls = dict(_calls(), tuple=("", "list"), or_list=("py_or_list", "list"))
    kinds = {"scheme": "str", "host": "str", "path_parts": "list", "query_params": "qlist", "fragment": "str",
             "port": "port", "username": "str", "password": "str"}
    cfg = dict(COMMON, name="src_from_parts", params=[("self", "url")] + FROM_PARTS_PARAMS, ret="url",
               procedure=True, kinds=kinds, calls=calls, shapes=[shape_query_update])
    return py2coq.Translator(cfg).function(fn)


HEADER2 = """Definition set_user (u : url) (x : str) : url :=
  mkUrl (u_scheme u) (u_sep u) x (u_pass u) (u_host u) (u_port u) (u_path u) (u_query u) (u_frag u).
Definition set_pass (u : url) (x : str) : url :=
  mkUrl (u_scheme u) (u_sep u) (u_user u) x (u_host u) (u_port u) (u_path u) (u_query u) (u_frag u).
Definition set_port (u : url) (x : option N) : url :=
  mkUrl (u_scheme u) (u_sep u) (u_user u) (u_pass u) (u_host u) x (u_path u) (u_query u) (u_frag u).
Definition set_query (u : url) (x : list (str * option str)) : url :=
  mkUrl (u_scheme u) (u_sep u) (u_user u) (u_pass u) (u_host u) (u_port u) (u_path u) x (u_frag u).
Definition set_frag (u : url) (x : str) : url :=
  mkUrl (u_scheme u) (u_sep u) (u_user u) (u_pass u) (u_host u) (u_port u) (u_path u) (u_query u) x.
Definition py_or_list {A} (a b : list A) : list A := if nonempty a then a else b.        (* a or b *)
(* OrderedMultiDict.update(E) for a multi-dict E: keys of E are removed from self, then every
   (key, value) of E is added in E's order *)
Definition py_omd_update (cur new : list (str * option str)) : list (str * option str) :=
  filter (fun kv => negb (existsb (fun kv' => str_eqb (fst kv) (fst kv')) new)) cur ++ new.
"""


def generate(repo):
    path = os.path.join(repo, "boltons", "urlutils.py")
    return {"C07_Src2": HEADER % path + HEADER2 + gen_normalize(path) + gen_from_parts(path) + gen_navigate(path)}


if __name__ == "__main__":
    import sys
    print(generate(sys.argv[1] if len(sys.argv) > 1 else "/repo")["C07_Src2"])
