"""(T) tie for C08: the three default callbacks of remap (default_visit, default_enter, default_exit)
regenerated as Gallina decision functions from /repo's current source, together with the isinstance / hasattr
facts about the built-in types they rely on (evaluated on the live classes).  Fail closed: any statement,
test or expression outside the shapes below raises, which the driver reports as a broken tie.

The `while stack:` loop of remap itself is not translated (hand-written model, tied by correspondence)."""
import ast
import os
import sys


class Unsupported(Exception):
    pass


ABCS = {"str": "AStr", "bytes": "ABytes", "Mapping": "AMapping", "Sequence": "ASequence", "Set": "ASet"}
TYPES = [("TyList", list), ("TyTuple", tuple), ("TyDict", dict), ("TySet", set), ("TyFrozen", frozenset),
         ("TyStr", str), ("TyBytes", bytes), ("TyOther", int)]


def _fn(tree, name):
    for n in tree.body:
        if isinstance(n, ast.FunctionDef) and n.name == name:
            return n
    raise Unsupported("function %s not found" % name)


def _args(fn, n):
    """the callbacks are called positionally: parameter names do not matter, their number does"""
    a = fn.args
    if len(a.args) != n or a.vararg or a.kwarg or a.kwonlyargs or a.defaults or a.posonlyargs:
        raise Unsupported("%s: unexpected signature" % fn.name)
    names = [x.arg for x in a.args]
    if len(set(names)) != n:
        raise Unsupported("%s: duplicate parameter" % fn.name)
    return names


def _body(fn):
    body = list(fn.body)
    if body and isinstance(body[0], ast.Expr) and isinstance(body[0].value, ast.Constant) \
            and isinstance(body[0].value.value, str):
        body = body[1:]                               # docstring
    return body


def _isinstance_test(test, var):
    """isinstance(var, X) or isinstance(var, (X, Y)) -> Coq boolean over [t]"""
    if not (isinstance(test, ast.Call) and isinstance(test.func, ast.Name) and test.func.id == "isinstance"
            and len(test.args) == 2 and not test.keywords
            and isinstance(test.args[0], ast.Name) and test.args[0].id == var):
        raise Unsupported("test is not isinstance(%s, ...): %s" % (var, ast.dump(test)))
    x = test.args[1]
    names = [x] if isinstance(x, ast.Name) else list(x.elts) if isinstance(x, ast.Tuple) else None
    if not names or not all(isinstance(n, ast.Name) and n.id in ABCS for n in names):
        raise Unsupported("isinstance against something else than str/bytes/Mapping/Sequence/Set: %s" % ast.dump(x))
    return " || ".join("gen_isinst t %s" % ABCS[n.id] for n in names)


def _if_chain(stmt):
    """[(test, body), ...], else_body"""
    arms = []
    while True:
        if not isinstance(stmt, ast.If):
            raise Unsupported("expected an if statement")
        arms.append((stmt.test, stmt.body))
        if len(stmt.orelse) == 1 and isinstance(stmt.orelse[0], ast.If):
            stmt = stmt.orelse[0]
        else:
            return arms, stmt.orelse


def _is_name(e, name):
    return isinstance(e, ast.Name) and e.id == name


def _class_call(e, var, args):
    """var.__class__(*args)"""
    return (isinstance(e, ast.Call) and not e.keywords and isinstance(e.func, ast.Attribute)
            and e.func.attr == "__class__" and _is_name(e.func.value, var)
            and len(e.args) == len(args) and all(_is_name(a, n) for a, n in zip(e.args, args)))


def gen_visit(tree):
    fn = _fn(tree, "default_visit")
    _path, key, value = _args(fn, 3)
    body = _body(fn)
    if not (len(body) == 1 and isinstance(body[0], ast.Return) and isinstance(body[0].value, ast.Tuple)
            and len(body[0].value.elts) == 2 and _is_name(body[0].value.elts[0], key)
            and _is_name(body[0].value.elts[1], value)):
        raise Unsupported("default_visit is not `return key, value`")
    return "Definition src_default_visit {K V : Type} (key : K) (value : V) : K * V := (key, value).\n"


def _enter_return(body, value="value"):
    if not (len(body) == 1 and isinstance(body[0], ast.Return) and isinstance(body[0].value, ast.Tuple)
            and len(body[0].value.elts) == 2):
        raise Unsupported("default_enter: branch is not a single `return a, b`")
    a, b = body[0].value.elts
    if _is_name(a, value) and isinstance(b, ast.Constant) and b.value is False:
        return "NoTraverse"
    if _class_call(a, value, []) and isinstance(b, ast.Call) and not b.keywords and isinstance(b.func, ast.Name) \
            and len(b.args) == 1 and _is_name(b.args[0], value) and b.func.id in ("ItemsView", "enumerate"):
        return "Traverse %s" % ("ItItems" if b.func.id == "ItemsView" else "ItEnumerate")
    raise Unsupported("default_enter: unknown return %s" % ast.dump(body[0].value))


def gen_enter(tree):
    fn = _fn(tree, "default_enter")
    _path, _key, value = _args(fn, 3)
    if value in ABCS or value in ("ItemsView", "enumerate", "isinstance"):
        raise Unsupported("default_enter: parameter shadows a name it uses")
    body = _body(fn)
    if len(body) != 1:
        raise Unsupported("default_enter: expected one if-chain")
    arms, orelse = _if_chain(body[0])
    out = "Definition src_default_enter (t : pyty) : enter_res :=\n"
    for test, b in arms:
        out += "  if %s then %s else\n" % (_isinstance_test(test, value), _enter_return(b, value))
    out += "  %s.\n" % _enter_return(orelse, value)
    return out


def _exit_branch(body, new_parent="new_parent", new_items="new_items", ret="ret"):
    # new_parent.update(new_items)
    if len(body) == 1 and isinstance(body[0], ast.Expr):
        c = body[0].value
        if (isinstance(c, ast.Call) and not c.keywords and isinstance(c.func, ast.Attribute) and c.func.attr == "update"
                and _is_name(c.func.value, new_parent) and len(c.args) == 1 and _is_name(c.args[0], new_items)):
            return "ExUpdateItems"
    # raise RuntimeError(...)
    if len(body) == 1 and isinstance(body[0], ast.Raise) and isinstance(body[0].exc, ast.Call) \
            and _is_name(body[0].exc.func, "RuntimeError"):
        return "ExRaise"
    # vals = [v for i, v in new_items]; try: new_parent.M(vals) except AttributeError: ret = new_parent.__class__(vals)
    if len(body) == 2 and isinstance(body[0], ast.Assign) and isinstance(body[1], ast.Try):
        a, t = body
        lc = a.value
        ok = (len(a.targets) == 1 and isinstance(a.targets[0], ast.Name) and isinstance(lc, ast.ListComp)
              and isinstance(lc.elt, ast.Name) and len(lc.generators) == 1 and not lc.generators[0].ifs
              and not lc.generators[0].is_async and _is_name(lc.generators[0].iter, new_items)
              and isinstance(lc.generators[0].target, ast.Tuple) and len(lc.generators[0].target.elts) == 2
              and _is_name(lc.generators[0].target.elts[1], lc.elt.id)
              and isinstance(lc.generators[0].target.elts[0], ast.Name)
              and lc.generators[0].target.elts[0].id != lc.elt.id)
        vals = a.targets[0].id if ok else None
        ok = ok and vals not in (new_parent, new_items, ret)
        ok = ok and len(t.body) == 1 and len(t.handlers) == 1 and not t.orelse and not t.finalbody
        if ok:
            c, h = t.body[0], t.handlers[0]
            ok = (isinstance(c, ast.Expr) and isinstance(c.value, ast.Call) and not c.value.keywords
                  and isinstance(c.value.func, ast.Attribute) and _is_name(c.value.func.value, new_parent)
                  and c.value.func.attr in ("extend", "update") and len(c.value.args) == 1
                  and _is_name(c.value.args[0], vals)
                  and _is_name(h.type, "AttributeError") and h.name is None and len(h.body) == 1
                  and isinstance(h.body[0], ast.Assign) and len(h.body[0].targets) == 1
                  and _is_name(h.body[0].targets[0], ret) and _class_call(h.body[0].value, new_parent, [vals]))
            if ok:
                return "ExTryMethod %s" % ("MExtend" if c.value.func.attr == "extend" else "MUpdate")
    raise Unsupported("default_exit: unknown branch %s" % [ast.dump(s)[:200] for s in body])


def gen_exit(tree):
    fn = _fn(tree, "default_exit")
    _path, _key, _old, new_parent, new_items = _args(fn, 5)
    body = _body(fn)
    if not (len(body) == 3 and isinstance(body[0], ast.Assign) and len(body[0].targets) == 1
            and isinstance(body[0].targets[0], ast.Name) and _is_name(body[0].value, new_parent)
            and isinstance(body[2], ast.Return) and _is_name(body[2].value, body[0].targets[0].id)):
        raise Unsupported("default_exit: expected `ret = new_parent; if ...; return ret`")
    ret = body[0].targets[0].id
    if len({ret, new_parent, new_items}) != 3 or {ret, new_parent, new_items} & (set(ABCS) | {"isinstance"}):
        raise Unsupported("default_exit: names clash")
    arms, orelse = _if_chain(body[1])
    out = "Definition src_default_exit (t : pyty) : exit_res :=\n"
    for test, b in arms:
        out += "  if %s then %s else\n" % (_isinstance_test(test, new_parent), _exit_branch(b, new_parent, new_items, ret))
    out += "  %s.\n" % _exit_branch(orelse, new_parent, new_items, ret)
    return out


def gen_tables(mod):
    import collections.abc as cabc
    # the names the source tests against must be the real ABCs / builtins
    for n, real in (("Mapping", cabc.Mapping), ("Sequence", cabc.Sequence), ("Set", cabc.Set),
                    ("ItemsView", cabc.ItemsView)):
        if getattr(mod, n, None) is not real:
            raise Unsupported("iterutils.%s is not collections.abc.%s" % (n, n))
    abcs = {"AStr": str, "ABytes": bytes, "AMapping": cabc.Mapping, "ASequence": cabc.Sequence, "ASet": cabc.Set}
    rows = ["  | %s, %s => true" % (tn, an) for tn, ty in TYPES for an, a in abcs.items() if issubclass(ty, a)]
    out = "Definition gen_isinst (t : pyty) (a : abc) : bool :=\n  match t, a with\n%s\n  | _, _ => false\n  end.\n" \
          % "\n".join(rows)
    rows = ["  | %s, %s => true" % (tn, mn) for tn, ty in TYPES for mn, m in (("MExtend", "extend"), ("MUpdate", "update"))
            if hasattr(ty, m)]
    out += "Definition gen_hasattr (t : pyty) (m : meth) : bool :=\n  match t, m with\n%s\n  | _, _ => false\n  end.\n" \
           % "\n".join(rows)
    return out


HEADER = """(* GENERATED on every run by harness/translators/c08_src.py from %s
   (default_visit, default_enter, default_exit) and from the live built-in classes; do not edit. *)
From Boltons Require Import Lib.Prelude Lib.C08_Py Spec.C08_Spec Model.C08_Model.
"""


def generate(repo):
    path = os.path.join(repo, "boltons", "iterutils.py")
    tree = ast.parse(open(path).read())
    sys.path.insert(0, repo)
    for k in [k for k in sys.modules if k == "boltons" or k.startswith("boltons.")]:
        del sys.modules[k]
    import importlib
    mod = importlib.import_module("boltons.iterutils")
    if not os.path.abspath(mod.__file__) == os.path.abspath(path):
        raise Unsupported("imported %s instead of %s" % (mod.__file__, path))
    # remap's default arguments must be these three functions
    import inspect
    sig = inspect.signature(mod.remap)
    for n in ("visit", "enter", "exit"):
        if sig.parameters[n].default is not getattr(mod, "default_" + n):
            raise Unsupported("remap's default %s is not default_%s" % (n, n))
    if mod.research.__defaults__[-1] is not mod.default_enter:
        raise Unsupported("research's default enter is not default_enter")
    return {"C08_Src": HEADER % path + gen_tables(mod) + gen_visit(tree) + gen_enter(tree) + gen_exit(tree)}
