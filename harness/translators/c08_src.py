"""(T) tie for C08: the three default callbacks of remap (default_visit, default_enter, default_exit)
regenerated as Gallina decision functions from /repo's current source, together with the isinstance / hasattr
facts about the built-in types they rely on (evaluated on the live classes).  Fail closed: any statement,
test or expression outside the shapes below raises, which the driver reports as a broken tie.

The `while stack:` loop of remap itself is not translated (hand-written model, tied by correspondence)."""
import ast
import os
import sys


class Unsupported(Exception):
    pass


ABCS = {"str": "AStr", "bytes": "ABytes", "Mapping": "AMapping", "Sequence": "ASequence", "Set": "ASet"}
TYPES = [("TyList", list), ("TyTuple", tuple), ("TyDict", dict), ("TySet", set), ("TyFrozen", frozenset),
         ("TyStr", str), ("TyBytes", bytes), ("TyOther", int)]


def _fn(tree, name):
    for n in tree.body:
        if isinstance(n, ast.FunctionDef) and n.name == name:
            return n
    raise Unsupported("function %s not found" % name)


def _args(fn, n):
    """the callbacks are called positionally: parameter names do not matter, their number does"""
    a = fn.args
    if len(a.args) != n or a.vararg or a.kwarg or a.kwonlyargs or a.defaults or a.posonlyargs:
        raise Unsupported("%s: unexpected signature" % fn.name)
    names = [x.arg for x in a.args]
    if len(set(names)) != n:
        raise Unsupported("%s: duplicate parameter" % fn.name)
    return names


def _body(fn):
    body = list(fn.body)
    if body and isinstance(body[0], ast.Expr) and isinstance(body[0].value, ast.Constant) \
            and isinstance(body[0].value.value, str):
        body = body[1:]                               # docstring
    return body


def _isinstance_test(test, var):
    """isinstance(var, X) or isinstance(var, (X, Y)) -> Coq boolean over [t]"""
    if not (isinstance(test, ast.Call) and isinstance(test.func, ast.Name) and test.func.id == "isinstance"
            and len(test.args) == 2 and not test.keywords
            and isinstance(test.args[0], ast.Name) and test.args[0].id == var):
        raise Unsupported("test is not isinstance(%s, ...): %s" % (var, ast.dump(test)))
    x = test.args[1]
    names = [x] if isinstance(x, ast.Name) else list(x.elts) if isinstance(x, ast.Tuple) else None
    if not names or not all(isinstance(n, ast.Name) and n.id in ABCS for n in names):
        raise Unsupported("isinstance against something else than str/bytes/Mapping/Sequence/Set: %s" % ast.dump(x))
    return " || ".join("gen_isinst t %s" % ABCS[n.id] for n in names)


def _if_chain(stmt):
    """[(test, body), ...], else_body"""
    arms = []
    while True:
        if not isinstance(stmt, ast.If):
            raise Unsupported("expected an if statement")
        arms.append((stmt.test, stmt.body))
        if len(stmt.orelse) == 1 and isinstance(stmt.orelse[0], ast.If):
            stmt = stmt.orelse[0]
        else:
            return arms, stmt.orelse


def _is_name(e, name):
    return isinstance(e, ast.Name) and e.id == name


def _class_call(e, var, args):
    """var.__class__(*args)"""
    return (isinstance(e, ast.Call) and not e.keywords and isinstance(e.func, ast.Attribute)
            and e.func.attr == "__class__" and _is_name(e.func.value, var)
            and len(e.args) == len(args) and all(_is_name(a, n) for a, n in zip(e.args, args)))


def gen_visit(tree):
    fn = _fn(tree, "default_visit")
    _path, key, value = _args(fn, 3)
    body = _body(fn)
    if not (len(body) == 1 and isinstance(body[0], ast.Return) and isinstance(body[0].value, ast.Tuple)
            and len(body[0].value.elts) == 2 and _is_name(body[0].value.elts[0], key)
            and _is_name(body[0].value.elts[1], value)):
        raise Unsupported("default_visit is not `return key, value`")
    return "Definition src_default_visit {K V : Type} (key : K) (value : V) : K * V := (key, value).\n"


def _enter_return(body, value="value"):
    if not (len(body) == 1 and isinstance(body[0], ast.Return) and isinstance(body[0].value, ast.Tuple)
            and len(body[0].value.elts) == 2):
        raise Unsupported("default_enter: branch is not a single `return a, b`")
    a, b = body[0].value.elts
    if _is_name(a, value) and isinstance(b, ast.Constant) and b.value is False:
        return "NoTraverse"
    if _class_call(a, value, []) and isinstance(b, ast.Call) and not b.keywords and isinstance(b.func, ast.Name) \
            and len(b.args) == 1 and _is_name(b.args[0], value) and b.func.id in ("ItemsView", "enumerate"):
        return "Traverse %s" % ("ItItems" if b.func.id == "ItemsView" else "ItEnumerate")
    raise Unsupported("default_enter: unknown return %s" % ast.dump(body[0].value))


def gen_enter(tree):
    fn = _fn(tree, "default_enter")
    _path, _key, value = _args(fn, 3)
    if value in ABCS or value in ("ItemsView", "enumerate", "isinstance"):
        raise Unsupported("default_enter: parameter shadows a name it uses")
    body = _body(fn)
    if len(body) != 1:
        raise Unsupported("default_enter: expected one if-chain")
    arms, orelse = _if_chain(body[0])
    out = "Definition src_default_enter (t : pyty) : enter_res :=\n"
    for test, b in arms:
        out += "  if %s then %s else\n" % (_isinstance_test(test, value), _enter_return(b, value))
    out += "  %s.\n" % _enter_return(orelse, value)
    return out


def _exit_branch(body, new_parent="new_parent", new_items="new_items", ret="ret"):
    # new_parent.update(new_items)
    if len(body) == 1 and isinstance(body[0], ast.Expr):
        c = body[0].value
        if (isinstance(c, ast.Call) and not c.keywords and isinstance(c.func, ast.Attribute) and c.func.attr == "update"
                and _is_name(c.func.value, new_parent) and len(c.args) == 1 and _is_name(c.args[0], new_items)):
            return "ExUpdateItems"
    # raise RuntimeError(...)
    if len(body) == 1 and isinstance(body[0], ast.Raise) and isinstance(body[0].exc, ast.Call) \
            and _is_name(body[0].exc.func, "RuntimeError"):
        return "ExRaise"
    # vals = [v for i, v in new_items]; try: new_parent.M(vals) except AttributeError: ret = new_parent.__class__(vals)
    if len(body) == 2 and isinstance(body[0], ast.Assign) and isinstance(body[1], ast.Try):
        a, t = body
        lc = a.value
        ok = (len(a.targets) == 1 and isinstance(a.targets[0], ast.Name) and isinstance(lc, ast.ListComp)
              and isinstance(lc.elt, ast.Name) and len(lc.generators) == 1 and not lc.generators[0].ifs
              and not lc.generators[0].is_async and _is_name(lc.generators[0].iter, new_items)
              and isinstance(lc.generators[0].target, ast.Tuple) and len(lc.generators[0].target.elts) == 2
              and _is_name(lc.generators[0].target.elts[1], lc.elt.id)
              and isinstance(lc.generators[0].target.elts[0], ast.Name)
              and lc.generators[0].target.elts[0].id != lc.elt.id)
        vals = a.targets[0].id if ok else None
        ok = ok and vals not in (new_parent, new_items, ret)
        ok = ok and len(t.body) == 1 and len(t.handlers) == 1 and not t.orelse and not t.finalbody
        if ok:
            c, h = t.body[0], t.handlers[0]
            ok = (isinstance(c, ast.Expr) and isinstance(c.value, ast.Call) and not c.value.keywords
                  and isinstance(c.value.func, ast.Attribute) and _is_name(c.value.func.value, new_parent)
                  and c.value.func.attr in ("extend", "update") and len(c.value.args) == 1
                  and _is_name(c.value.args[0], vals)
                  and _is_name(h.type, "AttributeError") and h.name is None and len(h.body) == 1
                  and isinstance(h.body[0], ast.Assign) and len(h.body[0].targets) == 1
                  and _is_name(h.body[0].targets[0], ret) and _class_call(h.body[0].value, new_parent, [vals]))
            if ok:
                return "ExTryMethod %s" % ("MExtend" if c.value.func.attr == "extend" else "MUpdate")
    raise Unsupported("default_exit: unknown branch %s" % [ast.dump(s)[:200] for s in body])


def gen_exit(tree):
    fn = _fn(tree, "default_exit")
    _path, _key, _old, new_parent, new_items = _args(fn, 5)
    body = _body(fn)
    if not (len(body) == 3 and isinstance(body[0], ast.Assign) and len(body[0].targets) == 1
            and isinstance(body[0].targets[0], ast.Name) and _is_name(body[0].value, new_parent)
            and isinstance(body[2], ast.Return) and _is_name(body[2].value, body[0].targets[0].id)):
        raise Unsupported("default_exit: expected `ret = new_parent; if ...; return ret`")
    ret = body[0].targets[0].id
    if len({ret, new_parent, new_items}) != 3 or {ret, new_parent, new_items} & (set(ABCS) | {"isinstance"}):
        raise Unsupported("default_exit: names clash")
    arms, orelse = _if_chain(body[1])
    out = "Definition src_default_exit (t : pyty) : exit_res :=\n"
    for test, b in arms:
        out += "  if %s then %s else\n" % (_isinstance_test(test, new_parent), _exit_branch(b, new_parent, new_items, ret))
    out += "  %s.\n" % _exit_branch(orelse, new_parent, new_items, ret)
    return out


def gen_tables(mod):
    import collections.abc as cabc
    # the names the source tests against must be the real ABCs / builtins
    for n, real in (("Mapping", cabc.Mapping), ("Sequence", cabc.Sequence), ("Set", cabc.Set),
                    ("ItemsView", cabc.ItemsView)):
        if getattr(mod, n, None) is not real:
            raise Unsupported("iterutils.%s is not collections.abc.%s" % (n, n))
    abcs = {"AStr": str, "ABytes": bytes, "AMapping": cabc.Mapping, "ASequence": cabc.Sequence, "ASet": cabc.Set}
    rows = ["  | %s, %s => true" % (tn, an) for tn, ty in TYPES for an, a in abcs.items() if issubclass(ty, a)]
    out = "Definition gen_isinst (t : pyty) (a : abc) : bool :=\n  match t, a with\n%s\n  | _, _ => false\n  end.\n" \
          % "\n".join(rows)
    rows = ["  | %s, %s => true" % (tn, mn) for tn, ty in TYPES for mn, m in (("MExtend", "extend"), ("MUpdate", "update"))
            if hasattr(ty, m)]
    out += "Definition gen_hasattr (t : pyty) (m : meth) : bool :=\n  match t, m with\n%s\n  | _, _ => false\n  end.\n" \
           % "\n".join(rows)
    return out



# --------------------------------------------------------------------------
# get_path: the lookup step `cur = cur[seg]` with its two layers of exception handling
# --------------------------------------------------------------------------
EXNS = {"KeyError": "KeyError", "IndexError": "IndexError", "TypeError": "TypeError", "ValueError": "ValueError"}


def _exn_list(t):
    names = [t] if isinstance(t, ast.Name) else list(t.elts) if isinstance(t, ast.Tuple) else None
    if not names or not all(isinstance(n, ast.Name) and n.id in EXNS for n in names):
        raise Unsupported("get_path: except clause names something unknown: %s" % (ast.dump(t) if t else None))
    return "[" + "; ".join(EXNS[n.id] for n in names) + "]"


def _is_subscript_assign(st, cur, seg):
    """cur = cur[seg]"""
    return (isinstance(st, ast.Assign) and len(st.targets) == 1 and _is_name(st.targets[0], cur)
            and isinstance(st.value, ast.Subscript) and _is_name(st.value.value, cur) and _is_name(st.value.slice, seg))


def _raises_pae(st, exc, seg, path):
    """raise PathAccessError(exc, seg, path)"""
    return (isinstance(st, ast.Raise) and st.cause is None and isinstance(st.exc, ast.Call) and not st.exc.keywords
            and _is_name(st.exc.func, "PathAccessError") and len(st.exc.args) == 3
            and _is_name(st.exc.args[0], exc) and _is_name(st.exc.args[1], seg) and _is_name(st.exc.args[2], path))


def gen_get_path(tree):
    fn = _fn(tree, "get_path")
    a = fn.args
    if [x.arg for x in a.args] != ["root", "path", "default"] or a.vararg or a.kwarg or a.kwonlyargs \
            or len(a.defaults) != 1 or not _is_name(a.defaults[0], "_UNSET"):
        raise Unsupported("get_path: unexpected signature")
    body = _body(fn)
    try:
        assert len(body) == 4
        s0, s1, s2, s3 = body
        # if isinstance(path, str): path = path.split('.')
        assert isinstance(s0, ast.If) and not s0.orelse and len(s0.body) == 1
        t = s0.test
        assert (isinstance(t, ast.Call) and _is_name(t.func, "isinstance") and len(t.args) == 2
                and _is_name(t.args[0], "path") and _is_name(t.args[1], "str"))
        sp = s0.body[0]
        assert (isinstance(sp, ast.Assign) and _is_name(sp.targets[0], "path") and isinstance(sp.value, ast.Call)
                and isinstance(sp.value.func, ast.Attribute) and sp.value.func.attr == "split"
                and _is_name(sp.value.func.value, "path") and len(sp.value.args) == 1
                and isinstance(sp.value.args[0], ast.Constant) and sp.value.args[0].value == ".")
        # cur = root
        assert isinstance(s1, ast.Assign) and len(s1.targets) == 1 and isinstance(s1.targets[0], ast.Name) \
            and _is_name(s1.value, "root")
        cur = s1.targets[0].id
        # return cur
        assert isinstance(s3, ast.Return) and _is_name(s3.value, cur)
        # try: for seg in path: ...  except PathAccessError: if default is _UNSET: raise; return default
        assert isinstance(s2, ast.Try) and len(s2.body) == 1 and len(s2.handlers) == 1 and not s2.orelse \
            and not s2.finalbody
        h = s2.handlers[0]
        assert _is_name(h.type, "PathAccessError") and len(h.body) == 2
        i0, r0 = h.body
        assert (isinstance(i0, ast.If) and not i0.orelse and len(i0.body) == 1 and isinstance(i0.body[0], ast.Raise)
                and i0.body[0].exc is None and isinstance(i0.test, ast.Compare) and len(i0.test.ops) == 1
                and isinstance(i0.test.ops[0], ast.Is) and _is_name(i0.test.left, "default")
                and _is_name(i0.test.comparators[0], "_UNSET"))
        assert isinstance(r0, ast.Return) and _is_name(r0.value, "default")
        loop = s2.body[0]
        assert isinstance(loop, ast.For) and not loop.orelse and isinstance(loop.target, ast.Name) \
            and _is_name(loop.iter, "path") and len(loop.body) == 1
        seg = loop.target.id
        t1 = loop.body[0]
        assert isinstance(t1, ast.Try) and len(t1.body) == 1 and len(t1.handlers) == 2 and not t1.orelse \
            and not t1.finalbody and _is_subscript_assign(t1.body[0], cur, seg)
        h1, h2 = t1.handlers
        assert h1.name and len(h1.body) == 1 and _raises_pae(h1.body[0], h1.name, seg, "path")
        e1 = _exn_list(h1.type)
        assert _is_name(h2.type, "TypeError") and h2.name and len(h2.body) == 1
        t2 = h2.body[0]
        assert isinstance(t2, ast.Try) and len(t2.body) == 2 and len(t2.handlers) == 1 and not t2.orelse \
            and not t2.finalbody
        c0, c1 = t2.body
        assert (isinstance(c0, ast.Assign) and _is_name(c0.targets[0], seg) and isinstance(c0.value, ast.Call)
                and _is_name(c0.value.func, "int") and len(c0.value.args) == 1 and _is_name(c0.value.args[0], seg)
                and not c0.value.keywords)
        assert _is_subscript_assign(c1, cur, seg)
        h3 = t2.handlers[0]
        e3 = _exn_list(h3.type)
        # the handler may improve the message (exc = TypeError(...)) but must end in raise PathAccessError(...)
        assert h3.name is None and 1 <= len(h3.body) <= 2 and _raises_pae(h3.body[-1], h2.name, seg, "path")
        if len(h3.body) == 2:
            m = h3.body[0]
            assert isinstance(m, ast.If) and not m.orelse and len(m.body) == 1 and isinstance(m.body[0], ast.Assign) \
                and _is_name(m.body[0].targets[0], h2.name)
    except (AssertionError, AttributeError, IndexError) as e:
        raise Unsupported("get_path: statement of an unknown shape (%r)" % (e,))
    return """(* for seg in path: try: cur = cur[seg] except %s: PathAccessError
   except TypeError: try: seg = int(seg); cur = cur[seg] except %s: PathAccessError *)
Definition src_get_path_step (defs : table obj) (cur : obj) (seg : key) : res obj :=
  match raw_getitem defs cur seg with
  | Ok c => Ok c
  | Raise e =>
      if exn_in e %s then Raise PathAccessError
      else if exn_in e [TypeError] then
        match py_int seg with
        | Raise e2 => if exn_in e2 %s then Raise PathAccessError else Raise e2
        | Ok i => match raw_getitem defs cur (KI i) with
                  | Ok c => Ok c
                  | Raise e2 => if exn_in e2 %s then Raise PathAccessError else Raise e2
                  end
        end
      else Raise e
  end.
""" % (e1, e3, e1, e3, e3)


# --------------------------------------------------------------------------
# research: the enter wrapper
# --------------------------------------------------------------------------
def gen_research(tree):
    fn = _fn(tree, "research")
    a = fn.args
    if [x.arg for x in a.args] != ["root", "query", "reraise", "enter"] or a.vararg or a.kwarg or a.kwonlyargs:
        raise Unsupported("research: unexpected signature")
    body = _body(fn)
    try:
        assert len(body) == 5
        s0, s1, s2, s3, s4 = body
        assert isinstance(s0, ast.Assign) and _is_name(s0.targets[0], "ret") and isinstance(s0.value, ast.List) \
            and not s0.value.elts
        assert isinstance(s1, ast.If) and isinstance(s1.body[0], ast.Raise)            # callable(query) check
        assert isinstance(s2, ast.FunctionDef)
        p, k, v = _args(s2, 3)
        assert len(s2.body) == 2
        tr, rt = s2.body
        assert isinstance(tr, ast.Try) and len(tr.body) == 1 and len(tr.handlers) == 1 and not tr.orelse \
            and not tr.finalbody
        i0 = tr.body[0]
        assert isinstance(i0, ast.If) and not i0.orelse and len(i0.body) == 1
        q = i0.test
        assert (isinstance(q, ast.Call) and _is_name(q.func, "query") and not q.keywords and len(q.args) == 3
                and _is_name(q.args[0], p) and _is_name(q.args[1], k) and _is_name(q.args[2], v))
        ap = i0.body[0]
        assert isinstance(ap, ast.Expr) and isinstance(ap.value, ast.Call) and isinstance(ap.value.func, ast.Attribute) \
            and ap.value.func.attr == "append" and _is_name(ap.value.func.value, "ret") and len(ap.value.args) == 1
        tup = ap.value.args[0]
        assert isinstance(tup, ast.Tuple) and len(tup.elts) == 2 and _is_name(tup.elts[1], v)
        pe = tup.elts[0]
        assert (isinstance(pe, ast.BinOp) and isinstance(pe.op, ast.Add) and _is_name(pe.left, p)
                and isinstance(pe.right, ast.Tuple) and len(pe.right.elts) == 1 and _is_name(pe.right.elts[0], k))
        h = tr.handlers[0]
        assert _is_name(h.type, "Exception") and len(h.body) == 1
        hr = h.body[0]
        assert isinstance(hr, ast.If) and not hr.orelse and _is_name(hr.test, "reraise") and len(hr.body) == 1 \
            and isinstance(hr.body[0], ast.Raise) and hr.body[0].exc is None
        assert (isinstance(rt, ast.Return) and isinstance(rt.value, ast.Call) and _is_name(rt.value.func, "enter")
                and len(rt.value.args) == 3 and _is_name(rt.value.args[0], p) and _is_name(rt.value.args[1], k)
                and _is_name(rt.value.args[2], v))
        # remap(root, enter=_enter); return ret
        c = s3.value if isinstance(s3, ast.Expr) else None
        assert (isinstance(c, ast.Call) and _is_name(c.func, "remap") and len(c.args) == 1 and _is_name(c.args[0], "root")
                and len(c.keywords) == 1 and c.keywords[0].arg == "enter" and _is_name(c.keywords[0].value, s2.name))
        assert isinstance(s4, ast.Return) and _is_name(s4.value, "ret")
    except (AssertionError, AttributeError, IndexError) as e:
        raise Unsupported("research: statement of an unknown shape (%r)" % (e,))
    return """(* _enter: try: if query(p, k, v): ret.append((p + (k,), v))  except Exception: if reraise: raise *)
Definition src_research_enter (answer : option bool) (reraise : bool) (p : path) (k : key) (r : oref) : research_step :=
  match answer with
  | Some true => RReport (p ++ [k]) r
  | Some false => RSkip
  | None => if reraise then RRaise else RSkip
  end.
"""


HEADER = """(* GENERATED on every run by harness/translators/c08_src.py from %s
   (default_visit, default_enter, default_exit, get_path, research) and from the live built-in classes;
   do not edit. *)
From Boltons Require Import Lib.Prelude Lib.C08_Py Spec.C08_Spec Model.C08_Model.
"""


def generate(repo):
    path = os.path.join(repo, "boltons", "iterutils.py")
    tree = ast.parse(open(path).read())
    sys.path.insert(0, repo)
    for k in [k for k in sys.modules if k == "boltons" or k.startswith("boltons.")]:
        del sys.modules[k]
    import importlib
    mod = importlib.import_module("boltons.iterutils")
    if not os.path.abspath(mod.__file__) == os.path.abspath(path):
        raise Unsupported("imported %s instead of %s" % (mod.__file__, path))
    # remap's default arguments must be these three functions
    import inspect
    sig = inspect.signature(mod.remap)
    for n in ("visit", "enter", "exit"):
        if sig.parameters[n].default is not getattr(mod, "default_" + n):
            raise Unsupported("remap's default %s is not default_%s" % (n, n))
    if mod.research.__defaults__[-1] is not mod.default_enter:
        raise Unsupported("research's default enter is not default_enter")
    return {"C08_Src": HEADER % path + gen_tables(mod) + gen_visit(tree) + gen_enter(tree) + gen_exit(tree)
            + gen_get_path(tree) + gen_research(tree)}
