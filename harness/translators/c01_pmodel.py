"""Generates coq/Model/C01_PModel.v (the pointer-level model of OrderedMultiDict) from
coq/Model/C01_Model.v: the public methods are the SAME text with names prefixed and the linked list
read from / written to the heap of Model/C01_Ptr.v.  `harness/c01.py:translators` re-generates the
text on every run and fails closed if the committed file differs (so the two models cannot drift).
Run `python harness/translators/c01_pmodel.py` to rewrite the file after editing the list model."""
import os
import re

COQ = os.path.join(os.path.dirname(os.path.dirname(os.path.dirname(os.path.abspath(__file__)))), "coq")

HEAD = r'''(* Pointer-level model of OrderedMultiDict: the SAME public methods as Model/C01_Model.v (this file is
   generated from it by harness/translators/c01_pmodel.py: identical text, names prefixed), but the
   linked list is the heap of [PREV, NEXT, KEY, VALUE] cells of Model/C01_Ptr.v: _insert / _remove /
   _remove_all do the pointer surgery, iteration follows NEXT from root, __reversed__ follows PREV,
   poplast()/popitem() read root[PREV].  Heap operations are made total (a dangling pointer leaves the
   heap unchanged / ends the walk); Proofs/C01_PSim.v shows that never happens and that this model
   computes exactly what the list-level model computes.  Definitions only.                              *)
From Boltons Require Import Lib.Prelude Spec.C01_Spec Model.C01_Model Model.C01_Ptr.

Record pomd := mkPomd {
  pstore : pydict (list V);
  pheap : heap;
  pcmap : pydict (list nat);
  pnxt : nat }.

Definition pm_empty : pomd := mkPomd [] h_clear [] 0.
Definition pset_store (s : pomd) (st : pydict (list V)) : pomd := mkPomd st (pheap s) (pcmap s) (pnxt s).

Definition h_insert_t (h : heap) (a : nat) (k : K) (v : V) : heap :=
  match h_insert h a k v with Ok h' => h' | Raise _ => h end.
Definition h_unlink_t (h : heap) (a : nat) : heap :=
  match h_unlink h a with Ok h' => h' | Raise _ => h end.

Definition triple_cell (t : nat * K * V) : cell := mkCell (pred (fst (fst t))) (snd (fst t)) (snd t).
(* curr = root[NEXT]; while curr is not root: ... curr = curr[NEXT]   (at most pnxt cells exist) *)
Definition p_cells (s : pomd) : list cell :=
  match h_forward (pheap s) (S (pnxt s)) with Ok l => map triple_cell l | Raise _ => [] end.
(* curr = root[PREV]; while curr is not root: ... curr = curr[PREV] *)
Definition p_cells_rev (s : pomd) : list cell :=
  match h_backward (pheap s) (S (pnxt s)) with Ok l => map triple_cell l | Raise _ => [] end.

(* ---- the three primitives, on the heap ------------------------------------------------------------ *)
Definition pl_insert (s : pomd) (k : K) (v : V) : pomd :=
  let id := pnxt s in
  mkPomd (pstore s) (h_insert_t (pheap s) (S id) k v)
         (d_set (pcmap s) k (d_getd (pcmap s) k ++ [id])) (S id).

Definition pl_remove (s : pomd) (k : K) : res pomd :=
  match d_get (pcmap s) k with
  | None => Raise KeyError
  | Some cells =>
      match rev cells with
      | [] => Raise IndexError
      | id :: rrest =>
          let rest := rev rrest in
          Ok (mkPomd (pstore s) (h_unlink_t (pheap s) (S id))
                     (match rest with [] => d_del (pcmap s) k | _ => d_set (pcmap s) k rest end)
                     (pnxt s))
      end
  end.

Definition pl_remove_all (s : pomd) (k : K) : res pomd :=
  match d_get (pcmap s) k with
  | None => Raise KeyError
  | Some cells =>
      Ok (mkPomd (pstore s) (fold_left (fun h id => h_unlink_t h (S id)) (rev cells) (pheap s))
                 (d_del (pcmap s) k) (pnxt s))
  end.

'''

LAST_KEY = r'''Definition p_last_key (s : pomd) : res K :=                 (* self.root[PREV][KEY] *)
  match h_last (pheap s) with
  | Raise e => Raise e
  | Ok a => if Nat.eqb a root then Raise (OtherExn 1)
            else match d_get (pheap s) a with None => Raise dangling | Some c => Ok (p_key c) end
  end.
'''


def generate():
    src = open(os.path.join(COQ, "Model", "C01_Model.v")).read()
    body = src[src.index("(* ---- iteration ---"):]

    def drop(name, kind):
        nonlocal body
        m = re.search(r"(\(\*[^\n]*\*\)\n)?%s %s\b.*?\.\n(?=\n|\(\*|Definition|Fixpoint)" % (kind, name), body, re.S)
        if not m:
            raise ValueError("cannot find %s %s in Model/C01_Model.v" % (kind, name))
        body = body[:m.start()] + body[m.end():]
    for nm, kd in [("ckv", "Definition"), ("walk_keys", "Fixpoint"), ("dflt_res", "Definition"),
                   ("zip_eq", "Fixpoint"), ("none_out", "Definition")]:
        drop(nm, kd)
    ren = {
        r"\bm_(items1|items|iterkeys|getitem|getlist|addlist|add|setitem|delitem|update_extend|update|from_pairs|new|popall|eq_omd|eq_map|sortedvalues|op|step2|step|view|run|empty)\b": r"pm_\1",
        r"\badd_all\b": "p_add_all", r"\bupd_pairs\b": "p_upd_pairs", r"\bupd_map\b": "p_upd_map",
        r"\bdel_present\b": "p_del_present", r"\blast_key\b": "p_last_key", r"\beq_map_loop\b": "p_eq_map_loop",
        r"\brev_walk\b": "p_rev_walk", r"\bsv_loop\b": "p_sv_loop", r"\bmstate\b": "pmstate", r"\bomd\b": "pomd",
        r"\bstore\b": "pstore", r"\bcmap\b": "pcmap", r"\bnxt\b": "pnxt", r"\bset_store\b": "pset_store",
        r"\bll_insert\b": "pl_insert", r"\bll_remove_all\b": "pl_remove_all", r"\bll_remove\b": "pl_remove",
    }
    if body.count("mkOmd [] [] [] (nxt s)") != 1:
        raise ValueError("clear() not found")
    body = body.replace("mkOmd [] [] [] (nxt s)", "mkPomd [] h_clear [] (nxt s)")
    body = body.replace("rev (ll s)", "p_cells_rev s")
    body = body.replace("(ll s)", "(p_cells s)")
    for k, v in ren.items():
        body = re.sub(k, v, body)
    m = re.search(r"Definition p_last_key .*?\.\n", body, re.S)
    if not m:
        raise ValueError("last_key not found")
    body = body[:m.start()] + LAST_KEY + body[m.end():]
    bad = [l for l in body.splitlines() if re.search(r"\bll\b|mkOmd", l)]
    if bad:
        raise ValueError("untranslated use of the cell list: %r" % bad[:3])
    return HEAD + body


if __name__ == "__main__":
    open(os.path.join(COQ, "Model", "C01_PModel.v"), "w").write(generate())
