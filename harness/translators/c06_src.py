"""(T) tie for C06 beyond the tables: the urlutils functions that carry the logic are regenerated as
Gallina from /repo's current source on every run (shared fail-closed Python-subset translator
py2coq, extended here with the string-method / comprehension forms these functions use), into
coq/Gen/C06_Src.v.  Proofs/C06_SrcEq.v proves each generated function equal to the hand-written
model function of Model/C06_Model.v that the property theorems are about (Props: C06_source_*).

A change of the source changes the generated term; then either the translation fails closed
(Unsupported), or C06_Src.v / C06_SrcEq.v stop compiling: the driver reports a broken tie and
searches for a concrete failing input.

Text is `list N` (code points); Python str methods are rendered onto Lib/C06_Text.v functions
(partition -> py_partition3, rpartition -> py_rpartition3, split -> split_on, replace ->
replace_char, ''.join -> concat, 'c'.join -> join [c], x in s -> memN ...).  Assumptions made by
the rendering (trusted, stated): arguments are `str` (to_unicode is the identity, `text.split` /
`string.split` attribute probes are no-ops); bytes of an ASCII run are its code points.
"""
import ast
import os

import py2coq
from py2coq import Unsupported


def _const_str(e):
    return isinstance(e, ast.Constant) and isinstance(e.value, str)


def _codes(s):
    return "[" + "; ".join(str(ord(c)) for c in s) + "]"


def _is_name(e, n=None):
    return isinstance(e, ast.Name) and (n is None or e.id == n)


class UT(py2coq.Translator):
    """py2coq + the expression forms of urlutils."""

    # ---- kinds ---------------------------------------------------------------------------------
    def kind(self, e):
        g = self.cfg.get("globals", {})
        if isinstance(e, ast.Name) and e.id not in self.cfg.get("kinds", {}) and e.id in g:
            return g[e.id][1]
        if isinstance(e, ast.Constant) and e.value is None:
            return "none"
        if isinstance(e, ast.ListComp):
            return "lstr"
        if isinstance(e, ast.JoinedStr):
            return "str"
        if isinstance(e, ast.Call) and isinstance(e.func, ast.Attribute):
            m = e.func.attr
            if m in ("join", "replace", "encode", "decode", "lower"):
                return "str"
            if m in ("partition", "rpartition"):
                return "tuple"
            if m == "split":
                return "lstr"
            fn = self.cfg.get("methods", {}).get(m)
            if fn:
                return fn[1]
            raise Unsupported("kind of method call .%s" % m)
        if isinstance(e, ast.Attribute) and not (isinstance(e.value, ast.Name) and e.value.id == "self"):
            raise Unsupported("attribute %s" % ast.dump(e))
        if isinstance(e, ast.Subscript) and isinstance(e.value, ast.Name) and e.value.id in g and g[e.value.id][1] == "qmap":
            return "str"
        return super().kind(e)

    # ---- expressions ---------------------------------------------------------------------------
    def char(self, e):
        """a one-character string constant -> its code point"""
        if _const_str(e) and len(e.value) == 1:
            return str(ord(e.value))
        if isinstance(e, ast.Constant) and isinstance(e.value, bytes) and len(e.value) == 1:
            return str(e.value[0])
        raise Unsupported("expected a one-character constant, got %s" % ast.dump(e))

    def expr(self, e, scope):
        g = self.cfg.get("globals", {})
        if isinstance(e, ast.Name) and e.id not in scope and e.id in g:
            return g[e.id][0]
        if isinstance(e, ast.Constant) and isinstance(e.value, (str, bytes)):
            v = e.value if isinstance(e.value, str) else e.value.decode("latin-1")
            return "(%s : list N)" % _codes(v) if v else "(@nil N)"
        if isinstance(e, ast.Constant) and e.value is None:
            if "none" in self.cfg:
                return self.cfg["none"]
            raise Unsupported("None")
        if isinstance(e, ast.ListComp):
            return self.listcomp(e, scope)
        if isinstance(e, ast.Subscript) and isinstance(e.value, ast.Name) and e.value.id not in scope \
                and e.value.id in g and g[e.value.id][1] == "qmap":
            return "(map_get %s %s)" % (g[e.value.id][0], self.expr(e.slice, scope))
        if isinstance(e, ast.Call) and isinstance(e.func, ast.Attribute):
            return self.method(e, scope)
        if isinstance(e, ast.IfExp):
            # a character of a str is itself a (one-character) str: coerce when the other branch is a str
            kb, ko = self.kind(e.body), self.kind(e.orelse)
            b_, o_ = self.expr(e.body, scope), self.expr(e.orelse, scope)
            if kb == "str" and ko == "char":
                o_ = "[%s]" % o_
            elif kb == "char" and ko == "str":
                b_ = "[%s]" % b_
            elif kb != ko:
                raise Unsupported("conditional expression mixing kinds %s / %s" % (kb, ko))
            return "(if %s then %s else %s)" % (self.cond(e.test, scope), b_, o_)
        if isinstance(e, ast.Call) and _is_name(e.func, "to_unicode") and len(e.args) == 1 and not e.keywords:
            return self.expr(e.args[0], scope)           # identity on str (assumption: text arguments)
        return super().expr(e, scope)

    def listcomp(self, e, scope):
        gens = e.generators
        if any(g.ifs or g.is_async or not isinstance(g.target, ast.Name) for g in gens) or len(gens) not in (1, 2):
            raise Unsupported("list comprehension shape")
        kinds = self.cfg.setdefault("kinds", {})
        if len(gens) == 1:
            x = gens[0].target.id
            kinds.setdefault(x, self.cfg.get("elem_kind", {}).get(x, "str"))
            return "(map (fun %s => %s) %s)" % (py2coq.cname(x), self.expr(e.elt, scope | {x}),
                                                self.expr(gens[0].iter, scope))
        x, y = gens[0].target.id, gens[1].target.id
        kinds.setdefault(x, "str")
        kinds.setdefault(y, "str")
        inner = "(map (fun %s => %s) %s)" % (py2coq.cname(y), self.expr(e.elt, scope | {x, y}),
                                             self.expr(gens[1].iter, scope | {x}))
        return "(flat_map (fun %s => %s) %s)" % (py2coq.cname(x), inner, self.expr(gens[0].iter, scope))

    def method(self, e, scope):
        f, m = e.func, e.func.attr
        recv = f.value
        if m == "join" and len(e.args) == 1 and not e.keywords and _const_str(recv):
            a = e.args[0]
            if isinstance(a, ast.Tuple):
                a = ast.List(elts=a.elts, ctx=ast.Load())
            arg = self.expr(a, scope)
            if recv.value == "":
                return "(concat %s)" % arg
            return "(join %s %s)" % (_codes(recv.value), arg)
        if m == "join" and len(e.args) == 1 and isinstance(recv, ast.Constant) and recv.value == b"":
            return "(concat %s)" % self.expr(e.args[0], scope)
        if m in ("partition", "rpartition") and len(e.args) == 1 and not e.keywords:
            return "(py_%s3 %s %s)" % (m, self.char(e.args[0]), self.expr(recv, scope))
        if m == "split" and len(e.args) == 1 and not e.keywords:
            return "(split_on %s %s)" % (self.char(e.args[0]), self.expr(recv, scope))
        if m == "replace" and len(e.args) == 2 and not e.keywords:
            return "(replace_char %s %s %s)" % (self.char(e.args[0]), self.char(e.args[1]), self.expr(recv, scope))
        if m == "encode" and len(e.args) == 1 and not e.keywords and _const_str(e.args[0]) and \
                e.args[0].value.lower().replace("-", "") == "utf8":
            # normalize('NFC', X).encode('utf8')  /  X.encode('utf-8')
            if isinstance(recv, ast.Call) and _is_name(recv.func, "normalize") and len(recv.args) == 2 and \
                    _const_str(recv.args[0]) and recv.args[0].value == "NFC" and not recv.keywords:
                return "(utf8_enc (o_nfc O %s))" % self.expr(recv.args[1], scope)
            return "(utf8_enc %s)" % self.expr(recv, scope)
        fn = self.cfg.get("methods", {}).get(m)
        if fn:
            return fn[0](self, e, scope)
        raise Unsupported("method call .%s(...)" % m)

    # ---- conditions ----------------------------------------------------------------------------
    def cond(self, e, scope):
        g = self.cfg.get("globals", {})
        if isinstance(e, ast.Compare) and len(e.ops) == 1 and isinstance(e.ops[0], (ast.In, ast.NotIn)):
            l, r = e.left, e.comparators[0]
            neg = isinstance(e.ops[0], ast.NotIn)
            t = None
            if isinstance(r, ast.Name) and r.id not in scope and r.id in g and g[r.id][1] == "charset":
                t = "(memN %s %s)" % (self.expr(l, scope), g[r.id][0])
            elif (_const_str(l) or (isinstance(l, ast.Constant) and isinstance(l.value, bytes))) and len(l.value) == 1 \
                    and not isinstance(r, (ast.Tuple, ast.List)):
                t = "(memN %s %s)" % (self.char(l), self.expr(r, scope))
            if t is not None:
                return "(negb %s)" % t if neg else t
        return super().cond(e, scope)


# =================================================================================================
# shapes (statements py2coq does not know)
# =================================================================================================
def shape_attr_probe(T, s, probe, scope=None):
    """`string.split` as an expression statement: a duck-typing probe, no effect on a str"""
    if isinstance(s, ast.Expr) and isinstance(s.value, ast.Attribute) and isinstance(s.value.value, ast.Name) \
            and s.value.attr == "split":
        return [] if probe else ""
    return None


def shape_append_alias(T, s, probe, scope=None):
    """`append = res.append` / `_add = parts.append`, then `append(x)` means res.append(x)"""
    al = T.cfg.setdefault("_alias", {})
    if isinstance(s, ast.Assign) and len(s.targets) == 1 and isinstance(s.targets[0], ast.Name) and \
            isinstance(s.value, ast.Attribute) and s.value.attr == "append" and isinstance(s.value.value, ast.Name):
        al[s.targets[0].id] = s.value.value.id
        return [] if probe else ""
    if isinstance(s, ast.Expr) and isinstance(s.value, ast.Call) and isinstance(s.value.func, ast.Name) and \
            s.value.func.id in al and len(s.value.args) == 1 and not s.value.keywords:
        x = al[s.value.func.id]
        if probe:
            return [x]
        return "let %s := %s ++ [%s] in\n" % (py2coq.cname(x), py2coq.cname(x), T.expr(s.value.args[0], scope))
    return None


def shape_try_hex(T, s, probe, scope=None):
    """try: append(_HEX_CHAR_MAP[item[:2]]); append(item[2:])  except KeyError: append(b'%'); append(item)"""
    if not isinstance(s, ast.Try):
        return None
    al = T.cfg.get("_alias", {})
    try:
        assert len(s.handlers) == 1 and not s.orelse and not s.finalbody and len(s.body) == 2
        h = s.handlers[0]
        assert isinstance(h.type, ast.Name) and h.type.id == "KeyError" and h.name is None and len(h.body) == 2
        calls = s.body + h.body
        for c in calls:
            assert isinstance(c, ast.Expr) and isinstance(c.value, ast.Call) and isinstance(c.value.func, ast.Name)
            assert c.value.func.id in al and len(c.value.args) == 1 and not c.value.keywords
        res = {al[c.value.func.id] for c in calls}
        assert len(res) == 1
        res = res.pop()
        a1, a2, b1, b2 = [c.value.args[0] for c in calls]
        # a1 = _HEX_CHAR_MAP[item[:2]]
        assert isinstance(a1, ast.Subscript) and _is_name(a1.value, "_HEX_CHAR_MAP")
        k = a1.slice
        assert isinstance(k, ast.Subscript) and isinstance(k.value, ast.Name) and isinstance(k.slice, ast.Slice)
        item = k.value.id
        assert k.slice.lower is None and isinstance(k.slice.upper, ast.Constant) and k.slice.upper.value == 2 and k.slice.step is None
        # a2 = item[2:]
        assert isinstance(a2, ast.Subscript) and _is_name(a2.value, item) and isinstance(a2.slice, ast.Slice)
        assert isinstance(a2.slice.lower, ast.Constant) and a2.slice.lower.value == 2 and a2.slice.upper is None
        assert isinstance(b1, ast.Constant) and b1.value == b"%"
        assert _is_name(b2, item)
    except (AssertionError, AttributeError):
        raise Unsupported("try statement of an unknown shape")
    if probe:
        return [res]
    r, it = py2coq.cname(res), py2coq.cname(item)
    return ("let %s := match hex_key (t_hex T) %s with\n"
            "            | Some v => %s ++ [[v]] ++ [skipn 2 %s]\n"
            "            | None => %s ++ [[37]] ++ [%s]\n"
            "            end in\n" % (r, it, r, it, r, it))


# =================================================================================================
# per-function configurations
# =================================================================================================
GLOBALS = {
    "_USERINFO_PART_QUOTE_MAP": ("(t_user_map T)", "qmap"), "_PATH_PART_QUOTE_MAP": ("(t_path_map T)", "qmap"),
    "_QUERY_PART_QUOTE_MAP": ("(t_query_map T)", "qmap"), "_FRAGMENT_QUOTE_MAP": ("(t_frag_map T)", "qmap"),
    "_USERINFO_DELIMS": ("(t_user_delims T)", "charset"), "_PATH_DELIMS": ("(t_path_delims T)", "charset"),
    "_QUERY_DELIMS": ("(t_query_delims T)", "charset"), "_FRAGMENT_DELIMS": ("(t_frag_delims T)", "charset"),
}


def cfg_quote(name):
    return {"name": "src_" + name, "params": [("text", "list N"), ("full_quote", "bool")], "ret": "list N", "num": "Z",
            "kinds": {"text": "str", "full_quote": "bool", "bytestr": "str", "b": "char", "t": "char"},
            "defaults": {"full_quote": "True"}, "rv_default": "(@nil N)", "globals": GLOBALS,
            "truthy": {"str": "nonempty", "lstr": "is_nonempty"}}


def _sub_first(T, e, scope):
    return None


CFG_UTB = {"name": "src_unquote_to_bytes", "params": [("string", "list N")], "ret": "list N", "num": "Z",
           "kinds": {"string": "str", "bits": "lstr", "res": "lstr", "item": "str"},
           "rv_default": "(@nil N)", "globals": GLOBALS, "truthy": {"str": "nonempty", "lstr": "is_nonempty"},
           "calls": {"len": ("zlen", "int")},
           "subscripts": {("lstr", "[0]"): ("py_first", "str"), ("lstr", "[1:]"): ("(@tl (list N))", "lstr")},
           "shapes": [shape_attr_probe, shape_append_alias, shape_try_hex]}


def normalise_utb(node):
    """`if isinstance(string, str): string = string.encode('utf-8')`: the argument is the UTF-8 bytes of an ASCII
    run already (code points = bytes), the statement is dropped - but only if it has exactly this shape."""
    out = []
    for s in node.body:
        if isinstance(s, ast.If) and isinstance(s.test, ast.Call) and _is_name(s.test.func, "isinstance"):
            ok = (len(s.test.args) == 2 and _is_name(s.test.args[0], "string") and _is_name(s.test.args[1], "str")
                  and not s.orelse and len(s.body) == 1 and isinstance(s.body[0], ast.Assign)
                  and ast.unparse(s.body[0]) == "string = string.encode('utf-8')")
            if not ok:
                raise Unsupported("isinstance statement of an unknown shape")
            continue
        out.append(s)
    node.body = out
    return node


HEADER = """(* GENERATED on every run by harness/translators/c06_src.py from %s; do not edit. *)
From Boltons Require Import Lib.Prelude Lib.PySrc Lib.C06_Text Model.C06_Model Lib.C06_PySrc.
Open Scope N_scope.

Section Src.
Variable T : tables.
Variable O : oracles.

"""


def generate(repo):
    path = os.path.join(repo, "boltons", "urlutils.py")
    out = [HEADER % "boltons/urlutils.py"]
    for fn in ("quote_path_part", "quote_query_part", "quote_fragment_part", "quote_userinfo_part"):
        node = py2coq.get_function(path, fn)
        out.append(UT(cfg_quote(fn)).function(node))
    node = normalise_utb(py2coq.get_function(path, "unquote_to_bytes"))
    out.append(UT(dict(CFG_UTB)).function(node))
    out.append("End Src.\n")
    return {"C06_Src": "\n".join(out)}


if __name__ == "__main__":
    import sys
    print(generate(sys.argv[1] if len(sys.argv) > 1 else "/repo")["C06_Src"])
