"""(T) tie for C06 beyond the tables: the urlutils functions that carry the logic are regenerated as
Gallina from /repo's current source on every run (shared fail-closed Python-subset translator
py2coq, extended here with the string-method / comprehension forms these functions use), into
coq/Gen/C06_Src.v.  Proofs/C06_SrcEq.v proves each generated function equal to the hand-written
model function of Model/C06_Model.v that the property theorems are about (Props: C06_source_*).

A change of the source changes the generated term; then either the translation fails closed
(Unsupported), or C06_Src.v / C06_SrcEq.v stop compiling: the driver reports a broken tie and
searches for a concrete failing input.

Text is `list N` (code points); Python str methods are rendered onto Lib/C06_Text.v functions
(partition -> py_partition3, rpartition -> py_rpartition3, split -> split_on, replace ->
replace_char, ''.join -> concat, 'c'.join -> join [c], x in s -> memN ...).  Assumptions made by
the rendering (trusted, stated): arguments are `str` (to_unicode is the identity, `text.split` /
`string.split` attribute probes are no-ops); bytes of an ASCII run are its code points.
"""
import ast
import os

import py2coq
from py2coq import Unsupported


def _const_str(e):
    return isinstance(e, ast.Constant) and isinstance(e.value, str)


def _codes(s):
    return "[" + "; ".join(str(ord(c)) for c in s) + "]"


def _is_name(e, n=None):
    return isinstance(e, ast.Name) and (n is None or e.id == n)


class UT(py2coq.Translator):
    """py2coq + the expression forms of urlutils."""

    # ---- kinds ---------------------------------------------------------------------------------
    def kind(self, e):
        g = self.cfg.get("globals", {})
        if isinstance(e, ast.Name) and e.id not in self.cfg.get("kinds", {}) and e.id in g:
            return g[e.id][1]
        if isinstance(e, ast.Constant) and e.value is None:
            return "none"
        if isinstance(e, ast.ListComp):
            return "lstr"
        if isinstance(e, ast.BoolOp) and isinstance(e.op, ast.Or) and not any(
                isinstance(v, (ast.Compare, ast.BoolOp)) for v in e.values):
            return self.kind(e.values[0])
        if isinstance(e, ast.Call) and _is_name(e.func, "to_unicode"):
            return "str"
        if isinstance(e, ast.JoinedStr):
            return "str"
        if isinstance(e, ast.Call) and isinstance(e.func, ast.Attribute):
            m = e.func.attr
            if m in ("join", "replace", "encode", "decode", "lower"):
                return "str"
            if m in ("partition", "rpartition"):
                return "tuple"
            if m == "split":
                return "lstr"
            fn = self.cfg.get("methods", {}).get(m)
            if fn:
                return fn[1]
            raise Unsupported("kind of method call .%s" % m)
        if isinstance(e, ast.Attribute) and not (isinstance(e.value, ast.Name) and e.value.id == "self"):
            raise Unsupported("attribute %s" % ast.dump(e))
        if isinstance(e, ast.Subscript) and isinstance(e.value, ast.Name) and e.value.id in g and g[e.value.id][1] == "qmap":
            return "str"
        return super().kind(e)

    def subscript_key(self, e):
        sl = e.slice
        if isinstance(sl, ast.UnaryOp) and isinstance(sl.op, ast.USub) and isinstance(sl.operand, ast.Constant) \
                and isinstance(sl.operand.value, int):
            key = (self.kind(e.value), "[-%d]" % sl.operand.value)
            if key not in self.cfg.get("subscripts", {}):
                raise Unsupported("subscript %s of kind %s" % (key[1], key[0]))
            return key
        return super().subscript_key(e)

    # ---- expressions ---------------------------------------------------------------------------
    def char(self, e):
        """a one-character string constant -> its code point"""
        if _const_str(e) and len(e.value) == 1:
            return str(ord(e.value))
        if isinstance(e, ast.Constant) and isinstance(e.value, bytes) and len(e.value) == 1:
            return str(e.value[0])
        raise Unsupported("expected a one-character constant, got %s" % ast.dump(e))

    def expr(self, e, scope):
        g = self.cfg.get("globals", {})
        if isinstance(e, ast.Name) and e.id not in scope and e.id in g:
            return g[e.id][0]
        if isinstance(e, ast.Constant) and isinstance(e.value, (str, bytes)):
            v = e.value if isinstance(e.value, str) else e.value.decode("latin-1")
            return "(%s : list N)" % _codes(v) if v else "(@nil N)"
        if isinstance(e, ast.Constant) and e.value is None:
            if "none" in self.cfg:
                return self.cfg["none"]
            raise Unsupported("None")
        if isinstance(e, ast.ListComp):
            return self.listcomp(e, scope)
        if isinstance(e, ast.Subscript) and isinstance(e.value, ast.Name) and e.value.id not in scope \
                and e.value.id in g and g[e.value.id][1] == "qmap":
            return "(map_get %s %s)" % (g[e.value.id][0], self.expr(e.slice, scope))
        if isinstance(e, ast.Call) and isinstance(e.func, ast.Attribute):
            return self.method(e, scope)
        if isinstance(e, ast.IfExp):
            # a character of a str is itself a (one-character) str: coerce when the other branch is a str
            kb, ko = self.kind(e.body), self.kind(e.orelse)
            b_, o_ = self.expr(e.body, scope), self.expr(e.orelse, scope)
            if kb == "str" and ko == "char":
                o_ = "[%s]" % o_
            elif kb == "char" and ko == "str":
                b_ = "[%s]" % b_
            elif kb != ko:
                raise Unsupported("conditional expression mixing kinds %s / %s" % (kb, ko))
            return "(if %s then %s else %s)" % (self.cond(e.test, scope), b_, o_)
        if isinstance(e, ast.BoolOp) and isinstance(e.op, ast.Or) and len(e.values) == 2 and \
                self.kind(e.values[0]) == "str" and self.kind(e.values[1]) == "str":
            x, y = self.expr(e.values[0], scope), self.expr(e.values[1], scope)     # x or y on strs
            return "(if nonempty %s then %s else %s)" % (x, x, y)
        if isinstance(e, ast.Call) and _is_name(e.func, "to_unicode") and len(e.args) == 1 and not e.keywords:
            return self.sexpr(e.args[0], scope)          # identity on str (assumption: text arguments)
        return super().expr(e, scope)

    def listcomp(self, e, scope):
        gens = e.generators
        if any(g.ifs or g.is_async or not isinstance(g.target, ast.Name) for g in gens) or len(gens) not in (1, 2):
            raise Unsupported("list comprehension shape")
        kinds = self.cfg.setdefault("kinds", {})
        if len(gens) == 1:
            x = gens[0].target.id
            kinds.setdefault(x, self.cfg.get("elem_kind", {}).get(x, "str"))
            return "(map (fun %s => %s) %s)" % (py2coq.cname(x), self.expr(e.elt, scope | {x}),
                                                self.expr(gens[0].iter, scope))
        x, y = gens[0].target.id, gens[1].target.id
        kinds.setdefault(x, "str")
        kinds.setdefault(y, "str")
        inner = "(map (fun %s => %s) %s)" % (py2coq.cname(y), self.expr(e.elt, scope | {x, y}),
                                             self.expr(gens[1].iter, scope | {x}))
        return "(flat_map (fun %s => %s) %s)" % (py2coq.cname(x), inner, self.expr(gens[0].iter, scope))

    def method(self, e, scope):
        f, m = e.func, e.func.attr
        recv = f.value
        if m == "join" and len(e.args) == 1 and not e.keywords and _const_str(recv):
            a = e.args[0]
            if isinstance(a, ast.Tuple):
                a = ast.List(elts=a.elts, ctx=ast.Load())
            arg = self.expr(a, scope)
            if recv.value == "":
                return "(concat %s)" % arg
            return "(join %s %s)" % (_codes(recv.value), arg)
        if m == "join" and len(e.args) == 1 and isinstance(recv, ast.Constant) and recv.value == b"":
            return "(concat %s)" % self.expr(e.args[0], scope)
        if m in ("partition", "rpartition") and len(e.args) == 1 and not e.keywords:
            return "(py_%s3 %s %s)" % (m, self.char(e.args[0]), self.sexpr(recv, scope))
        if m == "split" and len(e.args) == 1 and not e.keywords:
            return "(split_on %s %s)" % (self.char(e.args[0]), self.sexpr(recv, scope))
        if m == "replace" and len(e.args) == 2 and not e.keywords:
            return "(replace_char %s %s %s)" % (self.char(e.args[0]), self.char(e.args[1]), self.sexpr(recv, scope))
        if m == "encode" and len(e.args) == 1 and not e.keywords and _const_str(e.args[0]) and \
                e.args[0].value.lower().replace("-", "") == "utf8":
            # normalize('NFC', X).encode('utf8')  /  X.encode('utf-8')
            if isinstance(recv, ast.Call) and _is_name(recv.func, "normalize") and len(recv.args) == 2 and \
                    _const_str(recv.args[0]) and recv.args[0].value == "NFC" and not recv.keywords:
                return "(utf8_enc (o_nfc O %s))" % self.expr(recv.args[1], scope)
            return "(utf8_enc %s)" % self.expr(recv, scope)
        fn = self.cfg.get("methods", {}).get(m)
        if fn:
            return fn[0](self, e, scope)
        raise Unsupported("method call .%s(...)" % m)

    def sexpr(self, e, scope):
        """e in a position where Python needs a str"""
        k = self.kind(e)
        t = self.expr(e, scope)
        if k == "ostr":
            return "(opt_text %s)" % t
        if k == "char":
            return "[%s]" % t
        if k != "str":
            raise Unsupported("a str was expected, got kind %s" % k)
        return t

    # ---- statements ----------------------------------------------------------------------------
    def stmt(self, s, scope, brk, ind):
        # a, b = e1, e2  (same arity): one binding after the other (no name is both read and written here)
        if isinstance(s, ast.Assign) and len(s.targets) == 1 and isinstance(s.targets[0], ast.Tuple) and \
                isinstance(s.value, ast.Tuple) and len(s.value.elts) == len(s.targets[0].elts) and \
                all(isinstance(t, ast.Name) for t in s.targets[0].elts):
            names = [t.id for t in s.targets[0].elts]
            used = {n.id for v in s.value.elts for n in ast.walk(v) if isinstance(n, ast.Name)}
            if used & set(names):
                raise Unsupported("parallel assignment reading its own targets")
            txt, sc = "", scope
            for t, v in zip(s.targets[0].elts, s.value.elts):
                p, sc, _ = self.stmt(ast.Assign(targets=[t], value=v), sc, brk, ind)
                txt += p
            return txt, sc, []
        if isinstance(s, ast.Assign) and len(s.targets) == 1 and isinstance(s.targets[0], ast.Name):
            n = s.targets[0].id
            k = self.cfg.get("kinds", {}).get(n)
            if isinstance(s.value, ast.Constant) and s.value.value is None:
                nb = self.cfg.get("none_by_name", {})
                if n not in nb:
                    raise Unsupported("None assigned to %s" % n)
                return ind + "let %s := %s in\n" % (py2coq.cname(n), nb[n]), scope | {n}, []
            if k == "ostr" and self.kind(s.value) == "str":
                return ind + "let %s := Some %s in\n" % (py2coq.cname(n), self.expr(s.value, scope)), scope | {n}, []
        if isinstance(s, ast.Try):
            for f in self.cfg.get("try_shapes", []):
                r = f(self, s, scope, ind)
                if r is not None:
                    return r
        if isinstance(s, ast.Return) and "ret_render" in self.cfg and self.flagmode:
            t = ind + "let _rv := %s in\n" % self.cfg["ret_render"](self, s.value, scope)
            return t + ind + "let _ret := true in\n", scope, ["_ret"]
        return super().stmt(s, scope, brk, ind)

    def block(self, stmts, A, scope, brk, ind):
        # `if c: continue` at the top level of a loop body: the rest of the body runs only when c is false
        if stmts and isinstance(stmts[0], ast.If) and len(stmts[0].body) == 1 and \
                isinstance(stmts[0].body[0], ast.Continue) and not stmts[0].orelse:
            if not self.cfg.get("_in_loop_ok", True):
                raise Unsupported("continue")
            rest = self.block(stmts[1:], A, scope, brk, ind + "  ")
            return ind + "if %s then %s else (\n%s%s)\n" % (self.cond(stmts[0].test, scope), py2coq.tup(A), rest.rstrip("\n"), "")
        for s in stmts:
            for n in ast.walk(s):
                if isinstance(n, ast.Continue) and not (s is stmts[0]):
                    pass
        return super().block(stmts, A, scope, brk, ind)

    # ---- conditions ----------------------------------------------------------------------------
    def cond(self, e, scope):
        g = self.cfg.get("globals", {})
        if isinstance(e, ast.Compare) and len(e.ops) == 1 and isinstance(e.ops[0], (ast.In, ast.NotIn)):
            l, r = e.left, e.comparators[0]
            neg = isinstance(e.ops[0], ast.NotIn)
            t = None
            if isinstance(r, ast.Name) and r.id not in scope and r.id in g and g[r.id][1] == "charset":
                t = "(memN %s %s)" % (self.expr(l, scope), g[r.id][0])
            elif (_const_str(l) or (isinstance(l, ast.Constant) and isinstance(l.value, bytes))) and len(l.value) == 1 \
                    and not isinstance(r, (ast.Tuple, ast.List)):
                t = "(memN %s %s)" % (self.char(l), self.expr(r, scope))
            if t is not None:
                return "(negb %s)" % t if neg else t
        if isinstance(e, ast.Compare) and len(e.ops) == 1 and isinstance(e.ops[0], (ast.Eq, ast.NotEq)):
            l, r = e.left, e.comparators[0]
            # s[0] == 'c' : a character against a one-character constant
            if _const_str(l) and len(l.value) == 1 and not isinstance(r, ast.Constant) and self.kind(r) == "char":
                l, r = r, l
            if not isinstance(l, ast.Constant) and self.kind(l) == "char" and _const_str(r) and len(r.value) == 1:
                t = "(%s =? %s)" % (self.expr(l, scope), self.char(r))
                return t if isinstance(e.ops[0], ast.Eq) else "(negb %s)" % t
        if isinstance(e, ast.Compare) and len(e.ops) == 1 and isinstance(e.ops[0], (ast.Is, ast.IsNot)) and \
                isinstance(e.comparators[0], ast.Constant) and e.comparators[0].value is None and \
                self.kind(e.left) == "ostr":
            t = "(opt_is_none %s)" % self.expr(e.left, scope)
            return t if isinstance(e.ops[0], ast.Is) else "(negb %s)" % t
        return super().cond(e, scope)


# =================================================================================================
# shapes (statements py2coq does not know)
# =================================================================================================
def shape_attr_probe(T, s, probe, scope=None):
    """`string.split` as an expression statement: a duck-typing probe, no effect on a str"""
    if isinstance(s, ast.Expr) and isinstance(s.value, ast.Attribute) and isinstance(s.value.value, ast.Name) \
            and s.value.attr == "split":
        return [] if probe else ""
    return None


def shape_append_alias(T, s, probe, scope=None):
    """`append = res.append` / `_add = parts.append`, then `append(x)` means res.append(x)"""
    al = T.cfg.setdefault("_alias", {})
    if isinstance(s, ast.Assign) and len(s.targets) == 1 and isinstance(s.targets[0], ast.Name) and \
            isinstance(s.value, ast.Attribute) and s.value.attr == "append" and isinstance(s.value.value, ast.Name):
        al[s.targets[0].id] = s.value.value.id
        return [] if probe else ""
    if isinstance(s, ast.Expr) and isinstance(s.value, ast.Call) and isinstance(s.value.func, ast.Name) and \
            s.value.func.id in al and len(s.value.args) == 1 and not s.value.keywords:
        x = al[s.value.func.id]
        if probe:
            return [x]
        return "let %s := %s ++ [%s] in\n" % (py2coq.cname(x), py2coq.cname(x), T.expr(s.value.args[0], scope))
    return None


def shape_try_hex(T, s, probe, scope=None):
    """try: append(_HEX_CHAR_MAP[item[:2]]); append(item[2:])  except KeyError: append(b'%'); append(item)"""
    if not isinstance(s, ast.Try):
        return None
    al = T.cfg.get("_alias", {})
    try:
        assert len(s.handlers) == 1 and not s.orelse and not s.finalbody and len(s.body) == 2
        h = s.handlers[0]
        assert isinstance(h.type, ast.Name) and h.type.id == "KeyError" and h.name is None and len(h.body) == 2
        calls = s.body + h.body
        for c in calls:
            assert isinstance(c, ast.Expr) and isinstance(c.value, ast.Call) and isinstance(c.value.func, ast.Name)
            assert c.value.func.id in al and len(c.value.args) == 1 and not c.value.keywords
        res = {al[c.value.func.id] for c in calls}
        assert len(res) == 1
        res = res.pop()
        a1, a2, b1, b2 = [c.value.args[0] for c in calls]
        # a1 = _HEX_CHAR_MAP[item[:2]]
        assert isinstance(a1, ast.Subscript) and _is_name(a1.value, "_HEX_CHAR_MAP")
        k = a1.slice
        assert isinstance(k, ast.Subscript) and isinstance(k.value, ast.Name) and isinstance(k.slice, ast.Slice)
        item = k.value.id
        assert k.slice.lower is None and isinstance(k.slice.upper, ast.Constant) and k.slice.upper.value == 2 and k.slice.step is None
        # a2 = item[2:]
        assert isinstance(a2, ast.Subscript) and _is_name(a2.value, item) and isinstance(a2.slice, ast.Slice)
        assert isinstance(a2.slice.lower, ast.Constant) and a2.slice.lower.value == 2 and a2.slice.upper is None
        assert isinstance(b1, ast.Constant) and b1.value == b"%"
        assert _is_name(b2, item)
    except (AssertionError, AttributeError):
        raise Unsupported("try statement of an unknown shape")
    if probe:
        return [res]
    r, it = py2coq.cname(res), py2coq.cname(item)
    return ("let %s := match hex_key (t_hex T) %s with\n"
            "            | Some v => %s ++ [[v]] ++ [skipn 2 %s]\n"
            "            | None => %s ++ [[37]] ++ [%s]\n"
            "            end in\n" % (r, it, r, it, r, it))


# =================================================================================================
# per-function configurations
# =================================================================================================
GLOBALS = {
    "_USERINFO_PART_QUOTE_MAP": ("(t_user_map T)", "qmap"), "_PATH_PART_QUOTE_MAP": ("(t_path_map T)", "qmap"),
    "_QUERY_PART_QUOTE_MAP": ("(t_query_map T)", "qmap"), "_FRAGMENT_QUOTE_MAP": ("(t_frag_map T)", "qmap"),
    "_USERINFO_DELIMS": ("(t_user_delims T)", "charset"), "_PATH_DELIMS": ("(t_path_delims T)", "charset"),
    "_QUERY_DELIMS": ("(t_query_delims T)", "charset"), "_FRAGMENT_DELIMS": ("(t_frag_delims T)", "charset"),
}


def cfg_quote(name):
    return {"name": "src_" + name, "params": [("text", "list N"), ("full_quote", "bool")], "ret": "list N", "num": "Z",
            "kinds": {"text": "str", "full_quote": "bool", "bytestr": "str", "b": "char", "t": "char"},
            "defaults": {"full_quote": "True"}, "rv_default": "(@nil N)", "globals": GLOBALS,
            "truthy": {"str": "nonempty", "lstr": "is_nonempty"}}


def _sub_first(T, e, scope):
    return None


CFG_UTB = {"name": "src_unquote_to_bytes", "params": [("string", "list N")], "ret": "list N", "num": "Z",
           "kinds": {"string": "str", "bits": "lstr", "res": "lstr", "item": "str"},
           "rv_default": "(@nil N)", "globals": GLOBALS, "truthy": {"str": "nonempty", "lstr": "is_nonempty"},
           "calls": {"len": ("zlen", "int")},
           "subscripts": {("lstr", "[0]"): ("py_first", "str"), ("lstr", "[1:]"): ("(@tl (list N))", "lstr")},
           "shapes": [shape_attr_probe, shape_append_alias, shape_try_hex]}


def normalise_utb(node):
    """`if isinstance(string, str): string = string.encode('utf-8')`: the argument is the UTF-8 bytes of an ASCII
    run already (code points = bytes), the statement is dropped - but only if it has exactly this shape."""
    out = []
    for s in node.body:
        if isinstance(s, ast.If) and isinstance(s.test, ast.Call) and _is_name(s.test.func, "isinstance"):
            ok = (len(s.test.args) == 2 and _is_name(s.test.args[0], "string") and _is_name(s.test.args[1], "str")
                  and not s.orelse and len(s.body) == 1 and isinstance(s.body[0], ast.Assign)
                  and ast.unparse(s.body[0]) == "string = string.encode('utf-8')")
            if not ok:
                raise Unsupported("isinstance statement of an unknown shape")
            continue
        out.append(s)
    node.body = out
    return node


# ---- parse_qsl ------------------------------------------------------------------------------------
def _call_unquote(T, e, scope):
    if len(e.args) != 1 or e.keywords:
        raise Unsupported("unquote called with other arguments")
    return "(unquote T %s)" % T.sexpr(e.args[0], scope)


def normalise_qsl(node):
    """the model is parse_qsl with keep_blank_values at its default (True, the only way urlutils calls it):
    substitute the constant and drop `if not True: ...`; the encoding parameter must stay unused"""
    d = {a.arg: v for a, v in zip(node.args.args[len(node.args.args) - len(node.args.defaults):], node.args.defaults)}
    if not (isinstance(d.get("keep_blank_values"), ast.Constant) and d["keep_blank_values"].value is True):
        raise Unsupported("default of keep_blank_values changed")
    for n in ast.walk(node):
        if isinstance(n, ast.Name) and n.id == "encoding":
            raise Unsupported("parse_qsl uses its encoding parameter")

    class Sub(ast.NodeTransformer):
        def visit_Name(self, n):
            return ast.copy_location(ast.Constant(value=True), n) if n.id == "keep_blank_values" else n

        def visit_If(self, n):
            self.generic_visit(n)
            t = n.test
            if isinstance(t, ast.UnaryOp) and isinstance(t.op, ast.Not) and isinstance(t.operand, ast.Constant) \
                    and t.operand.value is True:
                return n.orelse or None
            return n
    node = Sub().visit(node)
    node.args.args = [a for a in node.args.args if a.arg == "qs"]
    node.args.defaults = []
    ast.fix_missing_locations(node)
    return node


CFG_QSL = {"name": "src_parse_qsl", "params": [("qs", "list N")], "ret": "list (list N * option (list N))", "num": "Z",
           "kinds": {"qs": "str", "pairs": "lstr", "pair": "str", "key": "str", "sep": "str", "value": "ostr",
                     "ret": "lpair", "s1": "str", "s2": "str"},
           "none_by_name": {"value": "None"},
           "rv_default": "[]", "globals": GLOBALS,
           "truthy": {"str": "nonempty", "lstr": "is_nonempty", "ostr": "opt_nonempty"},
           "calls": {"unquote": (_call_unquote, "str")}}


def shape_partition_ostr(T, s, probe, scope=None):
    """key, sep, value = pair.partition('=') where value later becomes None: value is bound as Some text"""
    if isinstance(s, ast.Assign) and len(s.targets) == 1 and isinstance(s.targets[0], ast.Tuple) and \
            len(s.targets[0].elts) == 3 and all(isinstance(x, ast.Name) for x in s.targets[0].elts) and \
            isinstance(s.value, ast.Call) and isinstance(s.value.func, ast.Attribute) and s.value.func.attr == "partition":
        names = [x.id for x in s.targets[0].elts]
        if T.cfg["kinds"].get(names[2]) != "ostr":
            return None
        if probe:
            return [n for n in names]
        scope.update(names)
        return "let '(%s, %s, _v0) := %s in\nlet %s := Some _v0 in\n" % (
            py2coq.cname(names[0]), py2coq.cname(names[1]), T.expr(s.value, scope), py2coq.cname(names[2]))
    return None


CFG_QSL["shapes"] = [shape_partition_ostr]


# ---- QueryParamDict.to_text ---------------------------------------------------------------------------
def _call_quote(name):
    def f(T, e, scope):
        if len(e.args) != 1 or [k.arg for k in e.keywords] not in ([], ["full_quote"]):
            raise Unsupported("%s called with other arguments" % name)
        fq = T.expr(e.keywords[0].value, scope) if e.keywords else "true"
        return "(src_%s %s %s)" % (name, T.sexpr(e.args[0], scope), fq)
    return (f, "str")


def iter_items_multi(T, e, scope):
    """for k, v in self.iteritems(multi=True): the pairs of the multidict in insertion order"""
    if isinstance(e, ast.Call) and isinstance(e.func, ast.Attribute) and e.func.attr == "iteritems" and \
            _is_name(e.func.value, "self") and not e.args and len(e.keywords) == 1 and e.keywords[0].arg == "multi" and \
            isinstance(e.keywords[0].value, ast.Constant) and e.keywords[0].value.value is True:
        return "self"
    return None


CFG_QTT = {"name": "src_query_to_text", "params": [("self", "list (list N * option (list N))"), ("full_quote", "bool")],
           "ret": "list N", "num": "Z",
           "kinds": {"k": "str", "v": "ostr", "key": "str", "val": "str", "ret_list": "lstr", "full_quote": "bool"},
           "defaults": {"full_quote": "False"}, "rv_default": "(@nil N)", "globals": GLOBALS,
           "truthy": {"str": "nonempty", "lstr": "is_nonempty", "ostr": "opt_nonempty"},
           "calls": {"quote_query_part": _call_quote("quote_query_part")},
           "iterables": [iter_items_multi]}


# ---- parse_url: the authority splitting ------------------------------------------------------------------
STR_SUBS = {("str", "[0]"): ("py_char0", "char"), ("str", "[1:]"): ("(@tl N)", "str"),
            ("str", "[:2]"): ("(firstn 2)", "str"), ("str", "[:1]"): ("(firstn 1)", "str")}


def _tuple_of_names(t, names):
    return isinstance(t, ast.Tuple) and [getattr(x, "id", None) for x in t.elts] == names


def slice_parse_url(node):
    """two synthetic functions from consecutive statements of parse_url (fail closed if they are not found):
       user, pw, hostinfo = None, None, au_text ; if au_text: ...            -> (user, pw, hostinfo)
       host, port = None, None ; if hostinfo: ...                            -> (host, port)"""
    body = node.body
    fa = fb = None
    for i, st in enumerate(body[:-1]):
        if isinstance(st, ast.Assign) and len(st.targets) == 1 and isinstance(body[i + 1], ast.If):
            if _tuple_of_names(st.targets[0], ["user", "pw", "hostinfo"]) and _is_name(body[i + 1].test, "au_text"):
                fa = [st, body[i + 1]]
            if _tuple_of_names(st.targets[0], ["host", "port"]) and _is_name(body[i + 1].test, "hostinfo"):
                fb = [st, body[i + 1]]
    if fa is None or fb is None:
        raise Unsupported("parse_url: the authority-splitting statements were not found")
    # nothing between the two slices and before parse_host may touch these names in another way
    idx = body.index(fa[0])
    if body[idx + 2] is not fb[0]:
        raise Unsupported("parse_url: statements between the userinfo and the host/port splitting")
    nxt = body[body.index(fb[0]) + 2]
    if ast.unparse(nxt) != "family, host = parse_host(host)":
        raise Unsupported("parse_url: statement after the host/port splitting changed: %s" % ast.unparse(nxt))

    def mk(name, param, stmts, ret):
        f = ast.FunctionDef(name=name, args=ast.arguments(posonlyargs=[], args=[ast.arg(arg=param)], kwonlyargs=[],
                                                          kw_defaults=[], defaults=[]),
                            body=stmts + [ast.Return(value=ast.Tuple(elts=[ast.Name(id=n, ctx=ast.Load()) for n in ret],
                                                                     ctx=ast.Load()))], decorator_list=[])
        ast.fix_missing_locations(f)
        return f
    return mk("a", "au_text", fa, ["user", "pw", "hostinfo"]), mk("b", "hostinfo", fb, ["host", "port"])


CFG_UI = {"name": "src_split_userinfo", "params": [("au_text", "list N")], "ret": "(list N * list N * list N)", "num": "Z",
          "kinds": {"au_text": "str", "user": "str", "pw": "str", "hostinfo": "str", "userinfo": "str", "sep": "str", "_": "str"},
          "none_by_name": {"user": "(@nil N)", "pw": "(@nil N)"},      # URL.__init__ reads None as ''
          "rv_default": "([], [], [])", "globals": GLOBALS, "truthy": {"str": "nonempty"}}


def shape_try_port(T, s, probe, scope=None):
    """try: port = int(port_str)  except ValueError: if port_str: raise URLParseError(...)  ; port = None"""
    if not isinstance(s, ast.Try):
        return None
    try:
        assert len(s.body) == 1 and len(s.handlers) == 1 and not s.orelse and not s.finalbody
        assert ast.unparse(s.body[0]) == "port = int(port_str)"
        h = s.handlers[0]
        assert isinstance(h.type, ast.Name) and h.type.id == "ValueError" and h.name is None and len(h.body) == 2
        i, a = h.body
        assert isinstance(i, ast.If) and _is_name(i.test, "port_str") and not i.orelse and len(i.body) == 1
        r = i.body[0]
        assert isinstance(r, ast.Raise) and isinstance(r.exc, ast.Call) and _is_name(r.exc.func, "URLParseError")
        assert ast.unparse(a) == "port = None"
    except (AssertionError, AttributeError):
        raise Unsupported("try statement of an unknown shape")
    if probe:
        return ["port"]
    return "let port := port_of O port_str in\n"


CFG_HP = {"name": "src_split_hostport", "params": [("hostinfo", "list N")], "ret": "(list N * mres (option Z))", "num": "Z",
          "kinds": {"hostinfo": "str", "host": "str", "sep": "str", "port_str": "str", "host_right": "str", "_": "str",
                    "port": "mport"},
          "none_by_name": {"host": "(@nil N)", "port": "(MOk None)"},
          "rv_default": "([], MOk None)", "globals": GLOBALS, "truthy": {"str": "nonempty"},
          "subscripts": STR_SUBS, "shapes": [shape_try_port]}


# ---- URL.get_authority / URL.to_text -------------------------------------------------------------------------
URL_ATTRS = {"scheme": ("u_scheme", None, "str"), "username": ("u_user", None, "str"), "password": ("u_pass", None, "str"),
             "host": ("u_host", None, "str"), "port": ("u_port", None, "oz"), "fragment": ("u_frag", None, "str"),
             "family": ("u_family", None, "fam"), "path_parts": ("u_path", None, "lstr"),
             "default_port": ("default_port T", None, "oz"), "uses_netloc": ("uses_netloc T", None, "bool")}


def cond_url(T, e, scope):
    # self.family == socket.AF_INET6
    if isinstance(e, ast.Compare) and len(e.ops) == 1 and isinstance(e.ops[0], ast.Eq) and \
            ast.unparse(e.left) == "self.family" and ast.unparse(e.comparators[0]) == "socket.AF_INET6":
        return "(u_family self =? 6)"
    # self.port != self.default_port   (ints or None)
    if isinstance(e, ast.Compare) and len(e.ops) == 1 and isinstance(e.ops[0], (ast.Eq, ast.NotEq)) and \
            not isinstance(e.left, ast.Constant) and T.kind(e.left) == "oz" and T.kind(e.comparators[0]) == "oz":
        t = "(optZ_eqb %s %s)" % (T.expr(e.left, scope), T.expr(e.comparators[0], scope))
        return t if isinstance(e.ops[0], ast.Eq) else "(negb %s)" % t
    return None


def _call_str(T, e, scope):
    if len(e.args) != 1 or e.keywords or T.kind(e.args[0]) != "oz":
        raise Unsupported("str() of something else than the port")
    return "(str_of_Z (oz_get %s))" % T.expr(e.args[0], scope)


def _meth_decode_idna(T, e, scope):
    """self.host.encode('idna').decode('ascii'): the idna codec (oracle `enc`; its UnicodeError is the caller's)"""
    if ast.unparse(e) != "self.host.encode('idna').decode('ascii')":
        raise Unsupported("decode() of an unknown shape: %s" % ast.unparse(e))
    return "(enc (u_host self))"


def normalise_true(node, name):
    """specialise a boolean keyword parameter to True (the only way to_text calls get_authority)"""
    class Sub(ast.NodeTransformer):
        def visit_Name(self, n):
            return ast.copy_location(ast.Constant(value=True), n) if n.id == name else n
    node = Sub().visit(node)
    node.args.defaults = node.args.defaults[:len(node.args.defaults) - 1] if node.args.args[-1].arg == name else None
    if node.args.defaults is None:
        raise Unsupported("parameter %s is not the last one" % name)
    node.args.args = [a for a in node.args.args if a.arg != name]
    ast.fix_missing_locations(node)
    return node


def cond_true(T, e, scope):
    if isinstance(e, ast.Constant) and e.value is True:
        return "true"
    return None


CFG_GA = {"name": "src_get_authority", "params": [("self", "url"), ("full_quote", "bool")], "ret": "list N", "num": "Z",
          "kinds": {"parts": "lstr", "full_quote": "bool"}, "attrs": URL_ATTRS, "defaults": {"full_quote": "False"},
          "rv_default": "(@nil N)", "globals": GLOBALS,
          "truthy": {"str": "nonempty", "lstr": "is_nonempty", "oz": "oz_truthy"},
          "calls": {"quote_userinfo_part": _call_quote("quote_userinfo_part"), "str": (_call_str, "str")},
          "methods": {"decode": (_meth_decode_idna, "str")},
          "conds": [cond_url, cond_true], "shapes": [shape_append_alias]}


def _meth_get_authority(T, e, scope):
    kw = {k.arg: k.value for k in e.keywords}
    if e.args or set(kw) != {"full_quote", "with_userinfo"} or not (
            isinstance(kw["with_userinfo"], ast.Constant) and kw["with_userinfo"].value is True) or \
            not _is_name(e.func.value, "self"):
        raise Unsupported("get_authority called differently: %s" % ast.unparse(e))
    return "(src_get_authority self %s)" % T.expr(kw["full_quote"], scope)


def _meth_qp_to_text(T, e, scope):
    if ast.unparse(e.func) != "self.query_params.to_text" or e.args or [k.arg for k in e.keywords] != ["full_quote"]:
        raise Unsupported("to_text called differently: %s" % ast.unparse(e))
    return "(src_query_to_text (u_query self) %s)" % T.expr(e.keywords[0].value, scope)


CFG_TT = {"name": "src_to_text", "params": [("self", "url"), ("full_quote", "bool")], "ret": "list N", "num": "Z",
          "kinds": {"parts": "lstr", "full_quote": "bool", "scheme": "str", "path": "str", "authority": "str",
                    "query_string": "str", "fragment": "str", "p": "str"},
          "attrs": URL_ATTRS, "defaults": {"full_quote": "False"}, "rv_default": "(@nil N)", "globals": GLOBALS,
          "truthy": {"str": "nonempty", "lstr": "is_nonempty", "oz": "oz_truthy"},
          "eqb": {"str": "text_eqb"}, "subscripts": STR_SUBS,
          "calls": {"quote_path_part": _call_quote("quote_path_part"),
                    "quote_fragment_part": _call_quote("quote_fragment_part")},
          "methods": {"get_authority": (_meth_get_authority, "str"), "to_text": (_meth_qp_to_text, "str")},
          "conds": [cond_url], "shapes": [shape_append_alias]}


# ---- parse_host ------------------------------------------------------------------------------------------------
def _handler_names(h):
    t = h.type
    if isinstance(t, ast.Name):
        return [t.id]
    if isinstance(t, ast.Tuple):
        return [x.id for x in t.elts]
    return []


def _raises_parse_error(body):
    return len(body) == 1 and isinstance(body[0], ast.Raise) and isinstance(body[0].exc, ast.Call) and \
        _is_name(body[0].exc.func, "URLParseError")


def try_inet6(T, s, scope, ind):
    """try: inet_pton(AF_INET6, host)  except OSError: raise URLParseError  except UnicodeEncodeError: pass
       except ValueError: raise URLParseError  else: family = AF_INET6; return family, host"""
    if ast.unparse(s.body[0]) != "inet_pton(socket.AF_INET6, host)" or len(s.body) != 1:
        return None
    try:
        hs = {tuple(_handler_names(h)): h for h in s.handlers}
        assert set(hs) == {("OSError",), ("UnicodeEncodeError",), ("ValueError",)} and not s.finalbody
        assert [tuple(_handler_names(h)) for h in s.handlers].index(("UnicodeEncodeError",)) < \
            [tuple(_handler_names(h)) for h in s.handlers].index(("ValueError",))      # subclass caught first
        assert _raises_parse_error(hs[("OSError",)].body) and _raises_parse_error(hs[("ValueError",)].body)
        assert len(hs[("UnicodeEncodeError",)].body) == 1 and isinstance(hs[("UnicodeEncodeError",)].body[0], ast.Pass)
        assert [ast.unparse(x) for x in s.orelse] == ["family = socket.AF_INET6", "return (family, host)"]
    except (AssertionError, ValueError):
        raise Unsupported("try statement around inet_pton(AF_INET6) of an unknown shape")
    t = (ind + "let '(_ret, _rv) := match o_inet6 O host with\n" +
         ind + "    | MOk V6Ok => (true, MOk (6, host))\n" +
         ind + "    | MOk V6OSError => (true, URLParseErr)\n" +
         ind + "    | MOk V6UnicodeError => (_ret, _rv)\n" +
         ind + "    | MRaise e => (true, MRaise e)\n" +
         ind + "    | MOut w => (true, MOut w)\n" +
         ind + "    end in\n")
    return t, scope, ["_ret"]


def try_inet4(T, s, scope, ind):
    """try: inet_pton(AF_INET, host)  except (OSError, ValueError): family = None  else: family = AF_INET"""
    if ast.unparse(s.body[0]) != "inet_pton(socket.AF_INET, host)" or len(s.body) != 1:
        return None
    try:
        assert len(s.handlers) == 1 and not s.finalbody
        assert set(_handler_names(s.handlers[0])) == {"OSError", "ValueError"}
        assert [ast.unparse(x) for x in s.handlers[0].body] == ["family = None"]
        assert [ast.unparse(x) for x in s.orelse] == ["family = socket.AF_INET"]
    except AssertionError:
        raise Unsupported("try statement around inet_pton(AF_INET) of an unknown shape")
    return ind + "let family := (do b <- o_inet4 O host; MOk (if (b : bool) then 4 else 0)) in\n", scope | {"family"}, []


def ret_parse_host(T, v, scope):
    if not (isinstance(v, ast.Tuple) and len(v.elts) == 2):
        raise Unsupported("parse_host returns something else than a pair")
    f, h = v.elts
    if isinstance(f, ast.Constant) and f.value is None:
        return "(MOk (0, %s))" % T.expr(h, scope)
    if _is_name(f, "family") and "family" in scope:
        return "(do f <- family; MOk (f, %s))" % T.expr(h, scope)
    raise Unsupported("parse_host return value")


def assigned_try(T):
    """py2coq's `assigned` does not know Try: tell it which names the two statements bind"""
    orig = T.assigned

    def assigned(stmts, brk=None):
        out = []
        rest = []
        for st in stmts:
            if isinstance(st, ast.Try):
                src = ast.unparse(st.body[0]) if st.body else ""
                names = ["_ret", "_rv"] if "AF_INET6" in src else ["family"]
                for n in names:
                    if n not in out:
                        out.append(n)
            else:
                for n in orig([st], brk):
                    if n not in out:
                        out.append(n)
        return out
    T.assigned = assigned
    orig_exits = T.exits

    def exits(stmts, brk):
        fl = list(orig_exits(stmts, brk))
        for st in stmts:
            for n in ast.walk(st):
                if isinstance(n, ast.Try) and n.body and "AF_INET6" in ast.unparse(n.body[0]) and "_ret" not in fl:
                    fl.append("_ret")
        return fl
    T.exits = exits
    return T


CFG_PH = {"name": "src_parse_host", "params": [("host", "list N")], "ret": "mres (N * list N)", "num": "Z",
          "kinds": {"host": "str", "family": "mfam"}, "rv_default": "(MOk (0, (@nil N)))", "globals": GLOBALS,
          "truthy": {"str": "nonempty"},
          "subscripts": {**STR_SUBS, ("str", "[-1]"): ("py_char_last", "char"), ("str", "[1:-1]"): ("py_strip1", "str")},
          "try_shapes": [try_inet6, try_inet4], "ret_render": ret_parse_host}


# ---- unquote ------------------------------------------------------------------------------------------------------
def normalise_unquote(node, module_path):
    """specialise encoding/errors to their defaults ('utf-8', 'replace': the only way urlutils calls unquote), turn the
    index loop `for i in range(1, len(bits), 2): ... bits[i] ... bits[i + 1]` into a loop over the pairs
    (bits[1], bits[2]), (bits[3], bits[4]), ...; re.split with one group always returns an odd number of pieces"""
    d = {a.arg: v for a, v in zip(node.args.args[len(node.args.args) - len(node.args.defaults):], node.args.defaults)}
    if not (isinstance(d.get("encoding"), ast.Constant) and d["encoding"].value == "utf-8" and
            isinstance(d.get("errors"), ast.Constant) and d["errors"].value == "replace"):
        raise Unsupported("defaults of unquote changed")
    src = open(module_path).read()
    if "_ASCII_RE = re.compile('([\\x00-\\x7f]+)')" not in src:
        raise Unsupported("_ASCII_RE changed")
    body = []
    for st in node.body:
        u = ast.unparse(st)
        if u in ("if encoding is None:\n    encoding = 'utf-8'", "if errors is None:\n    errors = 'replace'"):
            continue
        if isinstance(st, ast.For):
            if ast.unparse(st.iter) != "range(1, len(bits), 2)" or not _is_name(st.target, "i") or st.orelse:
                raise Unsupported("unquote: loop header changed")

            class Sub(ast.NodeTransformer):
                def visit_Subscript(self, n):
                    t = ast.unparse(n)
                    if t == "bits[i]":
                        return ast.Name(id="_a", ctx=ast.Load())
                    if t == "bits[i + 1]":
                        return ast.Name(id="_b", ctx=ast.Load())
                    return self.generic_visit(n)
            new_body = [Sub().visit(x) for x in st.body]
            for x in new_body:
                for n in ast.walk(x):
                    if isinstance(n, ast.Name) and n.id in ("i", "bits"):
                        raise Unsupported("unquote: the loop uses its index in another way")
            st = ast.For(target=ast.Tuple(elts=[ast.Name(id="_a", ctx=ast.Store()), ast.Name(id="_b", ctx=ast.Store())],
                                          ctx=ast.Store()),
                         iter=ast.Call(func=ast.Name(id="_pairs1", ctx=ast.Load()), args=[ast.Name(id="bits", ctx=ast.Load())],
                                       keywords=[]),
                         body=new_body, orelse=[])
        body.append(st)
    node.body = body
    node.args.args = [a for a in node.args.args if a.arg == "string"]
    node.args.defaults = []
    ast.fix_missing_locations(node)
    return node


def _meth_ascii_split(T, e, scope):
    if ast.unparse(e) != "_ASCII_RE.split(string)":
        raise Unsupported("split of an unknown shape: %s" % ast.unparse(e))
    return "(ascii_bits string)"


def _meth_decode_utf8(T, e, scope):
    if [ast.unparse(a) for a in e.args] != ["encoding", "errors"] or e.keywords:
        raise Unsupported("decode called with other arguments")
    return "(utf8_dec %s)" % T.expr(e.func.value, scope)


def _call_utb(T, e, scope):
    if len(e.args) != 1 or e.keywords:
        raise Unsupported("unquote_to_bytes called with other arguments")
    return "(src_unquote_to_bytes %s)" % T.sexpr(e.args[0], scope)


def iter_pairs1(T, e, scope):
    if isinstance(e, ast.Call) and _is_name(e.func, "_pairs1") and len(e.args) == 1:
        return "(py_pairs1 %s)" % T.expr(e.args[0], scope)
    return None


class UQ(UT):
    def method(self, e, scope):
        if e.func.attr == "split" and ast.unparse(e.func.value) == "_ASCII_RE":
            return _meth_ascii_split(self, e, scope)
        if e.func.attr == "decode":
            return _meth_decode_utf8(self, e, scope)
        return super().method(e, scope)


CFG_UNQ = {"name": "src_unquote", "params": [("string", "list N")], "ret": "list N", "num": "Z",
           "kinds": {"string": "str", "bits": "lstr", "res": "lstr", "_a": "str", "_b": "str"},
           "rv_default": "(@nil N)", "globals": GLOBALS, "truthy": {"str": "nonempty", "lstr": "is_nonempty"},
           "calls": {"unquote_to_bytes": (_call_utb, "str")},
           "subscripts": {("lstr", "[0]"): ("py_first", "str")},
           "iterables": [iter_pairs1], "shapes": [shape_attr_probe, shape_append_alias]}


# ---- _make_quote_map ----------------------------------------------------------------------------------------------
def translate_make_quote_map(path):
    """_make_quote_map has one fixed shape (a loop over the 256 byte values filling a dict under the keys chr(v) and
    v); it is recognised statement by statement and rendered as the list of the 256 values in key order.  Also
    checks that the four tables are built by it from the four *_SAFE sets."""
    node = py2coq.get_function(path, "_make_quote_map")
    body = [st for st in node.body if not (isinstance(st, ast.Expr) and isinstance(st.value, ast.Constant))]
    try:
        assert [a.arg for a in node.args.args] == ["safe_chars"] and len(body) == 3
        init, loop, ret = body
        assert ast.unparse(init) == "ret = {}" and ast.unparse(ret) == "return ret"
        assert isinstance(loop, ast.For) and not loop.orelse
        assert ast.unparse(loop.target) == "(i, v)" and ast.unparse(loop.iter) == "zip(range(256), range(256))"
        c_assign, branch = loop.body
        assert ast.unparse(c_assign) == "c = chr(v)"
        assert isinstance(branch, ast.If) and ast.unparse(branch.test) == "c in safe_chars"
        assert len(branch.body) == 1 and len(branch.orelse) == 1
        yes, no = branch.body[0], branch.orelse[0]
        for st in (yes, no):
            assert isinstance(st, ast.Assign) and [ast.unparse(t) for t in st.targets] == ["ret[c]", "ret[v]"]
        assert ast.unparse(yes.value) == "c"
        fs = no.value
        assert isinstance(fs, ast.JoinedStr) and len(fs.values) == 2
        assert isinstance(fs.values[0], ast.Constant) and fs.values[0].value == "%"
        fv = fs.values[1]
        assert isinstance(fv, ast.FormattedValue) and ast.unparse(fv.value) == "i" and fv.conversion == -1
        assert isinstance(fv.format_spec, ast.JoinedStr) and len(fv.format_spec.values) == 1 and \
            fv.format_spec.values[0].value == "02X"
    except (AssertionError, ValueError, AttributeError):
        raise Unsupported("_make_quote_map changed shape")
    tree = ast.parse(open(path).read())
    want = {"_USERINFO_PART_QUOTE_MAP": "_USERINFO_SAFE", "_PATH_PART_QUOTE_MAP": "_PATH_SAFE",
            "_QUERY_PART_QUOTE_MAP": "_QUERY_SAFE", "_FRAGMENT_QUOTE_MAP": "_FRAGMENT_SAFE"}
    seen = {}
    for st in tree.body:
        if isinstance(st, ast.Assign) and len(st.targets) == 1 and isinstance(st.targets[0], ast.Name) and \
                st.targets[0].id in want:
            seen[st.targets[0].id] = ast.unparse(st.value)
    for k, v in want.items():
        if seen.get(k) != "_make_quote_map(%s)" % v:
            raise Unsupported("%s is not built as _make_quote_map(%s)" % (k, v))
    return ("(* _make_quote_map: for i, v in zip(range(256), range(256)): c = chr(v);\n"
            "   ret[c] = ret[v] = (c if c in safe_chars else f'%{i:02X}') - the dict as the list of its 256 values *)\n"
            "Definition src_make_quote_map (safe_chars : list N) : list (list N) :=\n"
            "  let ret := [] in\n"
            "  let ret :=\n"
            "    fold_left (fun ret '(i, v) =>\n"
            "        let c := v in\n"
            "        let ret := if (memN c safe_chars) then ret ++ [[c]] else ret ++ [pct_encode i] in\n"
            "        ret)\n"
            "      (map (fun n => (n, n)) (map N.of_nat (seq 0 256))) ret in\n"
            "  ret.\n")


HEADER = """(* GENERATED on every run by harness/translators/c06_src.py from %s; do not edit. *)
From Boltons Require Import Lib.Prelude Lib.PySrc Lib.C06_Text Model.C06_Model Lib.C06_PySrc.
Open Scope N_scope.

Section Src.
Variable T : tables.
Variable O : oracles.

"""


def generate(repo):
    path = os.path.join(repo, "boltons", "urlutils.py")
    out = [HEADER % "boltons/urlutils.py"]
    out.append(translate_make_quote_map(path))
    for fn in ("quote_path_part", "quote_query_part", "quote_fragment_part", "quote_userinfo_part"):
        node = py2coq.get_function(path, fn)
        out.append(UT(cfg_quote(fn)).function(node))
    node = normalise_utb(py2coq.get_function(path, "unquote_to_bytes"))
    out.append(UT(dict(CFG_UTB)).function(node))
    out.append(UQ(dict(CFG_UNQ)).function(normalise_unquote(py2coq.get_function(path, "unquote"), path)))
    node = normalise_qsl(py2coq.get_function(path, "parse_qsl"))
    out.append(UT(dict(CFG_QSL)).function(node))
    out.append(UT(dict(CFG_QTT)).function(py2coq.get_function(path, "QueryParamDict.to_text")))
    fa, fb = slice_parse_url(py2coq.get_function(path, "parse_url"))
    out.append(UT(dict(CFG_UI)).function(fa))
    out.append(UT(dict(CFG_HP)).function(fb))
    out.append(assigned_try(UT(dict(CFG_PH))).function(py2coq.get_function(path, "parse_host")))
    out.append("(* the idna codec on the host, as a function (its UnicodeError is propagated by the callers) *)\nVariable enc : list N -> list N.\n")
    node = normalise_true(py2coq.get_function(path, "URL.get_authority"), "with_userinfo")
    out.append(UT(dict(CFG_GA)).function(node))
    out.append(UT(dict(CFG_TT)).function(py2coq.get_function(path, "URL.to_text")))
    out.append("End Src.\n")
    return {"C06_Src": "\n".join(out)}


if __name__ == "__main__":
    import sys
    print(generate(sys.argv[1] if len(sys.argv) > 1 else "/repo")["C06_Src"])
