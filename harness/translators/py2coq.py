"""Fail-closed translator from a small subset of Python (taken from /repo's current source
with `ast`) to Gallina text (shallow embedding).

Purpose (DESIGN 1.3 (T)): for a few small, arithmetic/loop-shaped functions the Gallina
definition is REGENERATED FROM THE SOURCE ON EVERY RUN into coq/Gen/Cxx_Src.v, and a theorem in
coq/Proofs/Cxx_SrcEq.v proves it equal to the hand-written model function the property theorems
are about.  A change of the source changes the generated term; the equality proof (or the
translation itself) then breaks, which the driver reports as a broken tie and follows up with a
search for a concrete failing input.

Supported subset (anything else raises Unsupported = the translator fails closed):
  statements : x = e | a, b = e1, e2 | x op= e | self.attr = e | self.attr op= e | x.append(e)
               | x.pop() | pass | if/elif/else | for <name|tuple> in <list expr | range(..)>
               (with break and for-else) | return [e] | yield e | docstring
               | plug-in "shapes" (e.g. a specific try/except KeyError idiom) given in cfg["shapes"]
  expressions: int/bool/str constants (strings through cfg["consts"]), names, self.attr, + - * // %,
               unary -, comparisons (one operator), and/or/not in boolean position, truthiness of
               ints/lists/strings by declared kind, calls listed in cfg["calls"], x[0] style
               subscripts listed in cfg["subscripts"], tuples, list literals, conditional expressions.
Semantics conventions of the emitted text:
  * a Python local is a Gallina `let`; a mutation is a re-binding; an `if` returns the tuple of the
    variables (already bound before it) that either branch assigns; a `for` is `fold_left` over the
    iterated list carrying the tuple of variables the body assigns (+ a break flag, a return flag
    and the return value / list of yielded values when the body needs them);
  * `break`, and `return` in non-tail position, set a flag; the statements after a statement that
    may have set a flag are guarded by `if flag then <current tuple> else ...`;
  * a loop target that is read after the loop must be pre-bound through cfg["prebind"] (Python
    would raise NameError for an empty loop; the pre-bound value is what the model uses there).
"""
import ast
import textwrap


class Unsupported(Exception):
    pass


COQ_KEYWORDS = {"end", "in", "at", "as", "return", "then", "else", "if", "fun", "let", "match", "with",
                "fix", "forall", "exists", "Type", "Prop", "Set", "using", "where", "for", "by", "is"}


def cname(n):
    return n + "_" if n in COQ_KEYWORDS else n


def tup(names):
    names = [cname(n) for n in names]
    if not names:
        raise Unsupported("empty state tuple")
    return names[0] if len(names) == 1 else "(" + ", ".join(names) + ")"


def pat(names):
    names = [cname(n) for n in names]
    return names[0] if len(names) == 1 else "'(" + ", ".join(names) + ")"


def get_function(path, qualname):
    """Return the ast.FunctionDef for 'func' or 'Class.method' in the file."""
    tree = ast.parse(open(path).read())
    parts = qualname.split(".")
    body = tree.body
    node = None
    for p in parts:
        node = None
        for n in body:
            if isinstance(n, (ast.FunctionDef, ast.ClassDef)) and n.name == p:
                node = n
        if node is None:
            raise Unsupported("%s not found in %s" % (qualname, path))
        body = node.body
    if not isinstance(node, ast.FunctionDef):
        raise Unsupported("%s is not a function" % qualname)
    return node


class Translator:
    def __init__(self, cfg):
        self.cfg = cfg
        self.num = cfg.get("num", "Z")
        self.nbrk = 0
        self.flagmode = False
        self.generator = False

    # ------------------------------------------------------------------ analysis
    def assigned(self, stmts, brk=None):
        """Names (re)bound by executing stmts, in first-appearance order."""
        out = []

        def add(n):
            if n not in out:
                out.append(n)

        def tgt(t):
            if isinstance(t, ast.Name):
                add(t.id)
            elif isinstance(t, ast.Tuple):
                for e in t.elts:
                    tgt(e)
            elif isinstance(t, ast.Attribute) and isinstance(t.value, ast.Name) and t.value.id == "self":
                add("self")
            elif isinstance(t, ast.Subscript):
                tgt(t.value)
            else:
                raise Unsupported("assignment target %s" % ast.dump(t))

        def walk(ss, in_inner_loop):
            for s in ss:
                for sh in self.cfg.get("shapes", []):
                    r = sh(self, s, probe=True)
                    if r is not None:
                        for n in r:
                            add(n)
                        break
                else:
                    if isinstance(s, ast.Assign):
                        for t in s.targets:
                            tgt(t)
                    elif isinstance(s, ast.AugAssign):
                        tgt(s.target)
                    elif isinstance(s, ast.Expr):
                        v = s.value
                        if isinstance(v, ast.Call) and isinstance(v.func, ast.Attribute) and \
                                isinstance(v.func.value, ast.Name) and v.func.value.id == "self" and \
                                v.func.attr in self.cfg.get("self_methods", {}):
                            add("self")
                        elif isinstance(v, ast.Call) and isinstance(v.func, ast.Attribute) and \
                                isinstance(v.func.value, ast.Name) and v.func.attr in ("append", "pop"):
                            add(v.func.value.id)
                        elif isinstance(v, ast.Yield):
                            add("_out")
                    elif isinstance(s, ast.If):
                        walk(s.body, in_inner_loop)
                        walk(s.orelse, in_inner_loop)
                    elif isinstance(s, ast.For):
                        tgt(s.target)
                        walk(s.body, True)
                        walk(s.orelse, in_inner_loop)
                    elif isinstance(s, ast.Return):
                        if self.flagmode:
                            add("_ret")
                            if not self.generator:
                                add("_rv")
                    elif isinstance(s, ast.Break):
                        if not in_inner_loop and brk:
                            add(brk)
        walk(stmts, False)
        return out

    def exits(self, stmts, brk):
        """Flags that executing stmts may set (so that what follows must be guarded)."""
        fl = []

        def walk(ss, in_inner_loop):
            for s in ss:
                if isinstance(s, ast.Return) and self.flagmode and "_ret" not in fl:
                    fl.append("_ret")
                elif isinstance(s, ast.Break) and not in_inner_loop and brk and brk not in fl:
                    fl.append(brk)
                elif isinstance(s, ast.If):
                    walk(s.body, in_inner_loop)
                    walk(s.orelse, in_inner_loop)
                elif isinstance(s, ast.For):
                    walk(s.body, True)
                    walk(s.orelse, in_inner_loop)
        walk(stmts, False)
        return fl

    # ------------------------------------------------------------------ expressions
    def kind(self, e):
        for f in self.cfg.get("kind_of", []):
            r = f(self, e)
            if r is not None:
                return r
        if isinstance(e, ast.Constant):
            if isinstance(e.value, bool):
                return "bool"
            if isinstance(e.value, int):
                return "int"
            if isinstance(e.value, str):
                return "str"
            raise Unsupported("constant %r" % (e.value,))
        if isinstance(e, ast.Name):
            k = self.cfg.get("kinds", {}).get(e.id)
            if k is None:
                raise Unsupported("no kind declared for %s" % e.id)
            return k
        if isinstance(e, ast.Attribute) and isinstance(e.value, ast.Name) and e.value.id == "self":
            return self.cfg["attrs"][e.attr][2]
        if isinstance(e, ast.BinOp):
            return self.kind(e.left)
        if isinstance(e, ast.UnaryOp):
            return "bool" if isinstance(e.op, ast.Not) else "int"
        if isinstance(e, (ast.Compare, ast.BoolOp)):
            return "bool"
        if isinstance(e, ast.Call) and isinstance(e.func, ast.Name) and e.func.id in self.cfg.get("calls", {}):
            return self.cfg["calls"][e.func.id][1]
        if isinstance(e, ast.Subscript):
            key = self.subscript_key(e)
            return self.cfg["subscripts"][key][1]
        if isinstance(e, ast.IfExp):
            return self.kind(e.body)
        if isinstance(e, ast.ListComp):
            return "list"
        if isinstance(e, ast.Call) and isinstance(e.func, ast.Attribute) and isinstance(e.func.value, ast.Name) and \
                e.func.value.id == "self" and e.func.attr in self.cfg.get("self_func_kinds", {}):
            return self.cfg["self_func_kinds"][e.func.attr]
        if isinstance(e, ast.List):
            return "list"
        if isinstance(e, ast.Tuple):
            return "tuple"
        raise Unsupported("kind of %s" % ast.dump(e))

    def subscript_key(self, e):
        base = self.kind(e.value)
        sl = e.slice
        if isinstance(sl, ast.Constant) and isinstance(sl.value, int):
            key = (base, "[%d]" % sl.value)
        elif isinstance(sl, ast.Slice):
            def b(x):
                if x is None:
                    return ""
                if isinstance(x, ast.Constant):
                    return str(x.value)
                if isinstance(x, ast.UnaryOp) and isinstance(x.op, ast.USub) and isinstance(x.operand, ast.Constant):
                    return "-%d" % x.operand.value
                raise Unsupported("slice bound")
            key = (base, "[%s:%s]" % (b(sl.lower), b(sl.upper)))
        else:
            key = (base, "[i]")
        if key not in self.cfg.get("subscripts", {}):
            raise Unsupported("subscript %s of kind %s" % (key[1], base))
        return key

    def lit(self, n):
        return "%d%%%s" % (n, self.num) if n >= 0 else "(%d)%%%s" % (n, self.num)

    def expr(self, e, scope):
        for f in self.cfg.get("exprs", []):
            r = f(self, e, scope)
            if r is not None:
                return r
        if isinstance(e, ast.Constant):
            if isinstance(e.value, bool):
                return "true" if e.value else "false"
            if isinstance(e.value, int):
                return self.lit(e.value)
            key = repr(e.value)
            if key in self.cfg.get("consts", {}):
                return self.cfg["consts"][key]
            raise Unsupported("constant %r" % (e.value,))
        if isinstance(e, ast.Name):
            if e.id not in scope:
                raise Unsupported("name %s read before it is bound" % e.id)
            return cname(e.id)
        if isinstance(e, ast.Attribute) and isinstance(e.value, ast.Name) and e.value.id == "self":
            if e.attr not in self.cfg.get("attrs", {}):
                raise Unsupported("self.%s" % e.attr)
            return "(%s self)" % self.cfg["attrs"][e.attr][0]
        if isinstance(e, ast.BinOp):
            a, b = self.expr(e.left, scope), self.expr(e.right, scope)
            k = self.kind(e.left)
            if k == "int":
                ops = {ast.Add: "+", ast.Sub: "-", ast.Mult: "*", ast.FloorDiv: "/", ast.Mod: "mod"}
                if type(e.op) not in ops:
                    raise Unsupported("operator %s" % type(e.op).__name__)
                return "(%s %s %s)%%%s" % (a, ops[type(e.op)], b, self.num)
            if k in ("list", "str") or k.startswith("list"):
                if isinstance(e.op, ast.Add):
                    return "(%s ++ %s)" % (a, b)
            raise Unsupported("binary operator on kind %s" % k)
        if isinstance(e, ast.UnaryOp):
            if isinstance(e.op, ast.USub):
                return "(- %s)%%%s" % (self.expr(e.operand, scope), self.num)
            if isinstance(e.op, ast.Not):
                return "(negb %s)" % self.cond(e.operand, scope)
            raise Unsupported("unary operator")
        if isinstance(e, (ast.Compare, ast.BoolOp)):
            return self.cond(e, scope)
        if isinstance(e, ast.IfExp):
            return "(if %s then %s else %s)" % (self.cond(e.test, scope), self.expr(e.body, scope), self.expr(e.orelse, scope))
        if isinstance(e, ast.Tuple):
            return "(" + ", ".join(self.expr(x, scope) for x in e.elts) + ")"
        if isinstance(e, ast.List):
            return "[" + "; ".join(self.expr(x, scope) for x in e.elts) + "]"
        if isinstance(e, ast.Call) and isinstance(e.func, ast.Name):
            fn = e.func.id
            if fn not in self.cfg.get("calls", {}):
                raise Unsupported("call of %s" % fn)
            coq = self.cfg["calls"][fn][0]
            if callable(coq):      # custom rendering (keyword arguments, validators ...): must fail closed itself
                return coq(self, e, scope)
            if e.keywords:
                raise Unsupported("call of %s with keyword arguments" % fn)
            if coq == "":          # identity conversion such as list(x)
                if len(e.args) != 1:
                    raise Unsupported("call of %s" % fn)
                return self.expr(e.args[0], scope)
            return "(%s %s)" % (coq, " ".join(self.expr(a, scope) for a in e.args))
        if isinstance(e, ast.Subscript):
            key = self.subscript_key(e)
            coq = self.cfg["subscripts"][key][0]
            if key[1] == "[i]":
                return "(%s %s %s)" % (coq, self.expr(e.value, scope), self.expr(e.slice, scope))
            return "(%s %s)" % (coq, self.expr(e.value, scope))
        if isinstance(e, ast.ListComp):
            # [e for <target> in <iter> (if c)*]  ==  map (fun target => e) (filter (fun target => c) iter)
            if len(e.generators) != 1 or e.generators[0].is_async:
                raise Unsupported("list comprehension")
            g = e.generators[0]
            if isinstance(g.target, ast.Name):
                names = [g.target.id]
            elif isinstance(g.target, ast.Tuple) and all(isinstance(x, ast.Name) for x in g.target.elts):
                names = [x.id for x in g.target.elts]
            else:
                raise Unsupported("comprehension target")
            lst = self.iter_list(g.iter, scope)
            sc = scope | set(names)
            p = cname(names[0]) if len(names) == 1 else "'(" + ", ".join(cname(n) for n in names) + ")"
            if g.ifs:
                lst = "(filter (fun %s => %s) %s)" % (p, " && ".join(self.cond(c, sc) for c in g.ifs), lst)
            return "(map (fun %s => %s) %s)" % (p, self.expr(e.elt, sc), lst)
        if isinstance(e, ast.Call) and isinstance(e.func, ast.Attribute) and isinstance(e.func.value, ast.Name) and \
                e.func.value.id == "self" and e.func.attr in self.cfg.get("self_funcs", {}) and not e.keywords:
            # a call of another (already translated) value-returning method of the same object
            return "(%s self%s)" % (self.cfg["self_funcs"][e.func.attr], "".join(" " + self.expr(a, scope) for a in e.args))
        if isinstance(e, ast.DictComp):
            # {k: v for k, v in X.items() if c}  ==  filter (fun '(k, v) => c) X   (identity comprehension only)
            if len(e.generators) != 1:
                raise Unsupported("dict comprehension")
            g = e.generators[0]
            if not (isinstance(g.target, ast.Tuple) and len(g.target.elts) == 2 and
                    all(isinstance(x, ast.Name) for x in g.target.elts) and not g.is_async and
                    isinstance(e.key, ast.Name) and isinstance(e.value, ast.Name) and
                    e.key.id == g.target.elts[0].id and e.value.id == g.target.elts[1].id and
                    isinstance(g.iter, ast.Call) and isinstance(g.iter.func, ast.Attribute) and
                    g.iter.func.attr == "items" and not g.iter.args and not g.iter.keywords):
                raise Unsupported("dict comprehension shape")
            k, v = e.key.id, e.value.id
            sc = scope | {k, v}
            c = " && ".join(self.cond(x, sc) for x in g.ifs) if g.ifs else "true"
            return "(filter (fun '(%s, %s) => %s) %s)" % (cname(k), cname(v), c, self.expr(g.iter.func.value, scope))
        raise Unsupported("expression %s" % ast.dump(e))

    def cond(self, e, scope):
        for f in self.cfg.get("conds", []):
            r = f(self, e, scope)
            if r is not None:
                return r
        if isinstance(e, ast.BoolOp):
            op = " && " if isinstance(e.op, ast.And) else " || "
            return "(" + op.join(self.cond(v, scope) for v in e.values) + ")"
        if isinstance(e, ast.UnaryOp) and isinstance(e.op, ast.Not):
            return "(negb %s)" % self.cond(e.operand, scope)
        if isinstance(e, ast.Compare):
            if len(e.ops) != 1:
                raise Unsupported("chained comparison")
            op, l, r = e.ops[0], e.left, e.comparators[0]
            if isinstance(op, (ast.In, ast.NotIn)):
                if not isinstance(r, (ast.Tuple, ast.List)):
                    raise Unsupported("'in' with a non-literal container")
                k = self.kind(l)
                eqb = self.cfg["eqb"][k]
                t = "(existsb (%s %s) [%s])" % (eqb, self.expr(l, scope), "; ".join(self.expr(x, scope) for x in r.elts))
                return t if isinstance(op, ast.In) else "(negb %s)" % t
            k = self.kind(l)
            a, b = self.expr(l, scope), self.expr(r, scope)
            if k == "int":
                m = {ast.Lt: "(%s <? %s)", ast.LtE: "(%s <=? %s)", ast.Gt: "(%s >? %s)", ast.GtE: "(%s >=? %s)",
                     ast.Eq: "(%s =? %s)", ast.NotEq: "(negb (%s =? %s))"}
                if self.num == "N":       # N has no >? / >=? notations in every scope: flip
                    m[ast.Gt] = "(%(b)s <? %(a)s)"
                    m[ast.GtE] = "(%(b)s <=? %(a)s)"
                    if type(op) in (ast.Gt, ast.GtE):
                        return (m[type(op)] % {"a": a, "b": b}) + "%" + self.num
                if type(op) not in m:
                    raise Unsupported("comparison")
                return (m[type(op)] % (a, b)) + "%" + self.num
            if isinstance(op, (ast.Eq, ast.NotEq)):
                eqb = self.cfg.get("eqb", {}).get(k)
                if not eqb:
                    raise Unsupported("equality on kind %s" % k)
                t = "(%s %s %s)" % (eqb, a, b)
                return t if isinstance(op, ast.Eq) else "(negb %s)" % t
            raise Unsupported("comparison on kind %s" % k)
        # truthiness
        k = self.kind(e)
        if k == "bool":
            return self.expr(e, scope)
        if k == "int":
            return "(negb (%s =? %s)%%%s)" % (self.expr(e, scope), self.lit(0), self.num)
        tr = self.cfg.get("truthy", {}).get(k)
        if tr:
            return "(%s %s)" % (tr, self.expr(e, scope))
        raise Unsupported("truthiness of kind %s" % k)

    def iter_list(self, e, scope):
        for f in self.cfg.get("iterables", []):
            r = f(self, e, scope)
            if r is not None:
                return r
        if isinstance(e, ast.Call) and isinstance(e.func, ast.Name) and e.func.id == "range":
            args = [self.expr(a, scope) for a in e.args]
            if len(args) == 1:
                args = [self.lit(0), args[0], self.lit(1)]
            elif len(args) == 2:
                args = args + [self.lit(1)]
            return "(%s %s)" % (self.cfg.get("range", "zrange"), " ".join(args))
        return self.expr(e, scope)

    # ------------------------------------------------------------------ statements
    def setattr_(self, attr, val):
        if attr not in self.cfg.get("attrs", {}):
            raise Unsupported("self.%s" % attr)
        return "let self := %s self %s in\n" % (self.cfg["attrs"][attr][1], val)

    def stmt(self, s, scope, brk, ind):
        """-> (prefix text, scope after, flags that may have been set)"""
        for sh in self.cfg.get("shapes", []):
            r = sh(self, s, probe=False, scope=scope)
            if r is not None:
                return ind + r, scope, []
        sp = ind
        if isinstance(s, ast.Expr) and isinstance(s.value, ast.Constant) and isinstance(s.value.value, str):
            return "", scope, []
        if isinstance(s, ast.Pass):
            return "", scope, []
        if isinstance(s, ast.Assign):
            if len(s.targets) != 1:
                raise Unsupported("chained assignment")
            t = s.targets[0]
            if isinstance(t, ast.Name):
                return sp + "let %s := %s in\n" % (cname(t.id), self.expr(s.value, scope)), scope | {t.id}, []
            if isinstance(t, ast.Tuple) and all(isinstance(x, ast.Name) for x in t.elts):
                names = [x.id for x in t.elts]
                return sp + "let %s := %s in\n" % (pat(names), self.expr(s.value, scope)), scope | set(names), []
            if isinstance(t, ast.Attribute) and isinstance(t.value, ast.Name) and t.value.id == "self":
                return sp + self.setattr_(t.attr, self.expr(s.value, scope)), scope, []
            raise Unsupported("assignment to %s" % ast.dump(t))
        if isinstance(s, ast.AugAssign):
            fake = ast.BinOp(left=s.target, op=s.op, right=s.value)
            t = s.target
            if isinstance(t, ast.Name):
                return sp + "let %s := %s in\n" % (cname(t.id), self.expr(fake, scope)), scope, []
            if isinstance(t, ast.Attribute) and isinstance(t.value, ast.Name) and t.value.id == "self":
                return sp + self.setattr_(t.attr, self.expr(fake, scope)), scope, []
            raise Unsupported("augmented assignment to %s" % ast.dump(t))
        if isinstance(s, ast.Expr):
            v = s.value
            if isinstance(v, ast.Yield):
                if not self.generator or v.value is None:
                    raise Unsupported("yield")
                return sp + "let _out := _out ++ [%s] in\n" % self.expr(v.value, scope), scope, []
            if isinstance(v, ast.Call) and isinstance(v.func, ast.Attribute) and isinstance(v.func.value, ast.Name) and \
                    v.func.value.id == "self" and v.func.attr in self.cfg.get("self_methods", {}) and not v.keywords:
                # a call of another (already translated) procedure of the same object: self := m self args
                m = self.cfg["self_methods"][v.func.attr]
                if callable(m):            # custom rendering of the call (must fail closed itself)
                    return sp + "let self := %s in\n" % m(self, v, scope), scope, []
                return sp + "let self := %s self %s in\n" % (m, " ".join(self.expr(a, scope) for a in v.args)), scope, []
            if isinstance(v, ast.Call) and isinstance(v.func, ast.Attribute) and isinstance(v.func.value, ast.Name):
                x = v.func.value.id
                if x not in scope:
                    raise Unsupported("method call on unbound %s" % x)
                if v.func.attr == "append" and len(v.args) == 1:
                    return sp + "let %s := %s ++ [%s] in\n" % (cname(x), cname(x), self.expr(v.args[0], scope)), scope, []
                if v.func.attr == "pop" and not v.args:
                    return sp + "let %s := removelast %s in\n" % (cname(x), cname(x)), scope, []
            raise Unsupported("expression statement %s" % ast.dump(v))
        if isinstance(s, ast.Return):
            if not self.flagmode:
                raise Unsupported("return in non-tail position without flag mode")
            t = ""
            if not self.generator:
                if s.value is None:
                    raise Unsupported("bare return in a function")
                t = sp + "let _rv := %s in\n" % self.expr(s.value, scope)
            elif s.value is not None:
                raise Unsupported("return with a value in a generator")
            return t + sp + "let _ret := true in\n", scope, ["_ret"]
        if isinstance(s, ast.Break):
            if not brk:
                raise Unsupported("break outside a loop")
            return sp + "let %s := true in\n" % brk, scope, [brk]
        if isinstance(s, ast.If):
            A = [n for n in self.assigned(s.body + s.orelse, brk) if n in scope]
            if not A:
                # nothing observable is assigned: only allowed when both branches are effect free
                for b in (s.body, s.orelse):
                    for x in b:
                        if not isinstance(x, ast.Pass):
                            raise Unsupported("if-statement whose branches bind only fresh names")
                return "", scope, []
            c = self.cond(s.test, scope)
            t = sp + "let %s :=\n" % pat(A)
            t += sp + "  if %s\n" % c
            t += sp + "  then (\n%s)\n" % self.block(s.body, A, scope, brk, ind + "    ")
            t += sp + "  else (\n%s) in\n" % self.block(s.orelse, A, scope, brk, ind + "    ")
            return t, scope, self.exits([s], brk)
        if isinstance(s, ast.For):
            self.nbrk += 1
            mybrk = "_brk%d" % self.nbrk
            has_break = mybrk in self.assigned(s.body, mybrk)
            tnames = [s.target.id] if isinstance(s.target, ast.Name) else \
                [x.id for x in s.target.elts] if isinstance(s.target, ast.Tuple) and all(isinstance(x, ast.Name) for x in s.target.elts) else None
            if tnames is None:
                raise Unsupported("loop target")
            lst = self.iter_list(s.iter, scope)
            t = ""
            scope_in = set(scope)
            if has_break:
                t += sp + "let %s := false in\n" % mybrk
                scope_in.add(mybrk)
            carried_t = [n for n in tnames if n in scope]          # targets read after the loop (pre-bound)
            A = [n for n in self.assigned(s.body, mybrk) if n in scope_in]
            for n in carried_t:
                if n not in A:
                    A.append(n)
            if not A:
                raise Unsupported("loop without effect")
            guards = [f for f in self.exits(s.body, mybrk)]
            xs = ["_x%d_%d" % (self.nbrk, i) for i in range(len(tnames))]
            t += sp + "let %s :=\n" % pat(A)
            t += sp + "  fold_left (fun %s %s =>\n" % (pat(A), xs[0] if len(xs) == 1 else "'(" + ", ".join(xs) + ")")
            inner = ind + "      "
            body_scope = scope_in | set(tnames)
            bind = "".join(inner + "let %s := %s in\n" % (cname(n), x) for n, x in zip(tnames, xs))
            body = bind + self.block(s.body, A, body_scope, mybrk, inner)
            if guards:
                t += ind + "    if %s then %s else (\n%s)" % (" || ".join(guards), tup(A), body)
            else:
                t += body.rstrip("\n")
            t += ")\n" + sp + "    %s %s in\n" % (lst, tup(A))
            if s.orelse:
                if not has_break:
                    raise Unsupported("for-else without break")
                E = [n for n in self.assigned(s.orelse, brk) if n in scope_in]
                if E:
                    t += sp + "let %s := if %s then %s else (\n%s) in\n" % (
                        pat(E), mybrk, tup(E), self.block(s.orelse, E, scope_in, brk, ind + "    "))
            return t, scope_in, [f for f in self.exits([s], brk)]
        raise Unsupported("statement %s" % type(s).__name__)

    def block(self, stmts, A, scope, brk, ind):
        if not stmts:
            return ind + tup(A) + "\n"
        s, rest = stmts[0], stmts[1:]
        pre, scope2, flags = self.stmt(s, scope, brk, ind)
        if isinstance(s, (ast.Return, ast.Break)):
            return pre + ind + tup(A) + "\n"          # nothing after it runs
        body = self.block(rest, A, scope2, brk, ind)
        if flags and rest:
            body = ind + "if %s then %s else (\n%s%s)\n" % (" || ".join(flags), tup(A), body.rstrip("\n"), "")
        return pre + body

    # ------------------------------------------------------------------ function
    def function(self, node):
        cfg = self.cfg
        body = list(node.body)
        if body and isinstance(body[0], ast.Expr) and isinstance(body[0].value, ast.Constant):
            body = body[1:]
        if cfg.get("body_slice"):
            lo, hi = cfg["body_slice"]
            if hi is not None and hi < 0:
                hi = len(body) + hi
            if len(body) < (hi if hi is not None else lo):
                raise Unsupported("function body shorter than expected")
            body = body[lo:hi]
        params = [a.arg for a in node.args.args] + ([node.args.kwarg.arg] if node.args.kwarg and cfg.get("kwarg") else [])
        want = [p for p, _ in cfg["params"]]
        missing = [p for p in params if p not in want and p not in cfg.get("ignore_params", [])]
        if missing or [p for p in want if p not in params]:
            raise Unsupported("parameters changed: source %s, expected %s" % (params, want))
        if node.args.vararg or node.args.kwonlyargs or (node.args.kwarg and node.args.kwarg.arg != cfg.get("kwarg")):
            raise Unsupported("star parameters")
        defaults = {a.arg: d for a, d in zip(node.args.args[len(node.args.args) - len(node.args.defaults):], node.args.defaults)}
        for p, d in cfg.get("defaults", {}).items():
            got = defaults.get(p)
            if got is None or ast.dump(got) != ast.dump(ast.parse(d, mode="eval").body):
                raise Unsupported("default of %s changed" % p)
        self.generator = any(isinstance(n, (ast.Yield, ast.YieldFrom)) for n in ast.walk(node))
        rets = [n for n in ast.walk(node) if isinstance(n, ast.Return)]
        tail_only = (not self.generator and len(rets) == 1 and body and body[-1] is rets[0])
        scope = set(want)
        text = "Definition %s %s : %s :=\n" % (cfg["name"], " ".join("(%s : %s)" % (cname(p), t) for p, t in cfg["params"]), cfg["ret"])
        tail = ""
        if cfg.get("recursive_fuel"):
            # a procedure that calls itself: structural recursion on an explicit fuel argument; running out of
            # fuel returns self unchanged (the theorem about it states how much fuel suffices)
            text = "Fixpoint %s (fuel : nat) %s : %s :=\n  match fuel with\n  | O => self\n  | S fuel =>\n" % (
                cfg["name"], " ".join("(%s : %s)" % (cname(p), t) for p, t in cfg["params"]), cfg["ret"])
            tail = "  end.\n"
        for n, v in cfg.get("prebind", {}).items():
            text += "  let %s := %s in\n" % (cname(n), v)
            scope.add(n)
        if cfg.get("procedure"):
            # a method called for its effect on self: no value is returned
            if body and isinstance(body[-1], ast.Return) and body[-1].value is None:
                body = body[:-1]
            if any(isinstance(n, ast.Return) for s_ in body for n in ast.walk(s_)) or self.generator:
                raise Unsupported("return/yield inside a procedure")
            self.flagmode = False
            pre = ""
            for s in body:
                p, scope, _ = self.stmt(s, scope, None, "  ")
                pre += p
            return text + pre + ("  self\n" + tail if tail else "  self.\n")
        if tail_only:
            self.flagmode = False
            pre = ""
            for s in body[:-1]:
                p, scope, _ = self.stmt(s, scope, None, "  ")
                pre += p
            text += pre + "  " + self.expr(rets[0].value, scope) + ".\n"
            return text
        self.flagmode = True
        A = ["_ret"]
        text += "  let _ret := false in\n"
        scope.add("_ret")
        if self.generator:
            text += "  let _out := [] in\n"
            scope.add("_out")
            A.append("_out")
        else:
            text += "  let _rv := %s in\n" % cfg["rv_default"]
            scope.add("_rv")
            A.append("_rv")
        if "self" in want and "self" in self.assigned(body):
            A.append("self")
        text += "  let %s :=\n%s  in\n" % (pat(A), self.block(body, A, scope, None, "    "))
        text += "  %s.\n" % cfg.get("result", "_out" if self.generator else "_rv")
        return text


def translate(path, qualname, cfg):
    node = get_function(path, qualname)
    return Translator(cfg).function(node)
