"""(T) tie for C09, third part: windowed_iter as a program of Model/C09_PyWindow.v (deep
embedding, fail closed), plus a literal check of the thin wrappers whose meaning the model
takes for granted (windowed = list(windowed_iter), pairwise(_iter) = windowed(_iter)(src, 2,
fill=end), chunked = list / islice of chunked_iter, split/strip/unique = list(<x>_iter),
strip_iter = rstrip_iter(lstrip_iter(..)), partition = the two .get()s on bucketize)."""
import ast
import os


class TranslationError(Exception):
    pass


def _fail(node, why):
    raise TranslationError("%s at line %s: %s" % (why, getattr(node, "lineno", "?"), ast.dump(node)[:240]))


def _find(tree, name):
    for n in tree.body:
        if isinstance(n, ast.FunctionDef) and n.name == name:
            return n
    raise TranslationError("function %s not found" % name)


def _body(fn):
    b = list(fn.body)
    if b and isinstance(b[0], ast.Expr) and isinstance(b[0].value, ast.Constant) and isinstance(b[0].value.value, str):
        b = b[1:]
    return b


class _W:
    def __init__(self):
        self.ivar = self.tvar = None

    def block(self, stmts, in_enum, in_range):
        return "[" + "; ".join(self.stmt(s, in_enum, in_range) for s in stmts) + "]"

    def stmt(self, s, in_enum, in_range):
        if isinstance(s, ast.If) and not s.orelse and isinstance(s.test, ast.Compare) and len(s.test.ops) == 1 \
                and isinstance(s.test.ops[0], ast.Is) and isinstance(s.test.left, ast.Name) and s.test.left.id == "fill" \
                and isinstance(s.test.comparators[0], ast.Name) and s.test.comparators[0].id == "_UNSET":
            if in_enum:
                _fail(s, "`if fill is _UNSET` inside a loop")
            return "WIfFillUnset %s" % self.block(s.body, in_enum, in_range)
        if isinstance(s, ast.Try) and not s.orelse and not s.finalbody and len(s.handlers) == 1:
            h = s.handlers[0]
            if not (isinstance(h.type, ast.Name) and h.type.id == "StopIteration" and h.name is None):
                _fail(s, "only `except StopIteration:` is supported")
            return "WTry %s %s" % (self.block(s.body, in_enum, in_range), self.block(h.body, in_enum, in_range))
        if isinstance(s, ast.For) and not s.orelse and isinstance(s.target, ast.Tuple) and len(s.target.elts) == 2 \
                and all(isinstance(e, ast.Name) for e in s.target.elts) \
                and ast.dump(s.iter) == "Call(func=Name(id='enumerate', ctx=Load()), args=[Name(id='tees', ctx=Load())], keywords=[])":
            if in_enum:
                _fail(s, "nested enumerate loops")
            self.ivar, self.tvar = s.target.elts[0].id, s.target.elts[1].id
            if len({self.ivar, self.tvar, "tees", "fill", "src", "size"}) != 6:
                _fail(s, "loop variables shadow something")
            t = "WForEnum %s" % self.block(s.body, True, False)
            self.ivar = self.tvar = None
            return t
        if isinstance(s, ast.For) and not s.orelse and isinstance(s.target, ast.Name) and in_enum and not in_range \
                and isinstance(s.iter, ast.Call) and isinstance(s.iter.func, ast.Name) and s.iter.func.id == "range" \
                and len(s.iter.args) == 1 and not s.iter.keywords and isinstance(s.iter.args[0], ast.Name) \
                and s.iter.args[0].id == self.ivar and s.target.id not in (self.ivar, self.tvar, "tees", "fill"):
            return "WForRangeI %s" % self.block(s.body, True, True)
        if isinstance(s, ast.Expr) and in_enum and isinstance(s.value, ast.Call) and isinstance(s.value.func, ast.Name) \
                and s.value.func.id == "next" and len(s.value.args) == 1 and not s.value.keywords \
                and isinstance(s.value.args[0], ast.Name) and s.value.args[0].id == self.tvar:
            return "WNext"
        if isinstance(s, ast.Continue) and in_range:
            return "WContinue"
        if isinstance(s, ast.Return) and s.value is not None:
            d = ast.dump(s.value)
            if d == ast.dump(ast.parse("zip([])", mode="eval").body):
                return "WReturnZipEmpty"
            if d == ast.dump(ast.parse("zip(*tees)", mode="eval").body) and not in_enum:
                return "WReturnZip"
            if d == ast.dump(ast.parse("zip_longest(*tees, fillvalue=fill)", mode="eval").body) and not in_enum:
                return "WReturnZipLongest"
        _fail(s, "unsupported statement")


WRAPPERS = {
    "windowed": ("src, size, fill=_UNSET", "return list(windowed_iter(src, size, fill=fill))"),
    "pairwise": ("src, end=_UNSET", "return windowed(src, 2, fill=end)"),
    "pairwise_iter": ("src, end=_UNSET", "return windowed_iter(src, 2, fill=end)"),
    "chunked": ("src, size, count=None, **kw",
                "chunk_iter = chunked_iter(src, size, **kw)\nif count is None:\n    return list(chunk_iter)\nelse:\n"
                "    return list(itertools.islice(chunk_iter, count))"),
    "split": ("src, sep=None, maxsplit=None", "return list(split_iter(src, sep, maxsplit))"),
    "lstrip": ("iterable, strip_value=None", "return list(lstrip_iter(iterable, strip_value))"),
    "rstrip": ("iterable, strip_value=None", "return list(rstrip_iter(iterable, strip_value))"),
    "strip": ("iterable, strip_value=None", "return list(strip_iter(iterable, strip_value))"),
    "strip_iter": ("iterable, strip_value=None", "return rstrip_iter(lstrip_iter(iterable, strip_value), strip_value)"),
    "unique": ("src, key=None", "return list(unique_iter(src, key))"),
    "partition": ("src, key=bool", "bucketized = bucketize(src, key)\nreturn bucketized.get(True, []), bucketized.get(False, [])"),
}


def _alpha(stmts, params):
    """ast dumps of stmts with the locally assigned names renamed canonically (v0, v1, ...) in order of
    first assignment - alpha-equivalence of locals; parameters and globals are left alone"""
    import copy
    stmts = copy.deepcopy(stmts)
    names = {}
    for s in stmts:
        for n in ast.walk(s):
            if isinstance(n, ast.Name) and isinstance(n.ctx, ast.Store) and n.id not in params and n.id not in names:
                names[n.id] = "v%d" % len(names)
    for s in stmts:
        for n in ast.walk(s):
            if isinstance(n, ast.Name) and n.id in names:
                n.id = names[n.id]
    return [ast.dump(s) for s in stmts]


def check_wrappers(tree):
    for name, (sig, body) in WRAPPERS.items():
        fn = _find(tree, name)
        want = ast.parse("def %s(%s):\n%s" % (name, sig, "\n".join("    " + l for l in body.splitlines()))).body[0]
        if ast.dump(fn.args) != ast.dump(want.args) or fn.decorator_list:
            _fail(fn, "signature of %s changed" % name)
        params = {a.arg for a in fn.args.args} | ({fn.args.kwarg.arg} if fn.args.kwarg else set())
        if _alpha(_body(fn), params) != _alpha(want.body, params):
            _fail(fn, "%s is no longer the expected thin wrapper" % name)
    return sorted(WRAPPERS)


def translate(repo):
    path = os.path.join(repo, "boltons", "iterutils.py")
    tree = ast.parse(open(path).read())
    fn = _find(tree, "windowed_iter")
    want_args = ast.parse("def f(src, size, fill=_UNSET): pass").body[0].args
    if ast.dump(fn.args) != ast.dump(want_args) or fn.decorator_list:
        _fail(fn, "unexpected signature of windowed_iter")
    body = _body(fn)
    if not body or ast.dump(body[0]) != ast.dump(ast.parse("tees = itertools.tee(src, size)").body[0]):
        _fail(fn, "expected `tees = itertools.tee(src, size)` first")
    prog = _W().block(body[1:], False, False)
    wrappers = check_wrappers(tree)
    return ("(* generated by harness/translators/c09_window.py from %s -- do not edit *)\n"
            "From Boltons Require Import Lib.Prelude Model.C09_PyWindow.\n"
            "(* thin wrappers found literally as expected: %s *)\n"
            "Definition gen_windowed_prog : list wstmt :=\n  %s.\n" % (path, ", ".join(wrappers), prog))


def selftest(repo):
    import tempfile
    src = open(os.path.join(repo, "boltons", "iterutils.py")).read()
    base = translate(repo)
    perturbations = [
        ("            except StopIteration:\n                continue", "            except StopIteration:\n                break"),
        ("        except StopIteration:\n            return zip([])\n        return zip(*tees)", "        except StopIteration:\n            pass\n        return zip(*tees)"),
        ("    return zip_longest(*tees, fillvalue=fill)", "    return zip(*tees)"),
        ("    return windowed_iter(src, 2, fill=end)", "    return windowed_iter(src, 3, fill=end)"),
        ("    return bucketized.get(True, []), bucketized.get(False, [])", "    return bucketized.get(False, []), bucketized.get(True, [])"),
        ("        return list(itertools.islice(chunk_iter, count))", "        return list(itertools.islice(chunk_iter, count + 1))"),
    ]
    seen = skipped = 0
    for old, new in perturbations:
        if src.count(old) != 1:
            skipped += 1        # this spot of the source has been rewritten: perturbation not applicable
            continue
        with tempfile.TemporaryDirectory() as d:
            os.makedirs(os.path.join(d, "boltons"))
            open(os.path.join(d, "boltons", "iterutils.py"), "w").write(src.replace(old, new))
            try:
                out = translate(d)
            except TranslationError:
                seen += 1
                continue
            if out.split("\n", 1)[1] != base.split("\n", 1)[1]:
                seen += 1
    return seen, len(perturbations) - skipped


if __name__ == "__main__":
    import sys
    repo = sys.argv[1] if len(sys.argv) > 1 else "/repo"
    print(translate(repo))
    print("(* selftest: %d of %d perturbations visible *)" % selftest(repo))
