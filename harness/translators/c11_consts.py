"""C11 translator: read the two compaction constants of IndexedSet._cull from the
source (ast only; fail closed on any shape it does not recognise)."""
import ast
import os


def extract(repo):
    path = os.path.join(repo, "boltons", "setutils.py")
    tree = ast.parse(open(path).read())
    factor = None
    for node in tree.body:
        if isinstance(node, ast.Assign) and len(node.targets) == 1 and isinstance(node.targets[0], ast.Name) \
                and node.targets[0].id == "_COMPACTION_FACTOR":
            if factor is not None:
                raise ValueError("_COMPACTION_FACTOR assigned twice")
            if not (isinstance(node.value, ast.Constant) and type(node.value.value) is int and node.value.value >= 1):
                raise ValueError("_COMPACTION_FACTOR is not a positive int literal")
            factor = node.value.value
    if factor is None:
        raise ValueError("_COMPACTION_FACTOR not found")
    cls = [n for n in tree.body if isinstance(n, ast.ClassDef) and n.name == "IndexedSet"]
    if len(cls) != 1:
        raise ValueError("class IndexedSet not found")
    cull = [n for n in cls[0].body if isinstance(n, ast.FunctionDef) and n.name == "_cull"]
    if len(cull) != 1:
        raise ValueError("IndexedSet._cull not found")
    limits, factor_uses = [], 0
    for node in ast.walk(cull[0]):
        if isinstance(node, ast.Compare) and len(node.ops) == 1 and isinstance(node.ops[0], ast.Gt):
            l, r = node.left, node.comparators[0]
            if isinstance(l, ast.Call) and isinstance(l.func, ast.Name) and l.func.id == "len" \
                    and isinstance(r, ast.Constant):
                if type(r.value) is not int or r.value < 0:
                    raise ValueError("interval limit is not a non-negative int literal")
                limits.append(r.value)
            elif isinstance(r, ast.BinOp) and isinstance(r.op, ast.Div) and isinstance(r.right, ast.Name) \
                    and r.right.id == "_COMPACTION_FACTOR" and isinstance(r.left, ast.Call) \
                    and isinstance(r.left.func, ast.Name) and r.left.func.id == "len":
                factor_uses += 1
            else:
                raise ValueError("unrecognised '>' comparison in _cull: " + ast.dump(node)[:200])
        elif isinstance(node, ast.Compare) and not all(isinstance(o, (ast.Is, ast.IsNot, ast.Eq, ast.GtE)) for o in node.ops):
            raise ValueError("unrecognised comparison in _cull: " + ast.dump(node)[:200])
    if len(limits) != 1 or factor_uses != 1:
        raise ValueError("expected one 'len(ded) > N' and one '> len(items) / _COMPACTION_FACTOR' in _cull, got %r / %d"
                         % (limits, factor_uses))
    return factor, limits[0]


def render(repo):
    factor, limit = extract(repo)
    if factor >= 5000 or limit >= 5000:
        raise ValueError("constants too large for nat literals")
    return ("(* generated from %s by harness/translators/c11_consts.py; do not edit *)\n"
            "From Boltons Require Import Lib.Prelude Lib.C11_Iface.\n"
            "Definition gen_cfg : cfg := mkCfg %d %d.   (* _COMPACTION_FACTOR, len(dead_indices) limit in _cull *)\n"
            % ("boltons/setutils.py", factor, limit))
