"""(T) tie for C14: strutils.format_int_list regenerated as Gallina from /repo's current source
(py2coq subset + the few string/deque idioms of this function as fail-closed shapes).
Proofs/C14_SrcEq.v proves the generated definition equal to Model.C14_Model.format_int_list."""
import ast
import os
import py2coq

U = py2coq.Unsupported


def _is_name(e, n=None):
    return isinstance(e, ast.Name) and (n is None or e.id == n)


def _method_call(e, attr, nargs):
    return (isinstance(e, ast.Call) and isinstance(e.func, ast.Attribute) and e.func.attr == attr
            and len(e.args) == nargs and not e.keywords)


def shape_deque_new(T, s, probe, scope=None):
    """x = collections.deque()   (x pre-bound)"""
    if not (isinstance(s, ast.Assign) and len(s.targets) == 1 and _is_name(s.targets[0]) and
            _method_call(s.value, "deque", 0) and _is_name(s.value.func.value, "collections")):
        return None
    n = s.targets[0].id
    if T.cfg["kinds"].get(n) != "listZ":
        raise U("deque bound to %s" % n)
    if probe:
        return [n]
    if n not in scope:
        raise U("%s must be pre-bound" % n)
    return "let %s := [] in\n" % n


def shape_clear(T, s, probe, scope=None):
    """x.clear()"""
    if not (isinstance(s, ast.Expr) and _method_call(s.value, "clear", 0) and _is_name(s.value.func.value)):
        return None
    n = s.value.func.value.id
    if T.cfg["kinds"].get(n) != "listZ":
        raise U("clear() on %s" % n)
    if probe:
        return [n]
    return "let %s := [] in\n" % n


def shape_append_popleft(T, s, probe, scope=None):
    """out.append(f'{dq.popleft():d}')"""
    if not (isinstance(s, ast.Expr) and _method_call(s.value, "append", 1) and _is_name(s.value.func.value)
            and isinstance(s.value.args[0], ast.JoinedStr)):
        return None
    js = s.value.args[0]
    try:
        assert len(js.values) == 1
        fv = js.values[0]
        assert isinstance(fv, ast.FormattedValue) and fv.conversion == -1
        assert isinstance(fv.format_spec, ast.JoinedStr) and len(fv.format_spec.values) == 1
        assert isinstance(fv.format_spec.values[0], ast.Constant) and fv.format_spec.values[0].value == "d"
        assert _method_call(fv.value, "popleft", 0) and _is_name(fv.value.func.value)
    except AssertionError:
        raise U("f-string of an unknown shape")
    out, dq = s.value.func.value.id, fv.value.func.value.id
    if T.cfg["kinds"].get(dq) != "listZ" or T.cfg["kinds"].get(out) != "list":
        raise U("kinds of %s / %s" % (out, dq))
    if probe:
        return [out, dq]
    return ("let %s := %s ++ [decZ (src_hd %s)] in\n    let %s := tl %s in\n" % (out, out, dq, dq, dq))


def shape_format3(T, s, probe, scope=None):
    """v = '{:d}{}{:d}'.format(a, sep, b)   (v pre-bound)"""
    if not (isinstance(s, ast.Assign) and len(s.targets) == 1 and _is_name(s.targets[0]) and
            isinstance(s.value, ast.Call) and isinstance(s.value.func, ast.Attribute) and s.value.func.attr == "format"):
        return None
    c = s.value.func.value
    if not (isinstance(c, ast.Constant) and c.value == "{:d}{}{:d}" and len(s.value.args) == 3 and not s.value.keywords):
        raise U("format call of an unknown shape")
    n = s.targets[0].id
    a, m, b = s.value.args
    if T.kind(a) != "int" or T.kind(b) != "int" or T.kind(m) != "str" or T.cfg["kinds"].get(n) != "str":
        raise U("kinds of the format arguments")
    if probe:
        return [n]
    if n not in scope:
        raise U("%s must be pre-bound" % n)
    return "let %s := decZ %s ++ %s ++ decZ %s in\n" % (n, T.expr(a, scope), T.expr(m, scope), T.expr(b, scope))


def shape_join(T, s, probe, scope=None):
    """v = sep_expr.join(xs)   (v pre-bound)"""
    if not (isinstance(s, ast.Assign) and len(s.targets) == 1 and _is_name(s.targets[0]) and
            _method_call(s.value, "join", 1)):
        return None
    n = s.targets[0].id
    sep, xs = s.value.func.value, s.value.args[0]
    if T.kind(sep) != "str" or not _is_name(xs) or T.cfg["kinds"].get(xs.id) != "list" or T.cfg["kinds"].get(n) != "str":
        raise U("join of an unknown shape")
    if probe:
        return [n]
    if n not in scope:
        raise U("%s must be pre-bound" % n)
    return "let %s := join %s %s in\n" % (n, T.expr(sep, scope), T.expr(xs, scope))


def shape_continue(T, s, probe, scope=None):
    """continue - only ever reached here in tail position of the loop body (checked by normalise())"""
    if not isinstance(s, ast.Continue):
        return None
    if probe:
        return []
    return ""


def _tail_continue_only(stmts):
    """every `continue` is the last thing the loop body does on its path"""
    for s in stmts[:-1]:
        if any(isinstance(n, ast.Continue) for n in ast.walk(s)):
            return False
    if not stmts:
        return True
    last = stmts[-1]
    if isinstance(last, ast.Continue):
        return True
    if isinstance(last, ast.If):
        return _tail_continue_only(last.body) and _tail_continue_only(last.orelse)
    return not any(isinstance(n, ast.Continue) for n in ast.walk(last))


def normalise(node):
    """for ... else without any break  ==  the loop followed by the else suite; `continue` only in tail position."""
    loops = [s for s in node.body if isinstance(s, ast.For)]
    if len(loops) != 1 or any(isinstance(n, (ast.For, ast.While)) for s in loops[0].body for n in ast.walk(s)):
        raise U("expected exactly one, un-nested, for loop")
    loop = loops[0]
    if any(isinstance(n, ast.Break) for n in ast.walk(loop)):
        raise U("break inside the loop")
    if any(isinstance(n, (ast.Return, ast.Yield, ast.Try, ast.With, ast.Raise)) for n in ast.walk(loop)):
        raise U("return/yield/try/with/raise inside the loop")
    if not _tail_continue_only(loop.body):
        raise U("continue in non-tail position")
    i = node.body.index(loop)
    node.body[i + 1:i + 1] = loop.orelse
    loop.orelse = []
    return node


CFG = {
    "name": "src_format_int_list",
    "params": [("int_list", "list Z"), ("delim", "text"), ("range_delim", "text"), ("delim_space", "bool")],
    "defaults": {"delim": "','", "range_delim": "'-'", "delim_space": "False"},
    "ret": "text", "num": "Z",
    "kinds": {"int_list": "listZ", "delim": "str", "range_delim": "str", "delim_space": "bool",
              "contig_range": "listZ", "output": "list", "x": "int", "delta": "int",
              "range_substr": "str", "output_str": "str"},
    "calls": {"len": ("src_len", "int"), "sorted": ("sortZ", "listZ"), "min": ("list_minZ", "int"),
              "max": ("list_maxZ", "int")},
    "subscripts": {("listZ", "[0]"): ("src_hd", "int"), ("listZ", "[i]"): ("src_idx", "int")},
    "consts": {"' '": "[c_sp]"},
    "prebind": {"contig_range": "([] : list Z)", "range_substr": "([] : text)", "output_str": "([] : text)"},
    "shapes": [shape_deque_new, shape_clear, shape_append_popleft, shape_format3, shape_join, shape_continue],
}

HEADER = """(* GENERATED on every run by harness/translators/c14_src.py from %s (format_int_list);
   do not edit.  The deque is a list; x[0] / x[-1] / popleft are only reached when the deque is
   non-empty (guarded by the len tests of the source), their value on the empty list is irrelevant. *)
From Boltons Require Import Lib.Prelude Lib.C14_Text.
Open Scope Z_scope.
Definition src_len (l : list Z) : Z := Z.of_nat (length l).
Definition src_hd (l : list Z) : Z := hd 0 l.
Definition src_idx (l : list Z) (i : Z) : Z :=
  if i <? 0 then nth (length l - Z.to_nat (- i)) l 0 else nth (Z.to_nat i) l 0.
"""


def generate(repo):
    path = os.path.join(repo, "boltons", "strutils.py")
    node = normalise(py2coq.get_function(path, "format_int_list"))
    return {"C14_Src": HEADER % path + py2coq.Translator(dict(CFG)).function(node)}


if __name__ == "__main__":
    import sys
    print(generate(sys.argv[1] if len(sys.argv) > 1 else "/repo")["C14_Src"])
