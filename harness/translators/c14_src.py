"""(T) tie for C14: strutils.format_int_list regenerated as Gallina from /repo's current source
(py2coq subset + the few string/deque idioms of this function as fail-closed shapes).
Proofs/C14_SrcEq.v proves the generated definition equal to Model.C14_Model.format_int_list."""
import ast
import os
import py2coq

U = py2coq.Unsupported


def _is_name(e, n=None):
    return isinstance(e, ast.Name) and (n is None or e.id == n)


def _method_call(e, attr, nargs):
    return (isinstance(e, ast.Call) and isinstance(e.func, ast.Attribute) and e.func.attr == attr
            and len(e.args) == nargs and not e.keywords)


def shape_deque_new(T, s, probe, scope=None):
    """x = collections.deque()   (x pre-bound)"""
    if not (isinstance(s, ast.Assign) and len(s.targets) == 1 and _is_name(s.targets[0]) and
            _method_call(s.value, "deque", 0) and _is_name(s.value.func.value, "collections")):
        return None
    n = s.targets[0].id
    if T.cfg["kinds"].get(n) != "listZ":
        raise U("deque bound to %s" % n)
    if probe:
        return [n]
    if n not in scope:
        raise U("%s must be pre-bound" % n)
    return "let %s := [] in\n" % n


def shape_clear(T, s, probe, scope=None):
    """x.clear()"""
    if not (isinstance(s, ast.Expr) and _method_call(s.value, "clear", 0) and _is_name(s.value.func.value)):
        return None
    n = s.value.func.value.id
    if T.cfg["kinds"].get(n) != "listZ":
        raise U("clear() on %s" % n)
    if probe:
        return [n]
    return "let %s := [] in\n" % n


def shape_append_popleft(T, s, probe, scope=None):
    """out.append(f'{dq.popleft():d}')"""
    if not (isinstance(s, ast.Expr) and _method_call(s.value, "append", 1) and _is_name(s.value.func.value)
            and isinstance(s.value.args[0], ast.JoinedStr)):
        return None
    js = s.value.args[0]
    try:
        assert len(js.values) == 1
        fv = js.values[0]
        assert isinstance(fv, ast.FormattedValue) and fv.conversion == -1
        assert isinstance(fv.format_spec, ast.JoinedStr) and len(fv.format_spec.values) == 1
        assert isinstance(fv.format_spec.values[0], ast.Constant) and fv.format_spec.values[0].value == "d"
        assert _method_call(fv.value, "popleft", 0) and _is_name(fv.value.func.value)
    except AssertionError:
        raise U("f-string of an unknown shape")
    out, dq = s.value.func.value.id, fv.value.func.value.id
    if T.cfg["kinds"].get(dq) != "listZ" or T.cfg["kinds"].get(out) != "list":
        raise U("kinds of %s / %s" % (out, dq))
    if probe:
        return [out, dq]
    return ("let %s := %s ++ [decZ (src_hd %s)] in\n    let %s := tl %s in\n" % (out, out, dq, dq, dq))


def shape_format3(T, s, probe, scope=None):
    """v = '{:d}{}{:d}'.format(a, sep, b)   (v pre-bound)"""
    if not (isinstance(s, ast.Assign) and len(s.targets) == 1 and _is_name(s.targets[0]) and
            isinstance(s.value, ast.Call) and isinstance(s.value.func, ast.Attribute) and s.value.func.attr == "format"):
        return None
    c = s.value.func.value
    if not (isinstance(c, ast.Constant) and c.value == "{:d}{}{:d}" and len(s.value.args) == 3 and not s.value.keywords):
        raise U("format call of an unknown shape")
    n = s.targets[0].id
    a, m, b = s.value.args
    if T.kind(a) != "int" or T.kind(b) != "int" or T.kind(m) != "str" or T.cfg["kinds"].get(n) != "str":
        raise U("kinds of the format arguments")
    if probe:
        return [n]
    if n not in scope:
        raise U("%s must be pre-bound" % n)
    return "let %s := decZ %s ++ %s ++ decZ %s in\n" % (n, T.expr(a, scope), T.expr(m, scope), T.expr(b, scope))


def shape_join(T, s, probe, scope=None):
    """v = sep_expr.join(xs)   (v pre-bound)"""
    if not (isinstance(s, ast.Assign) and len(s.targets) == 1 and _is_name(s.targets[0]) and
            _method_call(s.value, "join", 1)):
        return None
    n = s.targets[0].id
    sep, xs = s.value.func.value, s.value.args[0]
    if T.kind(sep) != "str" or not _is_name(xs) or T.cfg["kinds"].get(xs.id) != "list" or T.cfg["kinds"].get(n) != "str":
        raise U("join of an unknown shape")
    if probe:
        return [n]
    if n not in scope:
        raise U("%s must be pre-bound" % n)
    return "let %s := join %s %s in\n" % (n, T.expr(sep, scope), T.expr(xs, scope))


def shape_continue(T, s, probe, scope=None):
    """continue - only ever reached here in tail position of the loop body (checked by normalise())"""
    if not isinstance(s, ast.Continue):
        return None
    if probe:
        return []
    return ""


def _tail_continue_only(stmts):
    """every `continue` is the last thing the loop body does on its path"""
    for s in stmts[:-1]:
        if any(isinstance(n, ast.Continue) for n in ast.walk(s)):
            return False
    if not stmts:
        return True
    last = stmts[-1]
    if isinstance(last, ast.Continue):
        return True
    if isinstance(last, ast.If):
        return _tail_continue_only(last.body) and _tail_continue_only(last.orelse)
    return not any(isinstance(n, ast.Continue) for n in ast.walk(last))


def normalise(node):
    """for ... else without any break  ==  the loop followed by the else suite; `continue` only in tail position."""
    loops = [s for s in node.body if isinstance(s, ast.For)]
    if len(loops) != 1 or any(isinstance(n, (ast.For, ast.While)) for s in loops[0].body for n in ast.walk(s)):
        raise U("expected exactly one, un-nested, for loop")
    loop = loops[0]
    if any(isinstance(n, ast.Break) for n in ast.walk(loop)):
        raise U("break inside the loop")
    if any(isinstance(n, (ast.Return, ast.Yield, ast.Try, ast.With, ast.Raise)) for n in ast.walk(loop)):
        raise U("return/yield/try/with/raise inside the loop")
    if not _tail_continue_only(loop.body):
        raise U("continue in non-tail position")
    i = node.body.index(loop)
    node.body[i + 1:i + 1] = loop.orelse
    loop.orelse = []
    return node


# ---------------------------------------------------------------------------------- args2cmd
def shape_needquote(T, s, probe, scope=None):
    """needquote = (" " in arg) or ("\t" in arg) or not arg"""
    if not (isinstance(s, ast.Assign) and len(s.targets) == 1 and _is_name(s.targets[0], "needquote")
            and isinstance(s.value, ast.BoolOp)):
        return None
    v = s.value
    try:
        assert isinstance(v.op, ast.Or) and len(v.values) == 3
        chars = []
        for c in v.values[:2]:
            assert isinstance(c, ast.Compare) and len(c.ops) == 1 and isinstance(c.ops[0], ast.In)
            assert isinstance(c.left, ast.Constant) and isinstance(c.left.value, str) and len(c.left.value) == 1
            assert _is_name(c.comparators[0], "arg")
            chars.append(ord(c.left.value))
        n = v.values[2]
        assert isinstance(n, ast.UnaryOp) and isinstance(n.op, ast.Not) and _is_name(n.operand, "arg")
    except AssertionError:
        raise U("needquote of an unknown shape")
    if probe:
        return ["needquote"]
    return "let needquote := memN %d%%N arg || memN %d%%N arg || is_nil arg in\n" % (chars[0], chars[1])


def _piece(T, e, scope):
    """text of one element appended to result"""
    if isinstance(e, ast.Constant) and isinstance(e.value, str):
        return "[" + "; ".join("%d%%N" % ord(ch) for ch in e.value) + "]"
    if _is_name(e) and T.cfg["kinds"].get(e.id) == "char":
        if e.id not in scope:
            raise U("name %s read before it is bound" % e.id)
        return "[%s]" % e.id
    # '\\' * len(bs_buf)*2   /   '\\' * len(bs_buf)
    def times(x):
        if isinstance(x, ast.BinOp) and isinstance(x.op, ast.Mult):
            l = times(x.left)
            if l is not None and isinstance(x.right, ast.Constant) and isinstance(x.right.value, int) and x.right.value >= 0:
                return (l[0], "(%s * %d)%%nat" % (l[1], x.right.value))
            if isinstance(x.left, ast.Constant) and isinstance(x.left.value, str) and len(x.left.value) == 1 and \
                    isinstance(x.right, ast.Call) and _is_name(x.right.func, "len") and len(x.right.args) == 1 and \
                    _is_name(x.right.args[0]) and T.cfg["kinds"].get(x.right.args[0].id) == "text":
                if x.right.args[0].id not in scope:
                    raise U("unbound name")
                return (ord(x.left.value), "(length %s)" % x.right.args[0].id)
        return None
    t = times(e)
    if t is None:
        raise U("appended expression %s" % ast.dump(e))
    return "(repeat %d%%N %s)" % t


def shape_result_append(T, s, probe, scope=None):
    """result.append(<piece>) / result.extend(<text variable>): result is the list of pieces"""
    if not (isinstance(s, ast.Expr) and isinstance(s.value, ast.Call) and isinstance(s.value.func, ast.Attribute)
            and _is_name(s.value.func.value, "result") and s.value.func.attr in ("append", "extend")):
        return None
    if len(s.value.args) != 1 or s.value.keywords:
        raise U("result.%s arity" % s.value.func.attr)
    if probe:
        return ["result"]
    a = s.value.args[0]
    if s.value.func.attr == "append":
        return "let result := result ++ [%s] in\n" % _piece(T, a, scope)
    if not (_is_name(a) and T.cfg["kinds"].get(a.id) == "text" and a.id in scope):
        raise U("result.extend of %s" % ast.dump(a))
    return "let result := result ++ map (fun ch => [ch]) %s in\n" % a.id


def normalise_cmd(node):
    """return ''.join(result)  ->  return result   (the caller concatenates)"""
    last = node.body[-1]
    ok = (isinstance(last, ast.Return) and _method_call(last.value, "join", 1) and
          isinstance(last.value.func.value, ast.Constant) and last.value.func.value.value == "" and
          _is_name(last.value.args[0], "result"))
    if not ok or sum(isinstance(n, ast.Return) for n in ast.walk(node)) != 1:
        raise U("args2cmd must end in  return ''.join(result)")
    if any(isinstance(n, (ast.Break, ast.Continue, ast.While, ast.Try, ast.With, ast.Raise, ast.Yield)) for n in ast.walk(node)):
        raise U("unexpected control flow in args2cmd")
    node.body[-1] = ast.Return(value=ast.Name(id="result", ctx=ast.Load()))
    return node


CFG_CMD = {
    "name": "src_args2cmd_pieces",
    "params": [("args", "list text"), ("sep", "text")],
    "defaults": {"sep": "' '"},
    "ret": "list text", "num": "Z",
    "kinds": {"args": "list", "sep": "text", "result": "list", "needquote": "bool", "arg": "text", "bs_buf": "text",
              "c": "char"},
    "eqb": {"char": "N.eqb"},
    "consts": {repr("\\"): "c_bs", repr('"'): "c_dq"},
    "truthy": {"text": "src_nonempty", "list": "src_nonempty"},
    "shapes": [shape_needquote, shape_result_append],
}

HEADER_CMD = """
(* ---- args2cmd: result is the list of appended pieces; the function returns ''.join(result) ---- *)
Open Scope N_scope.
Definition src_nonempty {A} (l : list A) : bool := match l with [] => false | _ => true end.
"""

FOOTER_CMD = """Definition src_args2cmd (args : list text) (sep : text) : text := concat (src_args2cmd_pieces args sep).
"""


# ---------------------------------------------------------------------------------- args2sh
def _guards_to_ifelse(stmts):
    """[if c: A; continue] + rest  ->  [if c: A else: rest]   (same behaviour inside a loop body)"""
    out = []
    for i, s in enumerate(stmts):
        if isinstance(s, ast.If) and not s.orelse and s.body and isinstance(s.body[-1], ast.Continue):
            if any(isinstance(n, ast.Continue) for b in s.body[:-1] for n in ast.walk(b)):
                raise U("continue in non-tail position")
            rest = _guards_to_ifelse(stmts[i + 1:])
            out.append(ast.If(test=s.test, body=(s.body[:-1] or [ast.Pass()]), orelse=(rest or [ast.Pass()])))
            return out
        if any(isinstance(n, ast.Continue) for n in ast.walk(s)):
            raise U("continue of an unknown shape")
        out.append(s)
    return out


def normalise_sh(node):
    loops = [s for s in node.body if isinstance(s, ast.For)]
    if len(loops) != 1 or loops[0].orelse:
        raise U("expected exactly one for loop without else")
    if any(isinstance(n, (ast.Break, ast.While, ast.Try, ast.With, ast.Raise, ast.Yield)) for n in ast.walk(node)):
        raise U("unexpected control flow in args2sh")
    loop = loops[0]
    loop.body = _guards_to_ifelse(loop.body)
    # _find_sh_unsafe(arg) is None   ->   __all_safe(arg)      (the class itself is the regenerated table)
    class R(ast.NodeTransformer):
        def visit_Compare(self, c):
            if (len(c.ops) == 1 and isinstance(c.ops[0], ast.Is) and isinstance(c.comparators[0], ast.Constant)
                    and c.comparators[0].value is None and isinstance(c.left, ast.Call)
                    and _is_name(c.left.func, "_find_sh_unsafe") and len(c.left.args) == 1 and not c.left.keywords):
                return ast.Call(func=ast.Name(id="__all_safe", ctx=ast.Load()), args=c.left.args, keywords=[])
            raise U("comparison of an unknown shape in args2sh")
    for i, s in enumerate(loop.body):
        loop.body[i] = R().visit(s)
    last = node.body[-1]
    ok = (isinstance(last, ast.Return) and _method_call(last.value, "join", 1) and
          isinstance(last.value.func.value, ast.Constant) and isinstance(last.value.func.value.value, str) and
          _is_name(last.value.args[0], "ret_list"))
    if not ok or sum(isinstance(n, ast.Return) for n in ast.walk(node)) != 1:
        raise U("args2sh must end in  return <constant>.join(ret_list)")
    sep = last.value.func.value.value
    node.body[-1] = ast.Return(value=ast.Name(id="ret_list", ctx=ast.Load()))
    ast.fix_missing_locations(node)
    return node, sep


def _codes(txt):
    return "[" + "; ".join("%d%%N" % ord(ch) for ch in txt) + "]"


def _sh_piece(T, e, scope):
    if isinstance(e, ast.Constant) and isinstance(e.value, str):
        return _codes(e.value)
    if _is_name(e) and T.cfg["kinds"].get(e.id) == "text":
        if e.id not in scope:
            raise U("unbound %s" % e.id)
        return e.id
    if isinstance(e, ast.BinOp) and isinstance(e.op, ast.Add):
        return "(%s ++ %s)" % (_sh_piece(T, e.left, scope), _sh_piece(T, e.right, scope))
    if _method_call(e, "replace", 2) and _is_name(e.func.value) and T.cfg["kinds"].get(e.func.value.id) == "text":
        a, b = e.args
        if not (isinstance(a, ast.Constant) and isinstance(a.value, str) and len(a.value) == 1 and
                isinstance(b, ast.Constant) and isinstance(b.value, str)):
            raise U("replace() arguments")
        if e.func.value.id not in scope:
            raise U("unbound name")
        # str.replace with a one-character pattern = character-wise substitution
        return "(flat_map (fun ch => if ch =? %d%%N then %s else [ch]) %s)" % (ord(a.value), _codes(b.value), e.func.value.id)
    raise U("piece %s" % ast.dump(e))


def shape_ret_append(T, s, probe, scope=None):
    if not (isinstance(s, ast.Expr) and _method_call(s.value, "append", 1) and _is_name(s.value.func.value, "ret_list")):
        return None
    if probe:
        return ["ret_list"]
    return "let ret_list := ret_list ++ [%s] in\n" % _sh_piece(T, s.value.args[0], scope)


CFG_SH = {
    "name": "src_args2sh_pieces",
    "params": [("args", "list text"), ("sep", "text")],
    "defaults": {"sep": "' '"},
    "ret": "list text", "num": "Z",
    "kinds": {"args": "list", "sep": "text", "ret_list": "list", "arg": "text"},
    "calls": {"__all_safe": ("all_safe safe", "bool")},
    "truthy": {"text": "src_nonempty", "list": "src_nonempty"},
    "shapes": [shape_ret_append],
}

HEADER_SH = """
(* ---- args2sh: ret_list is the list of pieces; _find_sh_unsafe(arg) is None is the test of the
   regenerated class (all_safe safe); the function returns %s.join(ret_list) ---- *)
From Boltons Require Import Model.C14_Model.
Section SrcSh.
Variable safe : N -> bool.
"""

FOOTER_SH = """Definition src_args2sh (args : list text) (sep : text) : text := join %s (src_args2sh_pieces args sep).
End SrcSh.
"""


# ---------------------------------------------------------------------------------- parse_int_list
# Exceptions: the translated loop carries `err` (None or the first exception raised); every statement that can
# raise is a shape that does nothing once err is set; the result is the pair (err, sorted(output)).
def normalise_parse(node):
    loops = [s for s in node.body if isinstance(s, ast.For)]
    if len(loops) != 1 or loops[0].orelse:
        raise U("expected exactly one for loop without else")
    loop = loops[0]
    if any(isinstance(n, (ast.Break, ast.While, ast.Try, ast.With, ast.Raise, ast.Yield)) for n in ast.walk(node)):
        raise U("unexpected control flow in parse_int_list")
    if any(isinstance(n, (ast.For,)) for s in loop.body for n in ast.walk(s)):
        raise U("nested loop")
    if not _tail_continue_only(loop.body):
        raise U("continue in non-tail position")
    # for x in range_string.strip().split(delim):   ->   for x in __parts   (the wrapper performs strip/split)
    it = loop.iter
    ok = (_method_call(it, "split", 1) and _is_name(it.args[0], "delim") and _method_call(it.func.value, "strip", 0)
          and _is_name(it.func.value.func.value, "range_string"))
    if not ok:
        raise U("loop source is not range_string.strip().split(delim)")
    loop.iter = ast.Name(id="parts", ctx=ast.Load())

    class R(ast.NodeTransformer):
        def visit_Compare(self, c):
            if (len(c.ops) == 1 and isinstance(c.ops[0], ast.In) and _is_name(c.left, "range_delim")
                    and _is_name(c.comparators[0])):
                return ast.Call(func=ast.Name(id="__contains", ctx=ast.Load()), args=[c.left, c.comparators[0]], keywords=[])
            raise U("comparison of an unknown shape in parse_int_list")
    for i, s in enumerate(loop.body):
        loop.body[i] = R().visit(s)
    last = node.body[-1]
    if not (isinstance(last, ast.Return) and isinstance(last.value, ast.Call) and _is_name(last.value.func, "sorted")
            and len(last.value.args) == 1 and _is_name(last.value.args[0], "output") and not last.value.keywords) \
            or sum(isinstance(n, ast.Return) for n in ast.walk(node)) != 1:
        raise U("parse_int_list must end in  return sorted(output)")
    node.body[-1] = ast.Return(value=ast.Tuple(elts=[ast.Name(id="err", ctx=ast.Load()), last.value], ctx=ast.Load()))
    # the parameters of the translated function: the pieces instead of the string and its delimiter
    for a in node.args.args:
        if a.arg == "range_string":
            a.arg = "parts"
    ast.fix_missing_locations(node)
    return node


def shape_limits(T, s, probe, scope=None):
    """range_limits = list(map(int, x.split(range_delim)))      (may raise: split / int)"""
    if not (isinstance(s, ast.Assign) and len(s.targets) == 1 and _is_name(s.targets[0], "range_limits")):
        return None
    v = s.value
    ok = (isinstance(v, ast.Call) and _is_name(v.func, "list") and len(v.args) == 1 and isinstance(v.args[0], ast.Call)
          and _is_name(v.args[0].func, "map") and len(v.args[0].args) == 2 and _is_name(v.args[0].args[0], "int")
          and _method_call(v.args[0].args[1], "split", 1) and _is_name(v.args[0].args[1].func.value, "x")
          and _is_name(v.args[0].args[1].args[0], "range_delim"))
    if not ok:
        raise U("range_limits of an unknown shape")
    if probe:
        return ["err", "range_limits"]
    return ("let '(err, range_limits) :=\n"
            "      match err with\n"
            "      | Some _ => (err, range_limits)\n"
            "      | None => match py_split range_delim x with\n"
            "                | Raise e => (Some e, range_limits)\n"
            "                | Ok ws => match map_res py_int ws with\n"
            "                           | Raise e => (Some e, range_limits)\n"
            "                           | Ok l => (None, l)\n"
            "                           end\n"
            "                end\n"
            "      end in\n")


def shape_append_int(T, s, probe, scope=None):
    """output.append(int(x))      (may raise)"""
    if not (isinstance(s, ast.Expr) and _method_call(s.value, "append", 1) and _is_name(s.value.func.value, "output")):
        return None
    a = s.value.args[0]
    if not (isinstance(a, ast.Call) and _is_name(a.func, "int") and len(a.args) == 1 and _is_name(a.args[0], "x") and not a.keywords):
        raise U("output.append of an unknown shape")
    if probe:
        return ["err", "output"]
    return ("let '(err, output) :=\n"
            "      match err with\n"
            "      | Some _ => (err, output)\n"
            "      | None => match py_int x with Raise e => (Some e, output) | Ok v => (None, output ++ [v]) end\n"
            "      end in\n")


def shape_output_extend(T, s, probe, scope=None):
    """output += list(range(a, b))   - evaluated only when no exception is pending"""
    if not (isinstance(s, ast.AugAssign) and _is_name(s.target, "output") and isinstance(s.op, ast.Add)):
        return None
    v = s.value
    if not (isinstance(v, ast.Call) and _is_name(v.func, "list") and len(v.args) == 1 and isinstance(v.args[0], ast.Call)
            and _is_name(v.args[0].func, "range") and len(v.args[0].args) == 2 and not v.args[0].keywords):
        raise U("output += of an unknown shape")
    if probe:
        return ["output"]
    lo, hi = v.args[0].args
    return ("let output := match err with Some _ => output | None => output ++ zrange %s %s end in\n"
            % (T.expr(lo, scope), T.expr(hi, scope)))


CFG_PARSE = {
    "name": "src_parse_parts",
    "params": [("parts", "list text"), ("delim", "text"), ("range_delim", "text")],
    "defaults": {"delim": "','", "range_delim": "'-'"},
    "ret": "(option exn * list Z)", "num": "Z",
    "kinds": {"parts": "list", "delim": "text", "range_delim": "text", "output": "listZ", "x": "text",
              "range_limits": "listZ", "err": "err"},
    "calls": {"__contains": ("contains", "bool"), "min": ("list_minZ", "int"), "max": ("list_maxZ", "int"),
              "sorted": ("sortZ", "listZ")},
    "truthy": {"text": "src_nonempty"},
    "prebind": {"err": "(None : option exn)", "range_limits": "([] : list Z)"},
    "shapes": [shape_limits, shape_append_int, shape_output_extend, shape_continue],
}

HEADER_PARSE = """
(* ---- parse_int_list: the loop over the pieces of range_string.strip().split(delim); err = the first
   exception raised (None: none), the function returns sorted(output) when err is None ---- *)
Open Scope Z_scope.
"""

FOOTER_PARSE = """Definition src_parse_int_list (range_string delim range_delim : text) : res (list Z) :=
  match py_split delim (strip_by py_isspace range_string) with
  | Raise e => Raise e
  | Ok parts => match src_parse_parts parts delim range_delim with
                | (Some e, _) => Raise e
                | (None, l) => Ok l
                end
  end.
"""


# ---------------------------------------------------------------------------------- complement_int_list
def normalise_compl(node):
    """int_list = set(parse_int_list(range_string, delim, range_delim))  is performed by the wrapper (it may
    raise); the rest is translated as a function of the parsed integers.  `range_end is None` becomes a test on
    the optional parameter, with the else branch that Python leaves implicit (range_end keeps its value)."""
    body = node.body
    if body and isinstance(body[0], ast.Expr) and isinstance(body[0].value, ast.Constant):
        doc, body = [body[0]], body[1:]
    else:
        doc = []
    first = body[0]
    ok = (isinstance(first, ast.Assign) and len(first.targets) == 1 and _is_name(first.targets[0], "int_list")
          and isinstance(first.value, ast.Call) and _is_name(first.value.func, "set") and len(first.value.args) == 1
          and isinstance(first.value.args[0], ast.Call) and _is_name(first.value.args[0].func, "parse_int_list")
          and [a.id if isinstance(a, ast.Name) else None for a in first.value.args[0].args] == ["range_string", "delim", "range_delim"]
          and not first.value.args[0].keywords)
    if not ok:
        raise U("first statement of complement_int_list")
    if any(isinstance(n, (ast.For, ast.While, ast.Try, ast.With, ast.Raise, ast.Yield, ast.Break, ast.Continue))
           for n in ast.walk(node)):
        raise U("unexpected control flow in complement_int_list")
    rest = body[1:]
    if not (isinstance(rest[0], ast.If) and isinstance(rest[0].test, ast.Compare) and len(rest[0].test.ops) == 1
            and isinstance(rest[0].test.ops[0], ast.Is) and _is_name(rest[0].test.left, "range_end")
            and isinstance(rest[0].test.comparators[0], ast.Constant) and rest[0].test.comparators[0].value is None
            and not rest[0].orelse):
        raise U("expected  if range_end is None:  without else")
    for n in ast.walk(ast.Module(body=rest[1:], type_ignores=[])):
        if isinstance(n, ast.Compare) and any(isinstance(o, (ast.Is, ast.IsNot)) for o in n.ops):
            raise U("another identity test")
        if isinstance(n, (ast.Assign, ast.AugAssign)) and any(_is_name(t, "range_end") for t in getattr(n, "targets", [getattr(n, "target", None)])):
            raise U("range_end assigned after the defaulting")
    rest[0] = ast.If(test=ast.Call(func=ast.Name(id="__is_none", ctx=ast.Load()),
                                   args=[ast.Name(id="range_end_opt", ctx=ast.Load())], keywords=[]),
                     body=rest[0].body,
                     orelse=[ast.Assign(targets=[ast.Name(id="range_end", ctx=ast.Store())],
                                        value=ast.Call(func=ast.Name(id="__get", ctx=ast.Load()),
                                                       args=[ast.Name(id="range_end_opt", ctx=ast.Load())], keywords=[]))])
    node.body = doc + rest
    for a in node.args.args:
        if a.arg == "range_string":
            a.arg = "int_list"
        elif a.arg == "range_end":
            a.arg = "range_end_opt"
    ast.fix_missing_locations(node)
    return node


def shape_set_difference(T, s, probe, scope=None):
    """v = set(range(a)) - xs - set(range(b))"""
    if not (isinstance(s, ast.Assign) and len(s.targets) == 1 and _is_name(s.targets[0], "complement_values")):
        return None
    v = s.value

    def set_range(e):
        if (isinstance(e, ast.Call) and _is_name(e.func, "set") and len(e.args) == 1 and isinstance(e.args[0], ast.Call)
                and _is_name(e.args[0].func, "range") and len(e.args[0].args) == 1 and not e.args[0].keywords):
            return e.args[0].args[0]
        return None
    ok = (isinstance(v, ast.BinOp) and isinstance(v.op, ast.Sub) and isinstance(v.left, ast.BinOp)
          and isinstance(v.left.op, ast.Sub) and set_range(v.left.left) is not None and _is_name(v.left.right, "int_list")
          and set_range(v.right) is not None)
    if not ok:
        raise U("complement_values of an unknown shape")
    if probe:
        return ["complement_values"]
    if "complement_values" not in scope:
        raise U("complement_values must be pre-bound")
    return ("let complement_values := filter (fun v => negb (memZ v int_list) && negb (memZ v (zrange 0%%Z %s))) "
            "(zrange 0%%Z %s) in\n" % (T.expr(set_range(v.right), scope), T.expr(set_range(v.left.left), scope)))


def _call_format(T, e, scope):
    if len(e.args) != 3 or e.keywords or not all(isinstance(a, ast.Name) for a in e.args):
        raise U("call of format_int_list")
    xs, d, rd = [T.expr(a, scope) for a in e.args]
    if [T.kind(a) for a in e.args] != ["listZ", "text", "text"]:
        raise U("kinds in the call of format_int_list")
    return "(format_int_list %s %s %s false)" % (d, rd, xs)


CFG_COMPL = {
    "name": "src_complement_tail",
    "params": [("int_list", "list Z"), ("range_start", "Z"), ("range_end_opt", "option Z"), ("delim", "text"),
               ("range_delim", "text")],
    "defaults": {"range_start": "0", "range_end_opt": "None", "delim": "','", "range_delim": "'-'"},
    "ret": "text", "num": "Z",
    "kinds": {"int_list": "listZ", "range_start": "int", "range_end": "int", "range_end_opt": "opt", "delim": "text",
              "range_delim": "text", "complement_values": "listZ"},
    "calls": {"__is_none": ("src_is_none", "bool"), "__get": ("src_get", "int"), "max": ("list_maxZ", "int"),
              "format_int_list": (_call_format, "text")},
    "truthy": {"listZ": "src_nonempty"},
    "prebind": {"range_end": "0%Z", "complement_values": "([] : list Z)"},
    "shapes": [shape_set_difference],
}

HEADER_COMPL = """
(* ---- complement_int_list: after  int_list = set(parse_int_list(...))  (performed by the wrapper) ---- *)
Definition src_is_none (o : option Z) : bool := match o with None => true | Some _ => false end.
Definition src_get (o : option Z) : Z := match o with Some v => v | None => 0 end.
"""

FOOTER_COMPL = """Definition src_complement_int_list (range_string : text) (range_start : Z) (range_end : option Z)
           (delim range_delim : text) : res text :=
  match src_parse_int_list range_string delim range_delim with
  | Raise e => Raise e
  | Ok ints => Ok (src_complement_tail ints range_start range_end delim range_delim)
  end.
"""


# ---------------------------------------------------------------------------------- int_ranges_from_int_list
def _const_char(e):
    return isinstance(e, ast.Constant) and isinstance(e.value, str) and len(e.value) == 1


def normalise_ranges(node):
    """range_string = format_int_list(parse_int_list(range_string, delim, range_delim)): the parse is performed by
    the wrapper (it may raise), the format call with the default delimiters becomes __fmt_default(int_list)."""
    body = node.body
    doc = []
    if body and isinstance(body[0], ast.Expr) and isinstance(body[0].value, ast.Constant):
        doc, body = [body[0]], body[1:]
    if any(isinstance(n, (ast.While, ast.Try, ast.With, ast.Raise, ast.Yield, ast.Break, ast.Continue)) for n in ast.walk(node)):
        raise U("unexpected control flow in int_ranges_from_int_list")
    idx = None
    for i, s in enumerate(body):
        if isinstance(s, ast.Assign) and len(s.targets) == 1 and _is_name(s.targets[0], "range_string"):
            v = s.value
            ok = (isinstance(v, ast.Call) and _is_name(v.func, "format_int_list") and len(v.args) == 1 and not v.keywords
                  and isinstance(v.args[0], ast.Call) and _is_name(v.args[0].func, "parse_int_list")
                  and [a.id if isinstance(a, ast.Name) else None for a in v.args[0].args] == ["range_string", "delim", "range_delim"]
                  and not v.args[0].keywords)
            if not ok or idx is not None:
                raise U("normalising assignment of int_ranges_from_int_list")
            idx = i
    if idx is None:
        raise U("normalising assignment not found")
    for s in body[:idx]:
        if any(_is_name(n, "range_string") for n in ast.walk(s)):
            raise U("range_string used before it is normalised")
    body[idx] = ast.Assign(targets=[ast.Name(id="range_string", ctx=ast.Store())],
                           value=ast.Call(func=ast.Name(id="__fmt_default", ctx=ast.Load()),
                                          args=[ast.Name(id="int_list", ctx=ast.Load())], keywords=[]))

    class R(ast.NodeTransformer):
        def visit_Compare(self, c):
            if len(c.ops) == 1 and isinstance(c.ops[0], ast.In) and _const_char(c.left) and _is_name(c.comparators[0]):
                return ast.Call(func=ast.Name(id="__mem", ctx=ast.Load()), args=[c.left, c.comparators[0]], keywords=[])
            raise U("comparison of an unknown shape in int_ranges_from_int_list")

        def visit_For(self, f):
            it = f.iter
            if not (_method_call(it, "split", 1) and _const_char(it.args[0]) and _is_name(it.func.value)):
                raise U("loop source of int_ranges_from_int_list")
            f.iter = ast.Call(func=ast.Name(id="__split1", ctx=ast.Load()), args=[it.args[0], it.func.value], keywords=[])
            f.body = [self.visit(s) for s in f.body]
            if f.orelse:
                raise U("for-else")
            return f
    body = [R().visit(s) for s in body]
    last = body[-1]
    if not (isinstance(last, ast.Return) and isinstance(last.value, ast.Call) and _is_name(last.value.func, "tuple")
            and len(last.value.args) == 1 and _is_name(last.value.args[0], "int_tuples")) \
            or sum(isinstance(n, ast.Return) for n in ast.walk(node)) != 1:
        raise U("int_ranges_from_int_list must end in  return tuple(int_tuples)")
    body[-1] = ast.Return(value=ast.Tuple(elts=[ast.Name(id="err", ctx=ast.Load()),
                                                ast.Name(id="int_tuples", ctx=ast.Load())], ctx=ast.Load()))
    node.body = doc + body
    for a in node.args.args:
        if a.arg == "range_string":
            a.arg = "int_list"
    ast.fix_missing_locations(node)
    return node


def _char_call(name):
    def render(T, e, scope):
        if len(e.args) != 2 or not _const_char(e.args[0]) or not _is_name(e.args[1]) or e.args[1].id not in scope:
            raise U("call of %s" % name)
        return "(%s %d%%N %s)" % (name, ord(e.args[0].value), e.args[1].id)
    return render


def _call_fmt_default(T, e, scope):
    # format_int_list(ints): delimiters = the defaults of format_int_list (checked by its own translation)
    return "(format_int_list [44%%N] [45%%N] %s false)" % T.expr(e.args[0], scope)


def shape_unpack_split(T, s, probe, scope=None):
    """start, end = bounds.split('-')      (raises ValueError unless exactly two pieces)"""
    if not (isinstance(s, ast.Assign) and len(s.targets) == 1 and isinstance(s.targets[0], ast.Tuple)
            and _method_call(s.value, "split", 1)):
        return None
    t = s.targets[0]
    if not (len(t.elts) == 2 and all(isinstance(x, ast.Name) for x in t.elts) and _const_char(s.value.args[0])
            and _is_name(s.value.func.value)):
        raise U("unpacking of an unknown shape")
    a, b = [py2coq.cname(x.id) for x in t.elts]
    if probe:
        return ["err", t.elts[0].id, t.elts[1].id]
    src = s.value.func.value.id
    if src not in scope or t.elts[0].id not in scope or t.elts[1].id not in scope:
        raise U("names of the unpacking must be pre-bound")
    return ("let '(err, %s, %s) :=\n"
            "      match err with\n"
            "      | Some _ => (err, %s, %s)\n"
            "      | None => match split1 %d%%N %s with\n"
            "                | [p; q] => (None, p, q)\n"
            "                | _ => (Some ValueError, %s, %s)\n"
            "                end\n"
            "      end in\n" % (a, b, a, b, ord(s.value.args[0].value), src, a, b))


def shape_append_int_pair(T, s, probe, scope=None):
    """int_tuples.append((int(start), int(end)))      (may raise, left to right)"""
    if not (isinstance(s, ast.Expr) and _method_call(s.value, "append", 1) and _is_name(s.value.func.value, "int_tuples")):
        return None
    a = s.value.args[0]
    ok = (isinstance(a, ast.Tuple) and len(a.elts) == 2 and
          all(isinstance(x, ast.Call) and _is_name(x.func, "int") and len(x.args) == 1 and _is_name(x.args[0]) and not x.keywords
              for x in a.elts))
    if not ok:
        raise U("int_tuples.append of an unknown shape")
    if probe:
        return ["err", "int_tuples"]
    p, q = [py2coq.cname(x.args[0].id) for x in a.elts]
    for x in a.elts:
        if x.args[0].id not in scope:
            raise U("unbound name")
    return ("let '(err, int_tuples) :=\n"
            "      match err with\n"
            "      | Some _ => (err, int_tuples)\n"
            "      | None => match py_int %s with\n"
            "                | Raise e => (Some e, int_tuples)\n"
            "                | Ok v1 => match py_int %s with\n"
            "                           | Raise e => (Some e, int_tuples)\n"
            "                           | Ok v2 => (None, int_tuples ++ [(v1, v2)])\n"
            "                           end\n"
            "                end\n"
            "      end in\n" % (p, q))


CFG_RANGES = {
    "name": "src_int_ranges_tail",
    "params": [("int_list", "list Z"), ("delim", "text"), ("range_delim", "text")],
    "defaults": {"delim": "','", "range_delim": "'-'"},
    "ret": "(option exn * list (Z * Z))", "num": "Z",
    "kinds": {"int_list": "listZ", "delim": "text", "range_delim": "text", "range_string": "text", "bounds": "text",
              "start": "text", "end": "text", "int_tuples": "list", "err": "err"},
    "calls": {"__fmt_default": (_call_fmt_default, "text"), "__mem": (_char_call("memN"), "bool"),
              "__split1": (_char_call("split1"), "list")},
    "truthy": {"text": "src_nonempty"},
    "prebind": {"err": "(None : option exn)", "start": "([] : text)", "end": "([] : text)", "range_string": "([] : text)"},
    "shapes": [shape_unpack_split, shape_append_int_pair],
}

HEADER_RANGES = """
(* ---- int_ranges_from_int_list: after the parse (performed by the wrapper); err = first exception ---- *)
"""

FOOTER_RANGES = """Definition src_int_ranges_from_int_list (range_string delim range_delim : text) : res (list (Z * Z)) :=
  match src_parse_int_list range_string delim range_delim with
  | Raise e => Raise e
  | Ok ints => match src_int_ranges_tail ints delim range_delim with
               | (Some e, _) => Raise e
               | (None, l) => Ok l
               end
  end.
"""


CFG = {
    "name": "src_format_int_list",
    "params": [("int_list", "list Z"), ("delim", "text"), ("range_delim", "text"), ("delim_space", "bool")],
    "defaults": {"delim": "','", "range_delim": "'-'", "delim_space": "False"},
    "ret": "text", "num": "Z",
    "kinds": {"int_list": "listZ", "delim": "str", "range_delim": "str", "delim_space": "bool",
              "contig_range": "listZ", "output": "list", "x": "int", "delta": "int",
              "range_substr": "str", "output_str": "str"},
    "calls": {"len": ("src_len", "int"), "sorted": ("sortZ", "listZ"), "min": ("list_minZ", "int"),
              "max": ("list_maxZ", "int")},
    "subscripts": {("listZ", "[0]"): ("src_hd", "int"), ("listZ", "[i]"): ("src_idx", "int")},
    "consts": {"' '": "[c_sp]"},
    "prebind": {"contig_range": "([] : list Z)", "range_substr": "([] : text)", "output_str": "([] : text)"},
    "shapes": [shape_deque_new, shape_clear, shape_append_popleft, shape_format3, shape_join, shape_continue],
}

HEADER = """(* GENERATED on every run by harness/translators/c14_src.py from %s (format_int_list);
   do not edit.  The deque is a list; x[0] / x[-1] / popleft are only reached when the deque is
   non-empty (guarded by the len tests of the source), their value on the empty list is irrelevant. *)
From Boltons Require Import Lib.Prelude Lib.C14_Text.
Open Scope Z_scope.
Definition src_len (l : list Z) : Z := Z.of_nat (length l).
Definition src_hd (l : list Z) : Z := hd 0 l.
Definition src_idx (l : list Z) (i : Z) : Z :=
  if i <? 0 then nth (length l - Z.to_nat (- i)) l 0 else nth (Z.to_nat i) l 0.
"""


def generate(repo):
    path = os.path.join(repo, "boltons", "strutils.py")
    node = normalise(py2coq.get_function(path, "format_int_list"))
    cmd = normalise_cmd(py2coq.get_function(path, "args2cmd"))
    sh, sep = normalise_sh(py2coq.get_function(path, "args2sh"))
    return {"C14_Src": HEADER % path + py2coq.Translator(dict(CFG)).function(node)
            + HEADER_CMD + py2coq.Translator(dict(CFG_CMD)).function(cmd) + FOOTER_CMD
            + HEADER_SH % repr(sep) + py2coq.Translator(dict(CFG_SH)).function(sh) + FOOTER_SH % _codes(sep)
            + HEADER_PARSE + py2coq.Translator(dict(CFG_PARSE)).function(
                normalise_parse(py2coq.get_function(path, "parse_int_list"))) + FOOTER_PARSE
            + HEADER_COMPL + py2coq.Translator(dict(CFG_COMPL)).function(
                normalise_compl(py2coq.get_function(path, "complement_int_list"))) + FOOTER_COMPL
            + HEADER_RANGES + py2coq.Translator(dict(CFG_RANGES)).function(
                normalise_ranges(py2coq.get_function(path, "int_ranges_from_int_list"))) + FOOTER_RANGES}


if __name__ == "__main__":
    import sys
    print(generate(sys.argv[1] if len(sys.argv) > 1 else "/repo")["C14_Src"])
