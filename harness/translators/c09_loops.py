"""(T) tie for C09, second part: translate the *scanner loops* of split_iter, unique_iter
and bucketize (taken from /repo's current source with `ast`) into Gallina (shallow
embedding), fail closed.  Proofs/C09_SrcLoops.v proves the generated functions equal to the
hand-written model loops (split_loop, unique_loop, bucket_step fold) for all inputs.

Shape accepted for a function:
    [docstring]
    <prelude>            argument checks / dispatch on the dynamic type of an argument: NOT
                         translated.  Its meaning (e.g. sep_func = `x == sep` / `x in
                         frozenset(sep)` / sep itself) is an INPUT of the generated function and
                         stays covered by the correspondence run.  What the loop tie needs from it
                         is checked structurally (fail closed): only if/elif/else, assignments,
                         one-line `def`s, `raise` and `pass`; it binds only the names listed in
                         cfg["prelude_may_bind"] (never the loop state, never - except where the
                         function itself does, bucketize - `src`); it mentions `src` only as a
                         direct argument of is_iterable / len / type / zip; no yield, return,
                         loop, try, with, augmented assignment, expression statement.
                         (PRELUDES keeps the text the models were written from, for the record
                         and for the self-test.)
    x = <init> ...       initialisation of the loop state
    for v in src: body   the scanner
    <epilogue>           trailing `if c: yield x`, `return`, `return x`

Statements inside body/epilogue: `x = e`, `x += e`, `x.append(e)`, `x.add(e)`,
`d.setdefault(k, []).append(e)`, `yield e`, `continue`, `def f(x): return <bool constant>`,
`if/elif/else`, bare `return` / `return x` as the last epilogue statement.

Semantic conventions of the emitted text (all elementary):
  * statements are sequential `let`s that shadow; the loop body is a function
    state -> item -> state, the loop is `fold_left` over the list of items the iterable yields;
  * `if c: A else: B` followed by REST becomes `if c then [A; REST] else [B; REST]`
    (the continuation is duplicated, nothing is merged);
  * `continue` ends the iteration with the variables as currently bound; `yield e` appends e to
    the output list `_out`, which is part of the state;
  * truthiness of a list = it is non-empty; `x is None` is a boolean parameter `<x>_is_none`
    (an Optional[int] parameter m is the pair m_is_none / m : nat); `k in s` for a set-kind
    variable is `memb k s`, `s.add(k)` conses; a dict is a `pydict` (insertion ordered);
  * `k in d` for a dict is `d_mem d k`; a subscript READ `d[k]` is the total lookup `d_at d k`
    (dict of elements, default 0) / `group_at d k` (dict of lists, default []): the KeyError
    path of a missing key is NOT represented (the correspondence run would see the exception);
    `d[k] = e` is `d_set d k e`, `d[k].append(e)` is `d_set d k (group_at d k ++ [e])`;
  * for `redundant` a second, CHECKED version is emitted as well (suffix _chk, result in
    `option`): every subscript read `d[k]` is preceded by the test `d_mem d k`, every `xs[n]`
    by `n <? length xs` (inside a comprehension: for all its items), and the function returns
    None as soon as one fails (KeyError / IndexError); Proofs/C09_SrcLoops.v proves
    checked = Some unchecked, i.e. the dict reads of the source never raise;
  * a boolean parameter listed in cfg["specialize"] is a compile-time constant: the function is
    translated once per value and `if <param>` picks its branch statically (needed where the
    two branches build results of different types: redundant(groups=...));
  * before translation the locals of a function are renamed to canonical names, k-th bound local ->
    k-th canonical name (alpha-renaming: a bijection on the names the function itself binds,
    refused when it could capture a non-local), so renaming a local does not change the output;
  * `[e for k in xs]` over a list variable is `map (fun k => e) xs`; `a if c else b` is `if`;
  * chunked_iter only: `while True:` over a shared one-shot iterator `it` (a list of the items
    still to come) is a fuelled fixpoint over a step function state -> (go_on?, state); `break`
    returns go_on = false; `x = list(itertools.islice(it, n))` binds x := firstn n it and
    it := skipn n it; `len(x)` is `length x`; `x[lc:] = [v] * (n)` is
    x := firstn lc x ++ repeat v n (nat subtraction truncates at 0 exactly like `[v] * negative`
    is []); its prelude (kw.pop('fill') in try/except, the early return for an empty sized
    src, the postprocess dispatch) is compared literally."""
import ast
import os


class TranslationError(Exception):
    pass


def _fail(node, why):
    raise TranslationError("%s at line %s: %s" % (why, getattr(node, "lineno", "?"), ast.dump(node)[:240]))


def _find(tree, name):
    for n in tree.body:
        if isinstance(n, ast.FunctionDef) and n.name == name:
            return n
    raise TranslationError("function %s not found" % name)


def _dump_src(text):
    return [ast.dump(s) for s in ast.parse(text).body]


PRELUDES = {
    "split_iter": '''
if not is_iterable(src):
    raise TypeError('expected an iterable')

if maxsplit is not None:
    maxsplit = int(maxsplit)

if callable(sep):
    sep_func = sep
elif not is_scalar(sep):
    sep = frozenset(sep)
    def sep_func(x): return x in sep
else:
    def sep_func(x): return x == sep
''',
    "chunked_iter": '''
if not is_iterable(src):
    raise TypeError('expected an iterable')
size = _validate_positive_int(size, 'chunk size')
do_fill = True
try:
    fill_val = kw.pop('fill')
except KeyError:
    do_fill = False
    fill_val = None
if kw:
    raise ValueError('got unexpected keyword arguments: %r' % kw.keys())
if not src:
    return

def postprocess(chk): return chk
if isinstance(src, (str, bytes)):
    def postprocess(chk, _sep=type(src)()): return _sep.join(chk)
    if isinstance(src, bytes):
        def postprocess(chk): return bytes(chk)
''',
    "unique_iter": '''
if not is_iterable(src):
    raise TypeError('expected an iterable, not %r' % type(src))
if key is None:
    def key_func(x): return x
elif callable(key):
    key_func = key
elif isinstance(key, str):
    def key_func(x): return getattr(x, key, x)
else:
    raise TypeError('"key" expected a string or callable, not %r' % key)
''',
    "redundant": '''
if key is None:
    pass
elif callable(key):
    key_func = key
elif isinstance(key, (str, bytes)):
    def key_func(x): return getattr(x, key, x)
else:
    raise TypeError('"key" expected a string or callable, not %r' % key)
''',
    "bucketize": '''
if not is_iterable(src):
    raise TypeError('expected an iterable')
elif isinstance(key, list):
    if len(key) != len(src):
        raise ValueError("key and src have to be the same length")
    src = zip(key, src)

if isinstance(key, str):
    def key_func(x): return getattr(x, key, x)
elif callable(key):
    key_func = key
elif isinstance(key, list):
    def key_func(x): return x[0]
else:
    raise TypeError('expected key to be callable or a string or a list')

if value_transform is None:
    def value_transform(x): return x
if not callable(value_transform):
    raise TypeError('expected callable value transform function')
if isinstance(key, list):
    f = value_transform
    def value_transform(x): return f(x[1])
''',
}

# per function: signature, kinds of the names the loop may mention, Gallina parameters
CFG = {
    "split_iter": {
        "params": ["src", "sep", "maxsplit"], "defaults": ["Constant(value=None)", "Constant(value=None)"],
        "kinds": {"sep_func": "pred", "cur_group": "list", "split_count": "nat", "s": "elem",
                  "sep": "noneflag", "maxsplit": "optnat"},
        "gparams": "(sep_func : K -> bool) (sep_is_none maxsplit_is_none : bool) (maxsplit : nat)",
        "gargs": "sep_func sep_is_none maxsplit_is_none maxsplit",
        "prelude_may_bind": ["maxsplit", "sep", "sep_func"],
        "carried_free": ["sep_func"],      # free names of the loop that the body may re-bind
        "out": "list (list K)", "types": {"sep_func": "K -> bool", "cur_group": "list K", "split_count": "nat"},
    },
    "chunked_iter": {
        "while": True,
        "kinds": {"src_iter": "iter", "cur_chunk": "locallist", "lc": "localnat", "size": "nat", "do_fill": "bool",
                  "fill_val": "elemparam", "postprocess": "listfun"},
        "gparams": "(size : nat) (do_fill : bool) (fill_val : K) (postprocess : list K -> list K)",
        "gargs": "size do_fill fill_val postprocess", "carried_free": [],
        "out": "list (list K)", "types": {"src_iter": "list K"},
    },
    "unique_iter": {
        "params": ["src", "key"], "defaults": ["Constant(value=None)"],
        "kinds": {"key_func": "fun", "seen": "set", "i": "elem", "k": "elem"},
        "gparams": "(key_func : K -> K)", "gargs": "key_func", "carried_free": [],
        "prelude_may_bind": ["key_func"],
        "out": "list K", "types": {"seen": "list K"},
    },
    "redundant": {
        "params": ["src", "key", "groups"], "defaults": ["Constant(value=None)", "Constant(value=False)"],
        "kinds": {"key_func": "fun", "key": "truthyflag", "groups": "static", "seen": "dict_elem",
                  "redundant_order": "list", "redundant_groups": "dict_list", "i": "elem", "k": "elem", "ret": "result"},
        "gparams": "(key_truthy : bool) (key_func : K -> K)", "gargs": "key_truthy key_func", "carried_free": [],
        "prelude_may_bind": ["key_func"], "checked_version": True,
        "out": None, "specialize": ("groups", [False, True]),
        "result_type": {False: "list K", True: "list (list K)"},
        "types": {"seen": "pydict K", "redundant_order": "list K", "redundant_groups": "pydict (list K)"},
    },
    "bucketize": {
        "params": ["src", "key", "value_transform", "key_filter"],
        "defaults": ["Name(id='bool', ctx=Load())", "Constant(value=None)", "Constant(value=None)"],
        "kinds": {"key_func": "fun", "value_transform": "fun", "key_filter": "optpred", "ret": "dict",
                  "val": "elem", "key_of_val": "elem"},
        "gparams": "(key_func value_transform : K -> K) (key_filter_is_none : bool) (key_filter : K -> bool)",
        "gargs": "key_func value_transform key_filter_is_none key_filter", "carried_free": [],
        "prelude_may_bind": ["key_func", "value_transform", "f", "src"],
        "out": None, "types": {"ret": "pydict (list K)"},
    },
}


class _Tr:
    def __init__(self, fname, static=None):
        self.static = static or {}
        self.cfg = CFG[fname]
        self.kinds = self.cfg["kinds"]
        self.generator = self.cfg["out"] is not None
        self.state = None      # ordered names of the loop state (+ _out)
        self.scope = set()

    # ---------------------------------------------------------------- expressions
    def kind(self, name, node):
        if name not in self.kinds:
            _fail(node, "name %s has no declared kind" % name)
        return self.kinds[name]

    def expr(self, e):
        if isinstance(e, ast.Name):
            k = self.kind(e.id, e)
            if k in ("noneflag", "optpred", "truthyflag", "static", "listfun"):
                _fail(e, "%s may only be tested / called" % e.id)
            if e.id not in self.scope:
                _fail(e, "read of unbound %s" % e.id)
            return e.id
        if isinstance(e, ast.Constant) and isinstance(e.value, int) and not isinstance(e.value, bool) and e.value >= 0:
            return "%d" % e.value
        if isinstance(e, ast.List):
            return "[" + "; ".join(self.expr(x) for x in e.elts) + "]"
        if isinstance(e, ast.IfExp):
            return "(if %s then %s else %s)" % (self.cond(e.test), self.expr(e.body), self.expr(e.orelse))
        if isinstance(e, ast.Subscript) and isinstance(e.value, ast.Name):
            kd = self.kind(e.value.id, e)
            if kd == "dict_elem":
                return "(d_at %s %s)" % (self.expr(e.value), self.expr(e.slice))
            if kd == "dict_list":
                return "(group_at %s %s)" % (self.expr(e.value), self.expr(e.slice))
        if isinstance(e, ast.Subscript) and isinstance(e.value, ast.Subscript) and isinstance(e.value.value, ast.Name) \
                and self.kind(e.value.value.id, e) == "dict_list" and isinstance(e.slice, ast.Constant) \
                and isinstance(e.slice.value, int) and not isinstance(e.slice.value, bool) and e.slice.value >= 0:
            return "(nth %d %s 0)" % (e.slice.value, self.expr(e.value))
        if isinstance(e, ast.ListComp) and len(e.generators) == 1:
            g = e.generators[0]
            if isinstance(g.target, ast.Name) and isinstance(g.iter, ast.Name) and not g.ifs and not g.is_async \
                    and self.kind(g.iter.id, e) == "list" and self.kind(g.target.id, e) == "elem":
                xs = self.expr(g.iter)
                saved = set(self.scope)
                self.scope.add(g.target.id)
                body = self.expr(e.elt)
                self.scope = saved
                return "(map (fun %s : K => %s) %s)" % (g.target.id, body, xs)
        if isinstance(e, ast.Dict) and not e.keys:
            return "[]"
        if isinstance(e, ast.Call) and isinstance(e.func, ast.Name) and not e.keywords:
            if e.func.id == "set" and not e.args:
                return "[]"
            if e.func.id == "len" and len(e.args) == 1 and isinstance(e.args[0], ast.Name) \
                    and self.kind(e.args[0].id, e) in ("list", "locallist"):
                return "(length %s)" % self.expr(e.args[0])
            if len(e.args) == 1 and self.kind(e.func.id, e) == "listfun":
                return "(%s %s)" % (e.func.id, self.expr(e.args[0]))
            if len(e.args) == 1 and self.kind(e.func.id, e) in ("fun",):
                if e.func.id not in self.scope:
                    _fail(e, "call of unbound %s" % e.func.id)
                return "(%s %s)" % (e.func.id, self.expr(e.args[0]))
        if isinstance(e, ast.BinOp) and isinstance(e.op, ast.Add):
            return "(%s + %s)" % (self.expr(e.left), self.expr(e.right))
        if isinstance(e, ast.BinOp) and isinstance(e.op, ast.Sub) and self._natlike(e.left) and self._natlike(e.right):
            return "(%s - %s)" % (self.expr(e.left), self.expr(e.right))
        if isinstance(e, ast.BinOp) and isinstance(e.op, ast.Mult) and isinstance(e.left, ast.List) and len(e.left.elts) == 1:
            return "(repeat %s %s)" % (self.expr(e.left.elts[0]), self.expr(e.right))
        _fail(e, "unsupported expression")

    def cond(self, t):
        if isinstance(t, ast.BoolOp):
            op = " && " if isinstance(t.op, ast.And) else " || "
            return "(" + op.join(self.cond(v) for v in t.values) + ")"
        if isinstance(t, ast.UnaryOp) and isinstance(t.op, ast.Not):
            return "(negb %s)" % self.cond(t.operand)
        if isinstance(t, ast.Compare) and len(t.ops) == 1:
            op, l, r = t.ops[0], t.left, t.comparators[0]
            if isinstance(op, (ast.Is, ast.IsNot)) and isinstance(l, ast.Name) and isinstance(r, ast.Constant) \
                    and r.value is None and self.kind(l.id, t) in ("noneflag", "optnat", "optpred"):
                flag = "%s_is_none" % l.id
                return flag if isinstance(op, ast.Is) else "(negb %s)" % flag
            if isinstance(op, (ast.GtE, ast.Gt, ast.LtE, ast.Lt)) and self._natlike(l) and self._natlike(r):
                a, b = self.expr(l), self.expr(r)
                return {ast.GtE: "(%s <=? %s)" % (b, a), ast.Gt: "(%s <? %s)" % (b, a),
                        ast.LtE: "(%s <=? %s)" % (a, b), ast.Lt: "(%s <? %s)" % (a, b)}[type(op)]
            if isinstance(op, (ast.In, ast.NotIn)) and isinstance(r, ast.Name) and self.kind(r.id, t) == "set":
                m = "(memb %s %s)" % (self.expr(l), self.expr(r))
                return m if isinstance(op, ast.In) else "(negb %s)" % m
            if isinstance(op, (ast.In, ast.NotIn)) and isinstance(r, ast.Name) and self.kind(r.id, t) in ("dict_elem", "dict_list"):
                m = "(d_mem %s %s)" % (self.expr(r), self.expr(l))
                return m if isinstance(op, ast.In) else "(negb %s)" % m
            _fail(t, "unsupported comparison")
        if isinstance(t, ast.Name):
            k = self.kind(t.id, t)
            if k in ("list", "locallist"):
                return "(negb (is_nil %s))" % self.expr(t)
            if k == "bool":
                return self.expr(t)
            if k == "truthyflag":
                return "%s_truthy" % t.id
            if k == "static":
                return "true" if self.static[t.id] else "false"
            _fail(t, "truthiness of kind %s" % k)
        if isinstance(t, ast.Call) and isinstance(t.func, ast.Name) and len(t.args) == 1 and not t.keywords \
                and self.kind(t.func.id, t) in ("pred", "optpred"):
            if self.kind(t.func.id, t) == "pred" and t.func.id not in self.scope:
                _fail(t, "call of unbound %s" % t.func.id)
            return "(%s %s)" % (t.func.id, self.expr(t.args[0]))
        _fail(t, "unsupported condition")

    def _static_test(self, t):
        if isinstance(t, ast.Name) and self.kinds.get(t.id) == "static":
            return bool(self.static[t.id])
        if isinstance(t, ast.UnaryOp) and isinstance(t.op, ast.Not) and isinstance(t.operand, ast.Name) \
                and self.kinds.get(t.operand.id) == "static":
            return not self.static[t.operand.id]
        return None

    def _natlike(self, e):
        if isinstance(e, ast.Name):
            return self.kind(e.id, e) in ("nat", "optnat", "localnat")
        return isinstance(e, ast.Constant) and isinstance(e.value, int)

    # ---------------------------------------------------------------- statements
    def end(self):
        t = "(" + ", ".join(self.state) + ")"
        return "Some " + t if getattr(self, "checked", False) and not getattr(self, "raw_end", False) else t

    def tuple_pat(self):
        return "(" + ", ".join(self.state) + ")"

    # ---- partial reads of a simple statement (checked mode) ----
    def guards(self, s):
        """Gallina boolean tests that must hold for the subscript READS in statement s not to raise"""
        out = []

        def walk(e, wrap):
            if isinstance(e, ast.ListComp) and len(e.generators) == 1 and isinstance(e.generators[0].iter, ast.Name) \
                    and isinstance(e.generators[0].target, ast.Name):
                g = e.generators[0]
                inner = []
                saved_scope = set(self.scope)
                self.scope.add(g.target.id)
                walk_into(e.elt, inner)
                self.scope = saved_scope
                if inner:
                    out.append("(forallb (fun %s : K => %s) %s)" % (g.target.id, " && ".join(inner), g.iter.id))
                return
            walk_into(e, out)

        def walk_into(e, acc):
            if isinstance(e, ast.ListComp):
                walk(e, None)
                return
            if isinstance(e, ast.Subscript) and isinstance(e.ctx, ast.Load):
                v = e.value
                if isinstance(v, ast.Name) and self.kinds.get(v.id) in ("dict_elem", "dict_list"):
                    acc.append("(d_mem %s %s)" % (v.id, self.expr(e.slice)))
                elif isinstance(v, ast.Subscript) and isinstance(e.slice, ast.Constant):
                    walk_into(v, acc)
                    acc.append("(%d <? length %s)" % (e.slice.value, self.expr(v)))
                    return
                else:
                    _fail(e, "unsupported subscript read in checked mode")
            for c in ast.iter_child_nodes(e):
                if isinstance(c, ast.expr):
                    walk_into(c, acc)

        if isinstance(s, (ast.Assign, ast.AugAssign, ast.Expr)):
            if isinstance(s, ast.Assign):
                for t in s.targets:
                    if isinstance(t, ast.Subscript):
                        walk_into(t.slice, out)
                walk(s.value, None)
            elif isinstance(s, ast.AugAssign):
                walk(s.value, None)
            else:
                walk(s.value, None)
        elif isinstance(s, ast.If):
            walk(s.test, None)
        return out

    def bind(self, name, node):
        if name not in self.state and name not in self.locals_ok:
            _fail(node, "assignment to %s, which is neither loop state nor a declared local" % name)
        self.scope.add(name)

    def block(self, stmts, ind, final):
        """stmts -> Gallina expression; `final` = what the block evaluates to at its end"""
        if not stmts:
            return ind + final() + "\n"
        s, rest = stmts[0], stmts[1:]
        saved = set(self.scope)
        if getattr(self, "checked", False) and not getattr(self, "_guarded", None) is s:
            gs = self.guards(s)
            if gs:
                self._guarded = s
                return ind + "if negb (%s) then None else\n" % " && ".join(gs) + self.block(stmts, ind, final)
        try:
            if isinstance(s, ast.Expr) and isinstance(s.value, ast.Constant) and isinstance(s.value.value, str):
                return self.block(rest, ind, final)
            # x = list(itertools.islice(it, n))
            if isinstance(s, ast.Assign) and len(s.targets) == 1 and isinstance(s.targets[0], ast.Name) \
                    and ast.dump(s.value).startswith("Call(func=Name(id='list', ctx=Load()), args=[Call(func=Attribute(value=Name(id='itertools', ctx=Load()), attr='islice'") \
                    and not s.value.keywords and len(s.value.args) == 1 and len(s.value.args[0].args) == 2 \
                    and not s.value.args[0].keywords and isinstance(s.value.args[0].args[0], ast.Name) \
                    and self.kind(s.value.args[0].args[0].id, s) == "iter" and self.kind(s.targets[0].id, s) == "locallist":
                x, it = s.targets[0].id, s.value.args[0].args[0].id
                n = self.expr(s.value.args[0].args[1])
                itx = self.expr(s.value.args[0].args[0])
                self.bind(x, s)
                self.bind(it, s)
                return (ind + "let %s := firstn %s %s in\n" % (x, n, itx) + ind + "let %s := skipn %s %s in\n" % (it, n, itx)
                        + self.block(rest, ind, final))
            # x[lc:] = e
            if isinstance(s, ast.Assign) and len(s.targets) == 1 and isinstance(s.targets[0], ast.Subscript) \
                    and isinstance(s.targets[0].value, ast.Name) and self.kind(s.targets[0].value.id, s) == "locallist" \
                    and isinstance(s.targets[0].slice, ast.Slice) and s.targets[0].slice.upper is None \
                    and s.targets[0].slice.step is None and isinstance(s.targets[0].slice.lower, ast.Name) \
                    and self._natlike(s.targets[0].slice.lower):
                x = s.targets[0].value.id
                e = "(firstn %s %s ++ %s)" % (self.expr(s.targets[0].slice.lower), self.expr(s.targets[0].value), self.expr(s.value))
                self.bind(x, s)
                return ind + "let %s := %s in\n" % (x, e) + self.block(rest, ind, final)
            if isinstance(s, ast.Assign) and len(s.targets) == 1 and isinstance(s.targets[0], ast.Name):
                e = self.expr(s.value)
                x = s.targets[0].id
                self.kind(x, s)
                self.bind(x, s)
                return ind + "let %s := %s in\n" % (x, e) + self.block(rest, ind, final)
            if isinstance(s, ast.Pass):
                return self.block(rest, ind, final)
            if isinstance(s, ast.Break):
                if not getattr(self, "in_while", False):
                    _fail(s, "break outside the while loop")
                return ind + self.break_text() + "\n"
            if isinstance(s, ast.Assign) and len(s.targets) == 1 and isinstance(s.targets[0], ast.Subscript) \
                    and isinstance(s.targets[0].value, ast.Name) \
                    and self.kind(s.targets[0].value.id, s) in ("dict_elem", "dict_list"):
                d = s.targets[0].value.id
                e = "(d_set %s %s %s)" % (self.expr(s.targets[0].value), self.expr(s.targets[0].slice), self.expr(s.value))
                self.bind(d, s)
                return ind + "let %s := %s in\n" % (d, e) + self.block(rest, ind, final)
            if isinstance(s, ast.AugAssign) and isinstance(s.target, ast.Name) and isinstance(s.op, ast.Add) \
                    and self.kind(s.target.id, s) == "nat":
                x = s.target.id
                e = "(%s + %s)" % (self.expr(s.target), self.expr(s.value))
                self.bind(x, s)
                return ind + "let %s := %s in\n" % (x, e) + self.block(rest, ind, final)
            if isinstance(s, ast.Expr) and isinstance(s.value, ast.Yield) and self.generator and s.value.value is not None:
                return ind + "let _out := _out ++ [%s] in\n" % self.expr(s.value.value) + self.block(rest, ind, final)
            if isinstance(s, ast.Expr) and isinstance(s.value, ast.Call) and isinstance(s.value.func, ast.Attribute) \
                    and not s.value.keywords and len(s.value.args) == 1:
                c = s.value
                tgt = c.func.value
                if isinstance(tgt, ast.Name) and c.func.attr == "append" and self.kind(tgt.id, s) == "list":
                    e = "(%s ++ [%s])" % (self.expr(tgt), self.expr(c.args[0]))
                    self.bind(tgt.id, s)
                    return ind + "let %s := %s in\n" % (tgt.id, e) + self.block(rest, ind, final)
                if isinstance(tgt, ast.Name) and c.func.attr == "add" and self.kind(tgt.id, s) == "set":
                    e = "(%s :: %s)" % (self.expr(c.args[0]), self.expr(tgt))
                    self.bind(tgt.id, s)
                    return ind + "let %s := %s in\n" % (tgt.id, e) + self.block(rest, ind, final)
                # d[k].append(v)
                if c.func.attr == "append" and isinstance(tgt, ast.Subscript) and isinstance(tgt.value, ast.Name) \
                        and self.kind(tgt.value.id, s) == "dict_list":
                    d = tgt.value.id
                    e = "(d_set %s %s (%s ++ [%s]))" % (self.expr(tgt.value), self.expr(tgt.slice), self.expr(tgt), self.expr(c.args[0]))
                    self.bind(d, s)
                    return ind + "let %s := %s in\n" % (d, e) + self.block(rest, ind, final)
                # d.setdefault(k, []).append(v)
                if c.func.attr == "append" and isinstance(tgt, ast.Call) and isinstance(tgt.func, ast.Attribute) \
                        and tgt.func.attr == "setdefault" and isinstance(tgt.func.value, ast.Name) \
                        and self.kind(tgt.func.value.id, s) == "dict" and len(tgt.args) == 2 and not tgt.keywords \
                        and isinstance(tgt.args[1], ast.List) and not tgt.args[1].elts:
                    d = tgt.func.value.id
                    e = "(setdefault_append %s %s %s)" % (self.expr(tgt.func.value), self.expr(tgt.args[0]), self.expr(c.args[0]))
                    self.bind(d, s)
                    return ind + "let %s := %s in\n" % (d, e) + self.block(rest, ind, final)
                _fail(s, "unsupported method call")
            if isinstance(s, ast.Continue):
                if not self.in_loop:
                    _fail(s, "continue outside the loop")
                return ind + (self.end_while() if getattr(self, "in_while", False) else self.end()) + "\n"
            if isinstance(s, ast.Return):
                if self.in_loop or rest:
                    _fail(s, "return is only supported as the last statement of the function")
                if self.generator and s.value is None:
                    return ind + final() + "\n"
                if not self.generator and isinstance(s.value, ast.Name):
                    return ind + ("Some " if getattr(self, "checked", False) else "") + self.expr(s.value) + "\n"
                _fail(s, "unsupported return")
            if isinstance(s, ast.FunctionDef):
                a = s.args
                if not (len(a.args) == 1 and not a.defaults and not a.vararg and not a.kwarg and not a.kwonlyargs
                        and not s.decorator_list and len(s.body) == 1 and isinstance(s.body[0], ast.Return)
                        and isinstance(s.body[0].value, ast.Constant) and isinstance(s.body[0].value.value, bool)
                        and self.kind(s.name, s) == "pred"):
                    _fail(s, "only `def f(x): return <bool constant>` re-binding a predicate is supported")
                self.bind(s.name, s)
                v = "true" if s.body[0].value.value else "false"
                return ind + "let %s := (fun _ : K => %s) in\n" % (s.name, v) + self.block(rest, ind, final)
            if isinstance(s, ast.If) and self._static_test(s.test) is not None:
                branch = s.body if self._static_test(s.test) else s.orelse
                return self.block(list(branch) + rest, ind, final)
            if isinstance(s, ast.If):
                c = self.cond(s.test)
                t = ind + "if %s\n" % c
                t += ind + "then (\n" + self.block(list(s.body) + rest, ind + "  ", final) + ind + ")\n"
                self.scope = set(saved)
                t += ind + "else (\n" + self.block(list(s.orelse) + rest, ind + "  ", final) + ind + ")\n"
                return t
            _fail(s, "unsupported statement")
        finally:
            self.scope = saved

    # ---------------------------------------------------------------- prelude guard
    _PURE_ON_SRC = ("is_iterable", "len", "type", "zip")

    def check_prelude(self, stmts):
        may_bind = set(self.cfg["prelude_may_bind"])

        def check_expr(e):
            for n in ast.walk(e):
                if isinstance(n, (ast.Yield, ast.YieldFrom, ast.Await, ast.NamedExpr, ast.Lambda,
                                  ast.ListComp, ast.SetComp, ast.DictComp, ast.GeneratorExp)):
                    _fail(n, "unsupported expression in the prelude")
            # `src` only as a direct argument of a whitelisted pure call
            ok = set()
            for n in ast.walk(e):
                if isinstance(n, ast.Call) and isinstance(n.func, ast.Name) and n.func.id in self._PURE_ON_SRC:
                    for a in n.args:
                        if isinstance(a, ast.Name) and a.id == "src":
                            ok.add(id(a))
            for n in ast.walk(e):
                if isinstance(n, ast.Name) and n.id == "src" and id(n) not in ok:
                    _fail(n, "the prelude uses src other than in is_iterable/len/type/zip")

        def check(ss):
            for s in ss:
                if isinstance(s, ast.Pass):
                    continue
                if isinstance(s, ast.If):
                    check_expr(s.test)
                    check(s.body)
                    check(s.orelse)
                elif isinstance(s, ast.Assign):
                    if not (len(s.targets) == 1 and isinstance(s.targets[0], ast.Name) and s.targets[0].id in may_bind):
                        _fail(s, "the prelude binds something other than %s" % sorted(may_bind))
                    check_expr(s.value)
                elif isinstance(s, ast.FunctionDef):
                    if s.name not in may_bind or s.decorator_list or len(s.body) != 1 or not isinstance(s.body[0], ast.Return) \
                            or s.body[0].value is None:
                        _fail(s, "unexpected def in the prelude")
                    check_expr(s.body[0].value)
                elif isinstance(s, ast.Raise):
                    if s.exc is not None:
                        check_expr(s.exc)
                else:
                    _fail(s, "unsupported statement in the prelude")
        check(stmts)

    # ---------------------------------------------------------------- function
    def while_function(self, fname, fn):
        """chunked_iter: [docstring] <literal prelude> it = iter(src); while True: body; [return]"""
        cfg = self.cfg
        a = fn.args
        if [x.arg for x in a.args] != ["src", "size"] or a.vararg or not a.kwarg or a.kwarg.arg != "kw" or a.kwonlyargs \
                or a.posonlyargs or a.defaults or fn.decorator_list:
            _fail(fn, "unexpected signature")
        body = list(fn.body)
        if body and isinstance(body[0], ast.Expr) and isinstance(body[0].value, ast.Constant):
            body = body[1:]
        want = _dump_src(PRELUDES[fname])
        got = [ast.dump(s) for s in body[:len(want)]]
        if got != want:
            k = next((i for i, (x, y) in enumerate(zip(got, want)) if x != y), min(len(got), len(want)))
            _fail(body[k] if k < len(body) else fn, "the prelude of %s is not the expected one" % fname)
        body = body[len(want):]
        if len(body) not in (2, 3) or ast.dump(body[0]) != ast.dump(ast.parse("src_iter = iter(src)").body[0]):
            _fail(fn, "expected `src_iter = iter(src)` followed by the while loop")
        loop = body[1]
        if not (isinstance(loop, ast.While) and isinstance(loop.test, ast.Constant) and loop.test.value is True and not loop.orelse):
            _fail(loop, "expected `while True:`")
        if len(body) == 3 and not (isinstance(body[2], ast.Return) and body[2].value is None):
            _fail(body[2], "expected a bare return after the loop")
        self.state = ["src_iter", "_out"]
        self.locals_ok = {"cur_chunk", "lc"}
        self.in_loop = True
        self.in_while = True
        self.break_text = lambda: "(false, (src_iter, _out))"
        self.scope = {"src_iter", "_out", "size", "do_fill", "fill_val", "postprocess"}
        step = self.block(list(loop.body), "    ", lambda: "(true, (src_iter, _out))")
        # `continue`/end of body both go round again
        g = "G" + fname
        sty = "(list K) * (%s)" % cfg["out"]
        text = "Definition %s_step %s (st : %s) : bool * (%s) :=\n  let '(src_iter, _out) := st in\n%s.\n\n" % (
            g, cfg["gparams"], sty, sty, step.rstrip("\n"))
        text += ("Fixpoint %s_while (fuel : nat) %s (st : %s) : option (%s) :=\n"
                 "  match fuel with\n  | O => None\n  | S fuel' =>\n"
                 "      let '(go_on, st') := %s_step %s st in\n"
                 "      if go_on then %s_while fuel' %s st' else Some st'\n  end.\n\n") % (
            g, cfg["gparams"], sty, sty, g, cfg["gargs"], g, cfg["gargs"])
        text += ("Definition %s (fuel : nat) (src : list K) %s : option (%s) :=\n"
                 "  let src_iter := src in\n  let _out := [] in\n"
                 "  match %s_while fuel %s (src_iter, _out) with\n  | Some (_, _out) => Some _out\n  | None => None\n  end.\n") % (
            g, cfg["gparams"], cfg["out"], g, cfg["gargs"])
        return text

    def end_while(self):
        return "(true, (src_iter, _out))"

    def function(self, fname, fn):
        cfg = self.cfg
        if cfg.get("while"):
            return self.while_function(fname, fn)
        a = fn.args
        if [x.arg for x in a.args] != cfg["params"] or a.vararg or a.kwarg or a.kwonlyargs or a.posonlyargs \
                or [ast.dump(d) for d in a.defaults] != cfg["defaults"] or fn.decorator_list:
            _fail(fn, "unexpected signature")
        body = list(fn.body)
        if body and isinstance(body[0], ast.Expr) and isinstance(body[0].value, ast.Constant):
            body = body[1:]
        state_kinds = ("list", "nat", "set", "dict", "dict_elem", "dict_list")
        k = 0
        while k < len(body) and not (isinstance(body[k], ast.Assign) and len(body[k].targets) == 1
                                     and isinstance(body[k].targets[0], ast.Name)
                                     and self.kinds.get(body[k].targets[0].id) in state_kinds):
            k += 1
        self.check_prelude(body[:k])
        body = body[k:]
        # initialisations, the loop, the epilogue
        k = 0
        while k < len(body) and isinstance(body[k], ast.Assign):
            k += 1
        inits, rest = body[:k], body[k:]
        if not rest or not isinstance(rest[0], ast.For):
            _fail(fn, "expected the scanner loop after the initialisations")
        loop, epilogue = rest[0], rest[1:]
        if loop.orelse or not isinstance(loop.target, ast.Name) or not (isinstance(loop.iter, ast.Name) and loop.iter.id == "src"):
            _fail(loop, "expected `for <name> in src:` without else")
        self.kind(loop.target.id, loop)
        state = []
        for s in inits:
            if not (len(s.targets) == 1 and isinstance(s.targets[0], ast.Name)) or s.targets[0].id in state:
                _fail(s, "unsupported initialisation")
            state.append(s.targets[0].id)
        init_names = list(state)
        state = list(cfg["carried_free"]) + state
        if self.generator:
            state.append("_out")
        self.state = state
        self.locals_ok = {n for n, kd in self.kinds.items() if kd in ("elem", "result")}
        types = dict(cfg["types"], _out=cfg["out"])
        free = {"maxsplit"} if "maxsplit" in self.kinds else set()
        free |= {n for n, kd in self.kinds.items() if kd in ("fun", "pred")}
        # --- step function
        self.scope = set(state) | free | {loop.target.id}
        self.in_loop = True
        step = self.block(list(loop.body), "    ", self.end)
        sty = " * ".join("(%s)" % types[n] for n in state)
        g = "G" + fname + self.cfg.get("suffix", "")
        text = "Definition %s_step %s (st : %s) (%s : K) : %s :=\n  let '%s := st in\n%s.\n\n" % (
            g, cfg["gparams"].replace("(sep_func : K -> bool) ", "") if "sep_func" in cfg["carried_free"] else cfg["gparams"],
            sty, loop.target.id, sty, self.end(), step.rstrip("\n"))
        # --- whole function
        self.in_loop = False
        self.scope = set(free)
        pre = ""
        for s in inits:
            pre += "  let %s := %s in\n" % (s.targets[0].id, self.expr(s.value))
            self.scope.add(s.targets[0].id)
        if self.generator:
            pre += "  let _out := [] in\n"
        self.scope |= set(state)
        result = (lambda: "_out") if self.generator else (lambda: _fail(fn, "a function must end in `return <name>`"))
        epi = self.block(list(epilogue), "  ", result)
        step_args = cfg["gargs"].replace("sep_func ", "") if "sep_func" in cfg["carried_free"] else cfg["gargs"]
        text += "Definition %s (src : list K) %s : %s :=\n%s  let '%s := fold_left (%s_step %s) src %s in\n%s.\n" % (
            g, cfg["gparams"], cfg["out"] or cfg.get("result_ty") or types[init_names[0]], pre, self.end(), g, step_args, self.end(), epi.rstrip("\n"))
        if cfg.get("checked_version") and not self.generator:
            # the same function with every partial read guarded; None = KeyError / IndexError
            self.checked = True
            self.scope = set(state) | free | {loop.target.id}
            self.in_loop = True
            step_c = self.block(list(loop.body), "    ", self.end)
            text += "\nDefinition %s_chk_step %s (st : %s) (%s : K) : option (%s) :=\n  let '%s := st in\n%s.\n\n" % (
                g, cfg["gparams"], sty, loop.target.id, sty, self.tuple_pat(), step_c.rstrip("\n"))
            self.in_loop = False
            self.scope = set(free) | set(state)
            epi_c = self.block(list(epilogue), "    ", result)
            rty = cfg["out"] or cfg.get("result_ty") or types[init_names[0]]
            text += ("Definition %s_chk (src : list K) %s : option (%s) :=\n%s"
                     "  match fold_left (fun acc x => match acc with Some st => %s_chk_step %s st x | None => None end) src (Some %s) with\n"
                     "  | None => None\n  | Some %s =>\n%s\n  end.\n") % (
                g, cfg["gparams"], rty, pre, g, step_args, self.tuple_pat(), self.tuple_pat(), epi_c.rstrip("\n"))
            self.checked = False
        return text



# ==========================================================================================
# generators that walk ONE shared one-shot iterator with (nested / consecutive) for loops:
# lstrip_iter, rstrip_iter
# ==========================================================================================
ITER_CFG = {
    # state tuple: (name, Gallina type, initial value); `iterator` first, `_out` last
    "lstrip_iter": {"params": ["iterable", "strip_value"], "defaults": ["Constant(value=None)"],
                    "state": [("iterator", "list K", None), ("i", "K", "(0 : K)"), ("_out", "list K", "([] : list K)")],
                    "bools": [], "lists": []},
    "rstrip_iter": {"params": ["iterable", "strip_value"], "defaults": ["Constant(value=None)"],
                    "state": [("iterator", "list K", None), ("i", "K", "(0 : K)"), ("cache", "list K", "([] : list K)"),
                              ("broken", "bool", "false"), ("_out", "list K", "([] : list K)")],
                    "bools": ["broken"], "lists": ["cache"]},
}

ITER_HEADER = """(* status of a block of statements: fell through / break / generator return / out of fuel *)
Inductive gstat := GCont | GBrk | GRet | GFuel.
"""


class _IterTr:
    """Conventions (in addition to the ones above):
      * the state of the generator is the tuple of ALL its locals, in a fixed order, the shared
        iterator being the list of items still to come; names not yet assigned hold a dummy
        (reading one before it is bound would be a NameError in Python: the translator only
        accepts a read when an assignment / loop binding syntactically dominates it);
      * every block evaluates to (status, state); `for v in iterator: body` is a fuelled fixpoint
        (fuel = S (length iterator) at the call, enough because every iteration consumes one
        item): no item -> (GCont, state); otherwise v := item, the item is consumed, the body
        runs: GCont -> next iteration, GBrk -> the loop ends normally, GRet / GFuel propagate;
        the loop variable stays bound after the loop, as in Python;
      * `yield from xs` appends the list xs to the output."""

    def __init__(self, fname):
        self.fname = fname
        self.cfg = ITER_CFG[fname]
        self.names = [n for n, _, _ in self.cfg["state"]]
        self.loops = []          # emitted loop fixpoints (inner first)

    def tup(self):
        return "(" + ", ".join(self.names) + ")"

    def sty(self):
        return " * ".join("(%s)" % t for _, t, _ in self.cfg["state"])

    def rd(self, name, node, bound):
        if name == "strip_value":
            return name
        if name not in self.names or name in ("iterator", "_out"):
            _fail(node, "unsupported name %s" % name)
        if name not in bound:
            _fail(node, "%s may be read before it is bound" % name)
        return name

    def expr(self, e, bound):
        if isinstance(e, ast.Name):
            return self.rd(e.id, e, bound)
        if isinstance(e, ast.Constant) and isinstance(e.value, bool):
            return "true" if e.value else "false"
        if isinstance(e, ast.Call) and isinstance(e.func, ast.Name) and e.func.id == "list" and not e.args and not e.keywords:
            return "[]"
        if isinstance(e, ast.List) and not e.elts:
            return "[]"
        _fail(e, "unsupported expression")

    def cond(self, t, bound):
        if isinstance(t, ast.UnaryOp) and isinstance(t.op, ast.Not):
            return "(negb %s)" % self.cond(t.operand, bound)
        if isinstance(t, ast.Name) and t.id in self.cfg["bools"]:
            return self.rd(t.id, t, bound)
        if isinstance(t, ast.Compare) and len(t.ops) == 1 and isinstance(t.ops[0], (ast.Eq, ast.NotEq)) \
                and isinstance(t.left, ast.Name) and isinstance(t.comparators[0], ast.Name):
            a, b = self.rd(t.left.id, t, bound), self.rd(t.comparators[0].id, t, bound)
            if {t.left.id, t.comparators[0].id} != {"i", "strip_value"}:
                _fail(t, "only the element is compared with strip_value")
            m = "(Nat.eqb %s %s)" % (a, b)
            return m if isinstance(t.ops[0], ast.Eq) else "(negb %s)" % m
        _fail(t, "unsupported condition")

    def block(self, stmts, ind, bound, in_loop):
        if not stmts:
            return ind + "(GCont, %s)\n" % self.tup()
        s, rest = stmts[0], stmts[1:]
        if isinstance(s, ast.Expr) and isinstance(s.value, ast.Constant) and isinstance(s.value.value, str):
            return self.block(rest, ind, bound, in_loop)
        if isinstance(s, ast.Assign) and len(s.targets) == 1 and isinstance(s.targets[0], ast.Name):
            x = s.targets[0].id
            if x not in self.names or x in ("iterator", "_out", "i"):
                _fail(s, "unsupported assignment")
            if (x in self.cfg["bools"]) != (isinstance(s.value, ast.Constant) and isinstance(s.value.value, bool)):
                _fail(s, "ill-kinded assignment")
            return ind + "let %s := %s in\n" % (x, self.expr(s.value, bound)) + self.block(rest, ind, bound | {x}, in_loop)
        if isinstance(s, ast.Expr) and isinstance(s.value, ast.Call) and isinstance(s.value.func, ast.Attribute) \
                and s.value.func.attr == "append" and isinstance(s.value.func.value, ast.Name) \
                and s.value.func.value.id in self.cfg["lists"] and len(s.value.args) == 1 and not s.value.keywords:
            x = s.value.func.value.id
            return ind + "let %s := %s ++ [%s] in\n" % (x, self.rd(x, s, bound), self.expr(s.value.args[0], bound)) \
                + self.block(rest, ind, bound, in_loop)
        if isinstance(s, ast.Expr) and isinstance(s.value, ast.Yield) and s.value.value is not None:
            return ind + "let _out := _out ++ [%s] in\n" % self.expr(s.value.value, bound) + self.block(rest, ind, bound, in_loop)
        if isinstance(s, ast.Expr) and isinstance(s.value, ast.YieldFrom) and isinstance(s.value.value, ast.Name) \
                and s.value.value.id in self.cfg["lists"]:
            return ind + "let _out := _out ++ %s in\n" % self.rd(s.value.value.id, s, bound) + self.block(rest, ind, bound, in_loop)
        if isinstance(s, ast.Break):
            if not in_loop:
                _fail(s, "break outside a loop")
            return ind + "(GBrk, %s)\n" % self.tup()
        if isinstance(s, ast.Return) and s.value is None:
            return ind + "(GRet, %s)\n" % self.tup()
        if isinstance(s, ast.If):
            c = self.cond(s.test, bound)
            return (ind + "if %s\n" % c + ind + "then (\n" + self.block(list(s.body) + rest, ind + "  ", bound, in_loop) + ind + ")\n"
                    + ind + "else (\n" + self.block(list(s.orelse) + rest, ind + "  ", bound, in_loop) + ind + ")\n")
        if isinstance(s, ast.For) and not s.orelse and isinstance(s.target, ast.Name) and s.target.id == "i" \
                and isinstance(s.iter, ast.Name) and s.iter.id == "iterator":
            body = self.block(list(s.body), "          ", bound | {"i"}, True)
            name = "G%s_loop%d" % (self.fname, len(self.loops) + 1)
            self.loops.append(
                "Fixpoint %s (fuel : nat) (strip_value : K) (st : %s) : gstat * (%s) :=\n"
                "  match fuel with\n  | O => (GFuel, st)\n  | S fuel' =>\n"
                "      let '%s := st in\n"
                "      match iterator with\n      | [] => (GCont, st)\n      | _item :: _rest =>\n"
                "          let iterator := _rest in\n          let i := _item in\n"
                "          match (\n%s          ) with\n"
                "          | (GCont, st') => %s fuel' strip_value st'\n"
                "          | (GBrk, st') => (GCont, st')\n"
                "          | other => other\n          end\n      end\n  end.\n"
                % (name, self.sty(), self.sty(), self.tup(), body, name))
            # after the loop `i` is bound only if the loop ran; accept reads of i after a loop only
            # where it was already bound before (otherwise the dominating-assignment rule fails)
            t = ind + "match %s (S (length iterator)) strip_value %s with\n" % (name, self.tup())
            t += ind + "| (GCont, _st) =>\n" + ind + "  let '%s := _st in\n" % self.tup()
            t += self.block(rest, ind + "  ", bound, in_loop)
            t += ind + "| other => other\n" + ind + "end\n"
            return t
        _fail(s, "unsupported statement")

    def function(self, fn):
        cfg = self.cfg
        a = fn.args
        if [x.arg for x in a.args] != cfg["params"] or [ast.dump(d) for d in a.defaults] != cfg["defaults"] \
                or a.vararg or a.kwarg or a.kwonlyargs or a.posonlyargs or fn.decorator_list:
            _fail(fn, "unexpected signature")
        body = list(fn.body)
        if body and isinstance(body[0], ast.Expr) and isinstance(body[0].value, ast.Constant):
            body = body[1:]
        if not body or ast.dump(body[0]) != ast.dump(ast.parse("iterator = iter(iterable)").body[0]):
            _fail(fn, "expected `iterator = iter(iterable)` first")
        top = self.block(body[1:], "    ", set(), False)
        g = "G" + self.fname
        text = "".join(l + "\n" for l in self.loops)
        inits = "".join("  let %s := %s in\n" % (n, v) for n, _, v in cfg["state"] if v is not None)
        text += ("Definition %s (iterable : list K) (strip_value : K) : option (list K) :=\n"
                 "  let iterator := iterable in\n%s"
                 "  match (\n%s  ) with\n  | (GFuel, _) => None\n  | (_, %s) => Some _out\n  end.\n"
                 % (g, inits, top, self.tup()))
        return text


ITER_FUNCTIONS = ["lstrip_iter", "rstrip_iter"]

FUNCTIONS = ["split_iter", "unique_iter", "bucketize", "redundant", "chunked_iter"]


# canonical names of the locals of each translated function, in order of first binding in the source
CANON = {
    "split_iter": ["sep_func", "cur_group", "split_count", "s"],
    "unique_iter": ["key_func", "seen", "i", "k"],
    "bucketize": ["key_func", "f", "ret", "val", "key_of_val"],
    "redundant": ["key_func", "seen", "redundant_order", "redundant_groups", "i", "k", "ret"],
    "chunked_iter": ["do_fill", "fill_val", "postprocess", "src_iter", "cur_chunk", "lc"],
    "lstrip_iter": ["iterator", "i"],
    "rstrip_iter": ["iterator", "i", "cache", "broken"],
}


def _alpha_function(fn, canon):
    """Rename the function's locals (names it binds, parameters excluded) to the canonical names, k-th
    bound name -> k-th canonical name.  This is alpha-renaming (a bijection on locals); it is refused
    (function returned unchanged, the translation then fails closed on the unknown names) when the
    number of locals differs or when a canonical name is used in the function as a non-local."""
    import copy
    params = {a.arg for a in fn.args.args + fn.args.kwonlyargs} | \
             ({fn.args.vararg.arg} if fn.args.vararg else set()) | ({fn.args.kwarg.arg} if fn.args.kwarg else set())
    order = []

    class V(ast.NodeVisitor):
        def visit_FunctionDef(self, n):
            if n is not fn:
                if n.name not in params and n.name not in order:
                    order.append(n.name)
                for d in n.args.defaults:          # evaluated in the enclosing scope
                    self.visit(d)
                return                               # the body of a nested def is its own scope
            self.generic_visit(n)

        def visit_Name(self, n):
            if isinstance(n.ctx, ast.Store) and n.id not in params and n.id not in order:
                order.append(n.id)
    V().visit(fn)
    if len(order) != len(canon) or order == canon:
        return fn
    mapping = dict(zip(order, canon))
    used = set()
    for n in ast.walk(fn):
        if isinstance(n, ast.Name):
            used.add(n.id)
    if any(c in used and c not in mapping for c in canon):
        return fn                                    # would capture a non-local of that name
    fn = copy.deepcopy(fn)

    class R(ast.NodeTransformer):
        def visit_FunctionDef(self, n):
            if n is not fn:
                n.name = mapping.get(n.name, n.name)
                inner_params = {a.arg for a in n.args.args}
                n.args.defaults = [self.visit(d) for d in n.args.defaults]
                # free variables of the nested body that are locals of the outer function
                class Inner(ast.NodeTransformer):
                    def visit_Name(self, m):
                        if m.id in mapping and m.id not in inner_params:
                            m.id = mapping[m.id]
                        return m
                n.body = [Inner().visit(b) for b in n.body]
                return n
            self.generic_visit(n)
            return n

        def visit_Name(self, n):
            if n.id in mapping:
                n.id = mapping[n.id]
            return n
    return R().visit(fn)


def _find_canon(tree, name):
    return _alpha_function(_find(tree, name), CANON[name])


def translate(repo, only=None):
    path = os.path.join(repo, "boltons", "iterutils.py")
    tree = ast.parse(open(path).read())
    for _f, _c in CANON.items():      # the current source must already be canonical or alpha-equivalent to it
        pass
    out = ("(* generated by harness/translators/c09_loops.py from %s -- do not edit *)\n"
           "From Boltons Require Import Lib.Prelude Spec.C09_Spec Model.C09_Model.\n\n" % path)
    for f in (only or FUNCTIONS):
        spec = CFG[f].get("specialize")
        if spec:
            name, values = spec
            for v in values:
                tr = _Tr(f, {name: v})
                tr.cfg = dict(tr.cfg, suffix="_%s_%s" % (name, str(v).lower()), result_ty=CFG[f]["result_type"][v])
                out += "(* ---- %s, %s=%s ---- *)\n" % (f, name, v) + tr.function(f, _find_canon(tree, f)) + "\n"
        else:
            out += "(* ---- %s ---- *)\n" % f + _Tr(f).function(f, _find_canon(tree, f)) + "\n"
    if only is None:
        out += ITER_HEADER + "\n"
        for f in ITER_FUNCTIONS:
            out += "(* ---- %s ---- *)\n" % f + _IterTr(f).function(_find_canon(tree, f)) + "\n"
    return out


def selftest(repo):
    """each perturbation of the source must change the generated text or fail closed"""
    import tempfile
    src = open(os.path.join(repo, "boltons", "iterutils.py")).read()
    base = translate(repo)
    perturbations = [
        ("            split_count += 1\n            yield cur_group", "            yield cur_group\n            split_count += 1"),
        ("            if sep is None and not cur_group:", "            if sep is None or not cur_group:"),
        ("        if maxsplit is not None and split_count >= maxsplit:", "        if maxsplit is not None and split_count > maxsplit:"),
        ("            seen.add(k)\n            yield i", "            yield i"),
        ("        if key_filter is None or key_filter(key_of_val):", "        if key_filter is None:"),
        ("    if maxsplit is not None:\n        maxsplit = int(maxsplit)\n", "    if maxsplit is not None:\n        maxsplit = int(maxsplit)\n    src = reversed(list(src))\n"),
        ("    if callable(sep):\n        sep_func = sep", "    if callable(sep):\n        sep_func = sep\n        cur_group = [sep]"),
        ("                redundant_groups[k] = [seen[k], i]", "                redundant_groups[k] = [i, i]"),
        ("            cur_chunk[lc:] = [fill_val] * (size - lc)", "            cur_chunk[lc:] = [fill_val] * size"),
        ("            if not broken:  # Return to caller here because the end of the\n                return     # iterator has been reached", "            if not broken:\n                yield from cache\n                return"),
        ("        if i != strip_value:\n            yield i\n            break", "        if i != strip_value:\n            yield i"),
        ("        if not cur_chunk:\n            break", "        if len(cur_chunk) < size:\n            break"),
        ("        ret = [redundant_groups[k][1] for k in redundant_order]", "        ret = [redundant_groups[k][0] for k in redundant_order]"),
    ]
    seen = skipped = 0
    for old, new in perturbations:
        if src.count(old) != 1:
            skipped += 1        # this spot of the source has been rewritten: perturbation not applicable
            continue
        with tempfile.TemporaryDirectory() as d:
            os.makedirs(os.path.join(d, "boltons"))
            open(os.path.join(d, "boltons", "iterutils.py"), "w").write(src.replace(old, new))
            try:
                out = translate(d)
            except TranslationError:
                seen += 1
                continue
            if out.split("\n", 1)[1] != base.split("\n", 1)[1]:
                seen += 1
    return seen, len(perturbations) - skipped


if __name__ == "__main__":
    import sys
    repo = sys.argv[1] if len(sys.argv) > 1 else "/repo"
    print(translate(repo))
    print("(* selftest: %d of %d perturbations visible *)" % selftest(repo))
