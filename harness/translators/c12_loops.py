"""(T) tie for C12: the bodies of the three loops of BufferedSocket (recv_until's `while 1`, recv_size's
`while nxt`, send's `while sbuf[0]`) and the slicing statements after the two receive loops are regenerated as
Gallina text from /repo's CURRENT source (coq/Gen/C12_Src.v) on every run.  Proofs/C12_SrcEq.v proves the
generated iteration steps equal to the hand-written model's iteration (rolling offset arithmetic, `>`/`>=`
boundaries, slices with negative indices, order of buffer update and deadline check).

Dedicated, fail closed: a statement or expression outside the small subset below raises Unsupported, which the
driver reports as a broken tie.

One iteration of a loop is split at its single effect statement `x = <sock>.recv(...)` / `x = <sock>.send(...)`:
  <name>_pre  : the statements before the effect  (state -> IBreak b | IRaise e r | IEffect s)
  <name>_post : the statements after the effect   (state + result of the effect -> IRaise e r | ICont s)
(r = the value the two exception handlers around the loop store into self.rbuf - their shape is checked -, or
the unsent rest sbuf[0] for send)
The parameters of a generated definition are the known variables its text mentions, in a fixed order.
Subset:
  statements : x = e | x += e | a, b = e1, e2 (targets: names, self.rbuf, sbuf[0]) | if/elif/else | break
               | raise <MessageTooLong|ConnectionClosed|socket.timeout>(...) (arguments are messages: ignored)
               | recvd.extend(x) | chunks.append(x) | <sock>.settimeout(...) (no model state: skipped)
               | args = ... / msg = ... (exception message construction: skipped; the names may only be used as
                 raise arguments)
               | the deadline block, recognised as a whole:
                     if timeout:
                         cur_timeout = timeout - (time.time() - start)
                         if cur_timeout <= 0.0:
                             raise socket.timeout()
                         <sock>.settimeout(cur_timeout)
                 emitted as `if timeout then if late then IRaise Timeout else ...` (late := the scripted clock
                 has passed the deadline)
  expressions: integer constants, names, unary -, + and -, one comparison, `not x`, truthiness of a bytes name,
               len(x), x.find(a, b, c), slices x[:e] x[e:] (e may be negative: Python semantics in Lib/C12_Py.v),
               sbuf[0], bytes(e), b''.
"""
import ast
import os
import re


class Unsupported(Exception):
    pass


BYTES_VARS = {"recvd", "nxt", "delimiter", "chunks", "last", "val", "sbuf0", "rbuf", "data", "ret",
              "size_prefix", "consumed", "payload", "trailer"}
INT_VARS = {"offset", "rbuf_offset", "find_offset_start", "maxsize", "len_delimiter", "total_bytes", "size",
            "extra_bytes", "sent", "total_sent"}
BOOL_VARS = {"with_delimiter", "timeout"}
SKIP_ASSIGN = {"args", "msg", "size_read"}
RAISES = {"MessageTooLong": "MessageTooLong", "ConnectionClosed": "ConnectionClosed"}


def dump(n):
    if isinstance(n, list):
        return "[" + ", ".join(ast.dump(x) for x in n) + "]"
    return ast.dump(n)


def is_sock(n):
    """sock | self.sock"""
    return (isinstance(n, ast.Name) and n.id == "sock") or \
        (isinstance(n, ast.Attribute) and n.attr == "sock" and isinstance(n.value, ast.Name) and n.value.id == "self")


def var_of_target(t):
    if isinstance(t, ast.Name):
        return t.id
    if dump(t).startswith("Attribute(value=Attribute(value=Name(id='self', ctx=Load()), attr='bsock', ctx=Load()), attr='rbuf'"):
        return "rbuf"
    if dump(t).startswith("Attribute(value=Name(id='self', ctx=Load()), attr='maxsize'"):
        return "maxsize"
    if isinstance(t, ast.Attribute) and isinstance(t.value, ast.Name) and t.value.id == "self" and t.attr == "rbuf":
        return "rbuf"
    if isinstance(t, ast.Subscript) and isinstance(t.value, ast.Name) and t.value.id == "sbuf" \
            and isinstance(t.slice, ast.Constant) and t.slice.value == 0:
        return "sbuf0"
    raise Unsupported("assignment target %s" % dump(t))


def kind(name):
    if name in BYTES_VARS:
        return "bytes"
    if name in INT_VARS:
        return "int"
    if name in BOOL_VARS:
        return "bool"
    raise Unsupported("variable %s of unknown kind" % name)


class E:
    """Expression translation: returns (text, kind).  Records the free variables (used while not bound)."""
    cur_bound = frozenset()
    local_kinds = None
    alias = None          # source name of the variable receiving the socket call's result -> canonical name

    def kind(self, name):
        """Known variables by name; a fresh local gets the kind of the first value assigned to it."""
        if self.local_kinds and name in self.local_kinds:
            return self.local_kinds[name]
        return kind(name)

    def use(self, name):
        if name not in self.cur_bound and name not in self.free:
            self.free.append(name)

    def expr(self, n):
        if isinstance(n, ast.Constant):
            if type(n.value) is int:
                return ("(%d)%%Z" % n.value, "int")
            if n.value == b"":
                return ("(@nil N)", "bytes")
            if type(n.value) is bytes:
                return ("[" + "; ".join("%d%%N" % c for c in n.value) + "]", "bytes")
            raise Unsupported("constant %r" % (n.value,))
        if isinstance(n, ast.Name):
            nm = (self.alias or {}).get(n.id, n.id)
            self.use(nm)
            return (nm, self.kind(nm))
        if isinstance(n, ast.Attribute) and var_of_target(n) == "rbuf":
            self.use("rbuf")
            return ("rbuf", "bytes")
        if isinstance(n, ast.Attribute) and var_of_target(n) == "maxsize":
            self.use("maxsize")
            return ("maxsize", "int")
        if isinstance(n, ast.Subscript):
            if isinstance(n.slice, ast.Constant):
                self.use(var_of_target(n))
                return (var_of_target(n), "bytes")
            base, k = self.expr(n.value)
            if k != "bytes" or not isinstance(n.slice, ast.Slice) or n.slice.step is not None:
                raise Unsupported("subscript %s" % dump(n))
            lo, hi = n.slice.lower, n.slice.upper
            if lo is None and hi is not None:
                return ("(py_slice_to %s %s)" % (base, self.int(hi)), "bytes")
            if hi is None and lo is not None:
                return ("(py_slice_from %s %s)" % (base, self.int(lo)), "bytes")
            raise Unsupported("slice %s" % dump(n))
        if isinstance(n, ast.UnaryOp) and isinstance(n.op, ast.USub):
            return ("(- %s)" % self.int(n.operand), "int")
        if isinstance(n, ast.BinOp) and isinstance(n.op, (ast.Add, ast.Sub)):
            lt, lk = self.expr(n.left)
            if lk == "bytes" and isinstance(n.op, ast.Add):
                return ("(%s ++ %s)" % (lt, self.bytes(n.right)), "bytes")
            return ("(%s %s %s)" % (self.int(n.left), "+" if isinstance(n.op, ast.Add) else "-", self.int(n.right)), "int")
        if isinstance(n, ast.Call):
            f = n.func
            if isinstance(f, ast.Name) and f.id == "str" and len(n.args) == 1 and not n.keywords:
                # str(n) of a non-negative int: decimal notation (as ASCII bytes: only len() and .encode('ascii') use it)
                return ("(dec (Z.to_nat %s))" % self.int(n.args[0]), "bytes")
            if isinstance(f, ast.Attribute) and f.attr == "encode" and dump(n.args) == "[Constant(value='ascii')]" \
                    and isinstance(f.value, ast.Call) and isinstance(f.value.func, ast.Name) and f.value.func.id == "str":
                return self.expr(f.value)
            if isinstance(f, ast.Name) and f.id == "len" and len(n.args) == 1 and not n.keywords:
                return ("(py_len %s)" % self.bytes(n.args[0]), "int")
            if isinstance(f, ast.Name) and f.id == "bytes" and len(n.args) == 1 and not n.keywords:
                return (self.bytes(n.args[0]), "bytes")
            if isinstance(f, ast.Attribute) and f.attr == "find" and len(n.args) == 3 and not n.keywords:
                return ("(py_find_z %s %s %s %s)" % (self.bytes(n.args[0]), self.bytes(f.value), self.int(n.args[1]),
                                                     self.int(n.args[2])), "int")
        raise Unsupported("expression %s" % dump(n))

    def int(self, n):
        t, k = self.expr(n)
        if k != "int":
            raise Unsupported("integer expected: %s" % dump(n))
        return t

    def bytes(self, n):
        t, k = self.expr(n)
        if k != "bytes":
            raise Unsupported("bytes expected: %s" % dump(n))
        return t

    def test(self, n):
        """Boolean position."""
        if isinstance(n, ast.UnaryOp) and isinstance(n.op, ast.Not):
            return "(negb %s)" % self.test(n.operand)
        if isinstance(n, ast.Compare) and len(n.ops) == 1:
            op = {ast.Eq: "=?", ast.NotEq: "<>?", ast.Gt: ">?", ast.GtE: ">=?", ast.Lt: "<?", ast.LtE: "<=?"}.get(type(n.ops[0]))
            if op is None:
                raise Unsupported("comparison %s" % dump(n))
            lt, lk = self.expr(n.left)
            if lk == "bytes" and op in ("=?", "<>?"):
                t = "(bytes_eqb %s %s)" % (lt, self.bytes(n.comparators[0]))
                return t if op == "=?" else "(negb %s)" % t
            a, b = self.int(n.left), self.int(n.comparators[0])
            if op == "<>?":
                return "(negb (%s =? %s)%%Z)" % (a, b)
            return "(%s %s %s)%%Z" % (a, op, b)
        t, k = self.expr(n)
        if k == "bool":
            return t
        if k == "bytes":
            return "(py_truthy %s)" % t
        if k == "int":
            return "(negb (%s =? 0)%%Z)" % t
        raise Unsupported("test %s" % dump(n))


# statements that only resolve defaulted arguments (the generated functions take the resolved values) or reject
# flags != 0 (outside the model: flags = 0)
PREAMBLE = {
    "If(test=Compare(left=Name(id='timeout', ctx=Load()), ops=[Is()], comparators=[Name(id='_UNSET', ctx=Load())]), "
    "body=[Assign(targets=[Name(id='timeout', ctx=Store())], value=Attribute(value=Name(id='self', ctx=Load()), "
    "attr='timeout', ctx=Load()))], orelse=[])",
    "If(test=Compare(left=Name(id='maxsize', ctx=Load()), ops=[Is()], comparators=[Name(id='_UNSET', ctx=Load())]), "
    "body=[Assign(targets=[Name(id='maxsize', ctx=Store())], value=Attribute(value=Name(id='self', ctx=Load()), "
    "attr='maxsize', ctx=Load()))], orelse=[])",
    "If(test=Compare(left=Name(id='maxsize', ctx=Load()), ops=[Is()], comparators=[Constant(value=None)]), "
    "body=[Assign(targets=[Name(id='maxsize', ctx=Store())], value=Name(id='_RECV_LARGE_MAXSIZE', ctx=Load()))], orelse=[])",
    "If(test=Name(id='flags', ctx=Load()), body=[Raise(exc=Call(func=Name(id='ValueError', ctx=Load()), "
    "args=[BinOp(left=Constant(value='non-zero flags not supported: %r'), op=Mod(), right=Name(id='flags', ctx=Load()))], "
    "keywords=[]))], orelse=[])",
}


def is_deadline_block(s):
    """if timeout: cur_timeout = timeout - (time.time() - start); if cur_timeout <= 0.0: raise socket.timeout();
    <sock>.settimeout(cur_timeout)"""
    if not (isinstance(s, ast.If) and isinstance(s.test, ast.Name) and s.test.id == "timeout" and not s.orelse):
        return False
    b = s.body
    if len(b) != 3:
        raise Unsupported("`if timeout:` block of unknown shape")
    want0 = "Assign(targets=[Name(id='cur_timeout', ctx=Store())], value=BinOp(left=Name(id='timeout', ctx=Load()), " \
            "op=Sub(), right=BinOp(left=Call(func=Attribute(value=Name(id='time', ctx=Load()), attr='time', ctx=Load()), " \
            "args=[], keywords=[]), op=Sub(), right=Name(id='start', ctx=Load()))))"
    want1 = "If(test=Compare(left=Name(id='cur_timeout', ctx=Load()), ops=[LtE()], comparators=[Constant(value=0.0)]), " \
            "body=[Raise(exc=Call(func=Attribute(value=Name(id='socket', ctx=Load()), attr='timeout', ctx=Load()), " \
            "args=[], keywords=[]))], orelse=[])"
    if dump(b[0]) != want0 or dump(b[1]) != want1:
        raise Unsupported("`if timeout:` block of unknown shape: %s / %s" % (dump(b[0]), dump(b[1])))
    c = b[2]
    if not (isinstance(c, ast.Expr) and isinstance(c.value, ast.Call) and isinstance(c.value.func, ast.Attribute)
            and c.value.func.attr == "settimeout" and is_sock(c.value.func.value)
            and dump(c.value.args) == "[Name(id='cur_timeout', ctx=Load())]"):
        raise Unsupported("`if timeout:` block: third statement %s" % dump(c))
    return True


def effect_of(s, meth):
    """x = <sock>.<meth>(...)  -> name x, else None"""
    if isinstance(s, ast.Assign) and len(s.targets) == 1 and isinstance(s.targets[0], ast.Name) \
            and isinstance(s.value, ast.Call) and isinstance(s.value.func, ast.Attribute) \
            and s.value.func.attr == meth and is_sock(s.value.func.value):
        return s.targets[0].id
    return None


class Body(E):
    def __init__(self, live, meth, live_break=None, live_raise=None):
        self.live = live          # names carried on to the socket call / the next iteration
        self.live_break = live_break or live     # names handed to the code after the loop
        self.live_raise = live_raise             # the name the except handlers store into the buffer
        self.meth = meth          # "recv" / "send": the effect splitting the iteration
        self.mode = "pre"
        self.free = []

    def state(self, names=None):
        names = names or self.live
        return "(" + ", ".join(names) + ")" if len(names) > 1 else names[0]

    def stmts(self, ss, ind, bound=frozenset()):
        pad = "  " * ind
        self.cur_bound = bound
        if not ss:
            for n in self.live:
                self.use(n)
            return pad + ("ICont %s" % self.state() if self.mode == "post" else "IFallsThrough")
        s, rest = ss[0], ss[1:]
        if effect_of(s, self.meth) is not None:
            if self.mode != "pre":
                raise Unsupported("second effect statement in one iteration")
            self.rest_after_effect = rest
            self.effect_var = effect_of(s, self.meth)
            for n in self.live:
                self.use(n)
            return pad + "IEffect %s" % self.state()
        if isinstance(s, ast.Break):
            for n in self.live_break:
                self.use(n)
            return pad + "IBreak %s" % self.state(self.live_break)
        if isinstance(s, ast.Return) and s.value is not None and self.live_break == ["<return>"]:
            # return e: the value and the receive buffer as it then is
            v = self.bytes(s.value)
            self.use("rbuf")
            return pad + "IBreak (%s, rbuf)" % v
        if dump(s) in PREAMBLE:
            return self.stmts(rest, ind, bound)
        if isinstance(s, ast.Raise):
            if self.live_raise is None:
                raise Unsupported("raise in a part that must not raise")
            self.use(self.live_raise)
            return pad + "IRaise %s %s" % (self.exn(s.exc), self.live_raise)
        if is_deadline_block(s):
            if self.live_raise is None:
                raise Unsupported("deadline block in a part that must not raise")
            self.use("timeout")
            self.use("late")
            self.use(self.live_raise)
            return (pad + "if timeout then\n" + pad + "  if late then IRaise Timeout %s else\n" % self.live_raise
                    + self.stmts(rest, ind + 1, bound)
                    + "\n" + pad + "else\n" + self.stmts(rest, ind + 1, bound))
        if isinstance(s, ast.If):
            t = self.test(s.test)
            return (pad + "if %s then\n" % t + self.stmts(s.body + rest, ind + 1, bound) + "\n" + pad + "else\n"
                    + self.stmts(s.orelse + rest, ind + 1, bound))
        if isinstance(s, ast.Assign) and len(s.targets) == 1:
            t = s.targets[0]
            if isinstance(t, ast.Name) and t.id in SKIP_ASSIGN:
                return self.stmts(rest, ind, bound)
            if isinstance(t, ast.Tuple):
                if not (isinstance(s.value, ast.Tuple) and len(s.value.elts) == len(t.elts)):
                    raise Unsupported("tuple assignment %s" % dump(s))
                names = [var_of_target(x) for x in t.elts]
                vals = [self.expr(v) for v in s.value.elts]
                for nme, (txt, k) in zip(names, vals):
                    if kind(nme) != k:
                        raise Unsupported("kind mismatch in %s" % dump(s))
                # simultaneous: evaluate all right-hand sides first
                tmp = ["%s_new" % nme for nme in names]
                out = "".join(pad + "let %s := %s in\n" % (a, v[0]) for a, v in zip(tmp, vals))
                out += "".join(pad + "let %s := %s in\n" % (nme, a) for nme, a in zip(names, tmp))
                return out + self.stmts(rest, ind, bound | set(names))
            nme = var_of_target(t)
            txt, k = self.expr(s.value)
            known = nme in BYTES_VARS or nme in INT_VARS or nme in BOOL_VARS or (self.local_kinds and nme in self.local_kinds)
            if not known and isinstance(t, ast.Name) and nme.isidentifier() and nme not in ("late",):
                if self.local_kinds is None:
                    self.local_kinds = {}
                self.local_kinds[nme] = k            # a fresh local
            if self.kind(nme) != k:
                raise Unsupported("kind mismatch in %s" % dump(s))
            return pad + "let %s := %s in\n" % (nme, txt) + self.stmts(rest, ind, bound | {nme})
        if isinstance(s, ast.AugAssign) and isinstance(s.op, ast.Add):
            nme = var_of_target(s.target)
            if kind(nme) == "bytes":
                self.use(nme)
                return pad + "let %s := (%s ++ %s) in\n" % (nme, nme, self.bytes(s.value)) + self.stmts(rest, ind, bound | {nme})
            if kind(nme) != "int":
                raise Unsupported("+= on %s" % nme)
            self.use(nme)
            return pad + "let %s := (%s + %s) in\n" % (nme, nme, self.int(s.value)) + self.stmts(rest, ind, bound | {nme})
        if isinstance(s, ast.Expr) and isinstance(s.value, ast.Call) and isinstance(s.value.func, ast.Attribute):
            f = s.value.func
            if f.attr in ("extend", "append") and isinstance(f.value, ast.Name) and f.value.id in ("recvd", "chunks") \
                    and len(s.value.args) == 1:
                # chunks is a list of chunks in the code, its concatenation in the model (only b''.join(chunks) is used)
                self.use(f.value.id)
                return pad + "let %s := (%s ++ %s) in\n" % (f.value.id, f.value.id, self.bytes(s.value.args[0])) \
                    + self.stmts(rest, ind, bound | {f.value.id})
            if f.attr == "settimeout" and is_sock(f.value):
                return self.stmts(rest, ind, bound)
        raise Unsupported("statement %s" % dump(s))

    def exn(self, e):
        if isinstance(e, ast.Call):
            f = e.func
            if isinstance(f, ast.Name) and f.id in RAISES:
                return RAISES[f.id]
            if isinstance(f, ast.Attribute) and f.attr == "timeout" and isinstance(f.value, ast.Name) and f.value.id == "socket":
                return "Timeout"
        raise Unsupported("raise %s" % dump(e))


def get_method(tree, cls, name):
    for n in tree.body:
        if isinstance(n, ast.ClassDef) and n.name == cls:
            for m in n.body:
                if isinstance(m, ast.FunctionDef) and m.name == name:
                    return m
    raise Unsupported("%s.%s not found" % (cls, name))


def find_while(fn):
    """The single while loop of the method (inside with/try), and the statements after the try that contains it."""
    found = []

    def walk(ss, trail):
        for i, s in enumerate(ss):
            if isinstance(s, ast.While):
                found.append((s, trail))
            elif isinstance(s, ast.With):
                walk(s.body, trail)
            elif isinstance(s, ast.Try):
                walk(s.body, trail + [(ss, i)])
            elif isinstance(s, ast.If):
                walk(s.body, trail)
                walk(s.orelse, trail)
    walk(fn.body, [])
    if len(found) != 1:
        raise Unsupported("%s: expected exactly one while loop, found %d" % (fn.name, len(found)))
    return found[0]


ORDER = ["size_prefix", "consumed", "payload", "trailer", "delimiter", "size", "maxsize", "len_delimiter", "with_delimiter", "timeout", "rbuf", "data", "recvd", "chunks", "sbuf0",
         "find_offset_start", "offset", "rbuf_offset", "total_bytes", "total_sent", "nxt", "sent", "late"]
TYPES = {"bytes": "bytes", "int": "Z", "bool": "bool"}


def ktype(n):
    return "bool" if n == "late" else TYPES[kind(n)]


def params_used(free):
    """Parameters = the free variables of the translated statements, in canonical order."""
    for n in free:
        if n not in ORDER:
            raise Unsupported("free variable %s" % n)
    return " ".join("(%s : %s)" % (n, ktype(n)) for n in ORDER if n in free)


def tuple_type(names):
    return " * ".join(ktype(n) for n in names)


def definition(name, body, text, rettype):
    return "Definition %s %s : %s :=\n%s.\n" % (name, params_used(body.free), rettype, text)


def effect_alias(stmts, meth, canonical):
    names = [effect_of(x, meth) for x in stmts if effect_of(x, meth) is not None]
    if len(names) != 1:
        raise Unsupported("expected exactly one socket call at the top level of the loop body")
    if names[0] != canonical and canonical in {n.id for x in stmts for n in ast.walk(x) if isinstance(n, ast.Name)}:
        raise Unsupported("the name %s is used for something else" % canonical)
    return {names[0]: canonical}


def gen_loop(fn_name, loop, live_break, live_effect, live_cont, live_raise, meth, test_dump, orelse_ok):
    alias = effect_alias(loop.body, meth, "nxt")
    src_name = list(alias)[0]
    if dump(loop.test) != test_dump.replace("'nxt'", "'%s'" % src_name):
        raise Unsupported("%s: loop condition %s" % (fn_name, dump(loop.test)))
    orelse_ok(loop.orelse)
    E.alias = alias
    b = Body(live_effect, meth, live_break, live_raise)
    pre = b.stmts(loop.body, 1)
    if "IFallsThrough" in pre:
        raise Unsupported("%s: a path of the loop body reaches its end before the socket call" % fn_name)
    if not hasattr(b, "rest_after_effect"):
        raise Unsupported("%s: no socket call in the loop body" % fn_name)
    b2 = Body(live_cont, meth, None, live_raise)
    b2.mode = "post"
    post = b2.stmts(b.rest_after_effect, 1)
    out = definition("src_%s_pre" % fn_name, b, pre, "iter (%s) (%s) %s" % (tuple_type(live_break), tuple_type(live_effect), ktype(live_raise)))
    out += "\n" + definition("src_%s_post" % fn_name, b2, post, "iter unit (%s) %s" % (tuple_type(live_cont), ktype(live_raise)))
    return out


def check_handlers(fn, trail, stored):
    """Both handlers of the try around the loop (socket.timeout, Exception) start with `self.rbuf = <stored>`."""
    ss, i = trail[-1]
    t = ss[i]
    if len(t.handlers) != 2 or t.orelse or t.finalbody:
        raise Unsupported("%s: try statement around the loop" % fn.name)
    names = [dump(h.type) for h in t.handlers]
    if names != ["Attribute(value=Name(id='socket', ctx=Load()), attr='timeout', ctx=Load())", "Name(id='Exception', ctx=Load())"]:
        raise Unsupported("%s: exception handlers %s" % (fn.name, names))
    for h in t.handlers:
        first = h.body[0]
        if not (isinstance(first, ast.Assign) and len(first.targets) == 1 and var_of_target(first.targets[0]) == "rbuf"
                and dump(first.value) == stored and isinstance(h.body[-1], ast.Raise)):
            raise Unsupported("%s: handler does not store the received bytes: %s" % (fn.name, dump(first)))


def after_try(fn, trail, n):
    """The n statements following the try statement that contains the loop."""
    if not trail:
        raise Unsupported("%s: the loop is not inside a try" % fn.name)
    ss, i = trail[-1]
    return ss[i + 1:i + 1 + n]


def with_body(fn):
    """The statements of the method's single `with self._recv_lock:` block followed by the statements after it."""
    body = [x for x in fn.body if not (isinstance(x, ast.Expr) and isinstance(x.value, ast.Constant))]
    if not (len(body) in (1, 2) and isinstance(body[0], ast.With)):
        raise Unsupported("%s: expected `with self._recv_lock:` [+ return]" % fn.name)
    return body[0].body + body[1:]


def gen_recv(tree):
    """recv: before / after the single sock.recv (wrapped in try/except socket.timeout: raise Timeout)."""
    fn = get_method(tree, "BufferedSocket", "recv")
    ss = with_body(fn)
    idx = [i for i, x in enumerate(ss) if isinstance(x, ast.Try)]
    if len(idx) != 1:
        raise Unsupported("recv: expected one try statement")
    t = ss[idx[0]]
    want_handler = ("[ExceptHandler(type=Attribute(value=Name(id='socket', ctx=Load()), attr='timeout', ctx=Load()), "
                    "body=[Raise(exc=Call(func=Name(id='Timeout', ctx=Load()), args=[Name(id='timeout', ctx=Load())], keywords=[]))])]")
    if not (len(t.body) == 1 and effect_of(t.body[0], "recv") == "data" and dump(t.handlers) == want_handler
            and not t.orelse and not t.finalbody):
        raise Unsupported("recv: try statement %s" % dump(t))
    E.alias = None
    b = Body(["rbuf"], "recv", ["<return>"], None)
    pre = b.stmts(ss[:idx[0]] + [t.body[0]], 1)
    b2 = Body(["rbuf"], "recv", ["<return>"], None)
    b2.mode = "post"
    post = b2.stmts(ss[idx[0] + 1:], 1)
    if "ICont" in post or "IFallsThrough" in pre:
        raise Unsupported("recv: a path does not end in return")
    return (definition("src_recv_pre", b, pre, "iter (bytes * bytes) bytes unit") + "\n"
            + definition("src_recv_post", b2, post, "iter (bytes * bytes) bytes unit"))


def is_recv_size_call(v, args_dump):
    return (isinstance(v, ast.Call) and isinstance(v.func, ast.Attribute) and v.func.attr == "recv_size"
            and isinstance(v.func.value, ast.Name) and v.func.value.id == "self" and dump(v.args) + dump(v.keywords) == args_dump)


def gen_peek(tree):
    fn = get_method(tree, "BufferedSocket", "peek")
    ss = with_body(fn)
    idx = [i for i, x in enumerate(ss) if isinstance(x, ast.Assign) and isinstance(x.value, ast.Call)]
    if not (len(idx) == 1 and dump(ss[idx[0]].targets) == "[Name(id='data', ctx=Store())]" and is_recv_size_call(
            ss[idx[0]].value, "[Name(id='size', ctx=Load())][keyword(arg='timeout', value=Name(id='timeout', ctx=Load()))]")):
        raise Unsupported("peek: expected data = self.recv_size(size, timeout=timeout)")
    E.alias = None
    b = Body(["rbuf"], "recv", ["<return>"], None)
    pre = b.stmts(ss[:idx[0]], 1).replace("IFallsThrough", "IEffect rbuf")
    b.use("rbuf")
    b2 = Body(["rbuf"], "recv", ["<return>"], None)
    b2.mode = "post"
    post = b2.stmts(ss[idx[0] + 1:], 1)
    if "ICont" in post:
        raise Unsupported("peek: a path does not end in return")
    return (definition("src_peek_pre", b, pre, "iter (bytes * bytes) bytes unit") + "\n"
            + definition("src_peek_post", b2, post, "iter (bytes * bytes) bytes unit"))


def gen_recv_close(tree):
    fn = get_method(tree, "BufferedSocket", "recv_close")
    ss = [x for x in with_body(fn) if dump(x) not in PREAMBLE]
    if not (len(ss) == 2 and isinstance(ss[0], ast.Try) and dump(ss[1]) == "Return(value=Name(id='ret', ctx=Load()))"):
        raise Unsupported("recv_close: expected try + return ret")
    t = ss[0]
    if not (len(t.body) == 1 and isinstance(t.body[0], ast.Assign) and dump(t.body[0].targets) == "[Name(id='recvd', ctx=Store())]"
            and isinstance(t.body[0].value, ast.Call) and len(t.body[0].value.args) == 2
            and is_recv_size_call(t.body[0].value, dump(t.body[0].value.args) + "[]")
            and dump(t.body[0].value.args[1]) == "Name(id='timeout', ctx=Load())"
            and len(t.handlers) == 1 and dump(t.handlers[0].type) == "Name(id='ConnectionClosed', ctx=Load())" and not t.finalbody):
        raise Unsupported("recv_close: try statement %s" % dump(t))
    E.alias = None
    e = Body([], "recv")
    size_arg = e.int(t.body[0].value.args[0])
    out = "Definition src_rc_size %s : Z := %s.\n\n" % (params_used(e.free), size_arg)
    b = Body(["rbuf"], "recv", ["<return>"], None)
    closed = b.stmts(t.handlers[0].body + [ss[1]], 1)
    out += definition("src_rc_closed", b, closed, "iter (bytes * bytes) bytes unit") + "\n"
    b2 = Body(["rbuf"], "recv", ["<return>"], "rbuf")
    toolong = b2.stmts(t.orelse, 1)
    if "IRaise MessageTooLong rbuf" not in toolong or "ICont" in toolong or "IFallsThrough" in toolong:
        raise Unsupported("recv_close: else clause")
    out += definition("src_rc_toolong", b2, toolong, "iter (bytes * bytes) bytes bytes")
    return out


def one_def(name, body, text, rettype):
    return "Definition %s %s : %s :=\n  %s.\n" % (name, params_used(body.free), rettype, text)


def gen_netstring(tree):
    """NetstringSocket.read_ns / write_ns / _calc_msgsize_maxsize: the statements between the three buffered-socket
    calls, whose ORDER is checked (payload = recv_size; consumed += payload; trailer = recv(1))."""
    E.alias = None
    out = []
    # --- _calc_msgsize_maxsize and the same expression in __init__
    fn = get_method(tree, "NetstringSocket", "_calc_msgsize_maxsize")
    body = [x for x in fn.body if not (isinstance(x, ast.Expr) and isinstance(x.value, ast.Constant))]
    if not (len(body) == 1 and isinstance(body[0], ast.Return)):
        raise Unsupported("_calc_msgsize_maxsize: expected a single return")
    e = Body([], "recv")
    out.append(one_def("src_ns_msgsize", e, e.int(body[0].value), "Z"))
    init = get_method(tree, "NetstringSocket", "__init__")
    same = [x for x in init.body if isinstance(x, ast.Assign) and dump(x.targets) ==
            "[Attribute(value=Name(id='self', ctx=Load()), attr='_msgsize_maxsize', ctx=Store())]"]
    if not (len(same) == 1 and dump(same[0].value) == dump(body[0].value)):
        raise Unsupported("NetstringSocket.__init__: _msgsize_maxsize is not computed as in _calc_msgsize_maxsize")
    # --- read_ns
    fn = get_method(tree, "NetstringSocket", "read_ns")
    ss = list(fn.body)
    if dump(ss[0]) not in PREAMBLE:
        raise Unsupported("read_ns: first statement")
    want1 = ("If(test=Compare(left=Name(id='maxsize', ctx=Load()), ops=[Is()], comparators=[Name(id='_UNSET', ctx=Load())]), "
             "body=[Assign(targets=[Name(id='maxsize', ctx=Store())], value=Attribute(value=Name(id='self', ctx=Load()), "
             "attr='maxsize', ctx=Load())), Assign(targets=[Name(id='msgsize_maxsize', ctx=Store())], "
             "value=Attribute(value=Name(id='self', ctx=Load()), attr='_msgsize_maxsize', ctx=Load()))], "
             "orelse=[Assign(targets=[Name(id='msgsize_maxsize', ctx=Store())], value=Call(func=Attribute(value=Name(id='self', "
             "ctx=Load()), attr='_calc_msgsize_maxsize', ctx=Load()), args=[Name(id='maxsize', ctx=Load())], keywords=[]))])")
    if dump(ss[1]) != want1:
        raise Unsupported("read_ns: maxsize / msgsize_maxsize resolution %s" % dump(ss[1]))
    a = ss[2]
    if not (isinstance(a, ast.Assign) and dump(a.targets) == "[Name(id='size_prefix', ctx=Store())]"
            and isinstance(a.value, ast.Call) and dump(a.value.func) ==
            "Attribute(value=Attribute(value=Name(id='self', ctx=Load()), attr='bsock', ctx=Load()), attr='recv_until', ctx=Load())"
            and len(a.value.args) == 1 and isinstance(a.value.args[0], ast.Constant) and type(a.value.args[0].value) is bytes
            and dump(a.value.keywords) == "[keyword(arg='timeout', value=Name(id='timeout', ctx=Load())), "
                                          "keyword(arg='maxsize', value=Name(id='msgsize_maxsize', ctx=Load()))]"):
        raise Unsupported("read_ns: the recv_until call %s" % dump(a))
    e = Body([], "recv")
    out.append(one_def("src_ns_delim", e, e.bytes(a.value.args[0]), "bytes"))
    want3 = ("Try(body=[Assign(targets=[Name(id='size', ctx=Store())], value=Call(func=Name(id='int', ctx=Load()), "
             "args=[Name(id='size_prefix', ctx=Load())], keywords=[]))], handlers=[ExceptHandler(type=Name(id='ValueError', ctx=Load()), "
             "body=[Raise(exc=Call(func=Name(id='NetstringInvalidSize', ctx=Load())")
    if not (dump(ss[3]).startswith(want3) and not ss[3].orelse and not ss[3].finalbody and len(ss[3].handlers) == 1):
        raise Unsupported("read_ns: size = int(size_prefix) %s" % dump(ss[3]))
    c = ss[4]
    if not (isinstance(c, ast.If) and not c.orelse and len(c.body) == 1 and isinstance(c.body[0], ast.Raise)
            and dump(c.body[0].exc).startswith("Call(func=Name(id='NetstringMessageTooLong'")):
        raise Unsupported("read_ns: the size check %s" % dump(c))
    e = Body([], "recv")
    out.append(one_def("src_ns_too_long", e, e.test(c.test), "bool"))
    d = ss[5]
    if not (isinstance(d, ast.Assign) and dump(d.targets) == "[Name(id='consumed', ctx=Store())]"):
        raise Unsupported("read_ns: consumed = ... %s" % dump(d))
    e = Body([], "recv")
    out.append(one_def("src_ns_consumed0", e, e.bytes(d.value), "bytes"))
    t = ss[6]
    bs_call = "Call(func=Attribute(value=Attribute(value=Name(id='self', ctx=Load()), attr='bsock', ctx=Load()), attr='%s', ctx=Load()), args=[%s], keywords=[])"
    if not (isinstance(t, ast.Try) and len(t.body) == 3 and not t.orelse and not t.finalbody
            and dump(t.body[0]) == "Assign(targets=[Name(id='payload', ctx=Store())], value=%s)" % (bs_call % ("recv_size", "Name(id='size', ctx=Load())"))
            and isinstance(t.body[1], ast.AugAssign) and dump(t.body[1].target) == "Name(id='consumed', ctx=Store())"
            and dump(t.body[2]) == "Assign(targets=[Name(id='trailer', ctx=Store())], value=%s)" % (bs_call % ("recv", "Constant(value=1)"))):
        raise Unsupported("read_ns: the try body must be payload = recv_size(size); consumed += ...; trailer = recv(1): %s"
                          % [dump(x) for x in t.body])
    b = Body(["consumed"], "recv")
    b.mode = "post"
    txt = b.stmts([t.body[1]], 1)
    out.append(definition("src_ns_consumed1", b, txt, "iter unit bytes unit"))
    if not (len(t.handlers) == 1 and dump(t.handlers[0].type) == "Attribute(value=Name(id='socket', ctx=Load()), attr='error', ctx=Load())"
            and len(t.handlers[0].body) == 2 and isinstance(t.handlers[0].body[0], ast.With) and len(t.handlers[0].body[0].body) == 1
            and isinstance(t.handlers[0].body[1], ast.Raise) and t.handlers[0].body[1].exc is None):
        raise Unsupported("read_ns: the un-read handler")
    b = Body(["rbuf"], "recv")
    b.mode = "post"
    out.append(definition("src_ns_unread", b, b.stmts(t.handlers[0].body[0].body, 1), "iter unit bytes unit"))
    f = ss[7]
    if not (isinstance(f, ast.If) and not f.orelse and len(f.body) == 1 and isinstance(f.body[0], ast.Raise)
            and dump(f.body[0].exc).startswith("Call(func=Name(id='NetstringProtocolError'")):
        raise Unsupported("read_ns: trailer check")
    e = Body([], "recv")
    out.append(one_def("src_ns_trailer_bad", e, e.test(f.test), "bool"))
    if not (len(ss) == 9 and dump(ss[8]) == "Return(value=Name(id='payload', ctx=Load()))"):
        raise Unsupported("read_ns: return payload")
    # --- write_ns
    fn = get_method(tree, "NetstringSocket", "write_ns")
    ws = list(fn.body)
    if not (len(ws) == 4 and dump(ws[0]) == "Assign(targets=[Name(id='size', ctx=Store())], value=Call(func=Name(id='len', "
            "ctx=Load()), args=[Name(id='payload', ctx=Load())], keywords=[]))"
            and isinstance(ws[1], ast.If) and not ws[1].orelse and len(ws[1].body) == 1 and isinstance(ws[1].body[0], ast.Raise)
            and dump(ws[1].body[0].exc).startswith("Call(func=Name(id='NetstringMessageTooLong'")
            and isinstance(ws[2], ast.Assign) and dump(ws[2].targets) == "[Name(id='data', ctx=Store())]"
            and dump(ws[3]) == "Expr(value=%s)" % (bs_call % ("send", "Name(id='data', ctx=Load())"))):
        raise Unsupported("write_ns: statements %s" % [dump(x) for x in ws])
    e = Body([], "send")
    e.cur_bound = frozenset()
    sz, _ = e.expr(ws[0].value)
    tl = e.test(ws[1].test)
    out.append("Definition src_ns_write_too_long (payload : bytes) (maxsize : Z) : bool :=\n  let size := %s in %s.\n" % (sz, tl))
    e = Body([], "send")
    dat = e.bytes(ws[2].value)
    out.append("Definition src_ns_frame (payload : bytes) : bytes :=\n  let size := %s in %s.\n" % (sz, dat))
    return "\n".join(out)


def translate(repo):
    path = os.path.join(repo, "boltons", "socketutils.py")
    tree = ast.parse(open(path).read())
    out = ["(* GENERATED on every run by harness/translators/c12_loops.py from boltons/socketutils.py; do not edit *)",
           "From Boltons Require Import Lib.Prelude Lib.C12_Base Lib.C12_Py.", "Local Open Scope Z_scope.", ""]

    # ---- recv_until -----------------------------------------------------------------------------------
    fn = get_method(tree, "BufferedSocket", "recv_until")
    loop, trail = find_while(fn)

    def no_else(orelse):
        if orelse:
            raise Unsupported("unexpected else clause")
    out.append(gen_loop("ru", loop, ["offset", "rbuf_offset"], ["recvd"], ["recvd", "find_offset_start"], "recvd",
                        "recv", "Constant(value=1)", no_else))
    check_handlers(fn, trail, "Call(func=Name(id='bytes', ctx=Load()), args=[Name(id='recvd', ctx=Load())], keywords=[])")
    fin = after_try(fn, trail, 1)
    b = Body(["val", "rbuf"], "recv")
    b.mode = "post"
    out.append(definition("src_ru_finish", b, b.stmts(fin, 1), "iter unit (bytes * bytes) unit"))
    # the statement initialising the offset before the loop
    init = [s for s in ast.walk(fn) if isinstance(s, ast.Assign) and dump(s.targets) == "[Name(id='find_offset_start', ctx=Store())]"
            and isinstance(s.value, ast.Constant)]
    if len(init) != 1 or init[0].value.value != 0:
        raise Unsupported("recv_until: initial find_offset_start")
    out.append("Definition src_ru_find_offset_start0 : Z := 0.\n")

    # ---- recv_size ------------------------------------------------------------------------------------
    E.alias = None
    fn = get_method(tree, "BufferedSocket", "recv_size")
    loop, trail = find_while(fn)

    def closed_else(orelse):
        if not (len(orelse) == 2 and isinstance(orelse[0], ast.Assign) and dump(orelse[0].targets) == "[Name(id='msg', ctx=Store())]"
                and isinstance(orelse[1], ast.Raise) and Body([], "recv").exn(orelse[1].exc) == "ConnectionClosed"):
            raise Unsupported("recv_size: while-else clause %s" % [dump(x) for x in orelse])
    out.append(gen_loop("rs", loop, ["chunks", "total_bytes"], ["chunks", "total_bytes"], ["chunks", "total_bytes", "nxt"],
                        "chunks", "recv", "Name(id='nxt', ctx=Load())", closed_else))
    check_handlers(fn, trail, "Call(func=Attribute(value=Constant(value=b''), attr='join', ctx=Load()), "
                              "args=[Name(id='chunks', ctx=Load())], keywords=[])")
    fin = after_try(fn, trail, 3)
    if not (len(fin) == 3 and isinstance(fin[2], ast.Expr) and dump(fin[2].value) ==
            "Call(func=Attribute(value=Name(id='chunks', ctx=Load()), attr='append', ctx=Load()), args=[Name(id='last', ctx=Load())], keywords=[])"):
        raise Unsupported("recv_size: statements after the loop")
    ret = fn.body[-1]
    if not (isinstance(ret, ast.Return) and dump(ret.value) ==
            "Call(func=Attribute(value=Constant(value=b''), attr='join', ctx=Load()), args=[Name(id='chunks', ctx=Load())], keywords=[])"):
        raise Unsupported("recv_size: return statement")
    b = Body(["chunks", "rbuf"], "recv")
    b.mode = "post"
    out.append(definition("src_rs_finish", b, b.stmts(fin, 1), "iter unit (bytes * bytes) unit"))

    # ---- send -----------------------------------------------------------------------------------------
    E.alias = None
    fn = get_method(tree, "BufferedSocket", "send")
    loop, trail = find_while(fn)
    want_test = "Subscript(value=Name(id='sbuf', ctx=Load()), slice=Constant(value=0), ctx=Load())"
    if dump(loop.test) != want_test or loop.orelse:
        raise Unsupported("send: loop condition %s" % dump(loop.test))
    body = loop.body
    if effect_of(body[0], "send") is None or dump(body[0].value.args) != "[%s]" % want_test:
        raise Unsupported("send: first statement of the loop body %s" % dump(body[0]))
    E.alias = effect_alias(body, "send", "sent")
    b = Body(["sbuf0", "total_sent"], "send", None, "sbuf0")
    b.mode = "post"
    out.append(definition("src_send_post", b, b.stmts(body[1:], 1), "iter unit (bytes * Z) bytes"))
    out.append(gen_recv(tree))
    out.append(gen_peek(tree))
    out.append(gen_recv_close(tree))
    out.append(gen_netstring(tree))
    return "\n".join(out)


if __name__ == "__main__":
    import sys
    print(translate(sys.argv[1] if len(sys.argv) > 1 else "/repo"))
