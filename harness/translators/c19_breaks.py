"""Translator for C19: the alternatives of boltons.strutils._line_ending_re as Coq data.

Imports strutils from the repository under check, parses the *current* pattern with the
regex parser of the standard library and accepts exactly one shape:

    a single capturing group (group 1) spanning the whole pattern whose body is an
    alternation of literal strings; one position of a literal may be a non-negated
    character set of literals (expanded in place, keeping the order of alternatives).

Anything else (other flags than re.UNICODE, look-arounds, repeats, ranges, categories,
more groups, a non-str pattern ...) raises: the tie is then broken, never silently kept.
"""
import importlib
import itertools
import re
import sys

try:
    import re._parser as _sre_parse
    import re._constants as _sre_c
except ImportError:  # pragma: no cover (older Pythons)
    import sre_parse as _sre_parse
    import sre_constants as _sre_c


class Refused(Exception):
    pass


def _elem(e):
    op, av = e
    if op is _sre_c.LITERAL:
        return [av]
    if op is _sre_c.IN:
        out = []
        for iop, iav in av:
            if iop is not _sre_c.LITERAL:
                raise Refused("character set with %s" % (iop,))
            out.append(iav)
        if not out:
            raise Refused("empty character set")
        return out
    raise Refused("element %s is not a literal" % (op,))


def _seq(items):
    """sequence of elements -> list of literal strings (cartesian product, in order)."""
    choices = [_elem(e) for e in items]
    if not choices:
        raise Refused("empty alternative (would match the empty string)")
    return [list(t) for t in itertools.product(*choices)]


def alternatives(pattern):
    if not isinstance(pattern, re.Pattern):
        raise Refused("_line_ending_re is not a compiled pattern")
    if not isinstance(pattern.pattern, str):
        raise Refused("bytes pattern")
    # MULTILINE/DOTALL do not change how an alternation of literals matches; anything else is refused
    if pattern.flags & ~(re.UNICODE | re.MULTILINE | re.DOTALL):
        raise Refused("flags %r" % (pattern.flags,))
    if pattern.groups != 1:
        raise Refused("%d groups (iter_splitlines reads group 1)" % pattern.groups)
    tree = list(_sre_parse.parse(pattern.pattern, pattern.flags))
    if len(tree) != 1 or tree[0][0] is not _sre_c.SUBPATTERN:
        raise Refused("pattern is not a single group")
    group, add_flags, del_flags, body = tree[0][1]
    if group != 1 or add_flags or del_flags:
        raise Refused("group %r with inline flags" % (group,))
    body = list(body)
    if len(body) == 1 and body[0][0] is _sre_c.BRANCH:
        alts = []
        for item in body[0][1][1]:
            alts.extend(_seq(list(item)))
    else:
        alts = _seq(body)
    return alts


def load_strutils(repo):
    """Import boltons.strutils from `repo` (fresh, so a scratch copy is honoured)."""
    saved = {k: v for k, v in sys.modules.items() if k == "boltons" or k.startswith("boltons.")}
    for k in saved:
        del sys.modules[k]
    sys.path.insert(0, repo)
    try:
        mod = importlib.import_module("boltons.strutils")
        path = getattr(mod, "__file__", "") or ""
        if not path.startswith(repo.rstrip("/") + "/"):
            raise Refused("boltons.strutils imported from %s, not from %s" % (path, repo))
        return mod
    finally:
        sys.path.remove(repo)
        for k in [k for k in sys.modules if k == "boltons" or k.startswith("boltons.")]:
            del sys.modules[k]
        sys.modules.update(saved)


def python_tables():
    """The tables of the running CPython that the model of the code relies on, probed over EVERY code point /
    byte value (not read from documentation): which characters str.splitlines / bytes.splitlines break at, which
    ones str.lstrip / bytes.lstrip remove, which ones json.loads skips around a document."""
    import json
    str_breaks = [cp for cp in range(0x110000) if len(("a" + chr(cp) + "b").splitlines()) == 2]
    bytes_breaks = [b for b in range(256) if len((b"a" + bytes([b]) + b"b").splitlines()) == 2]
    str_space = [cp for cp in range(0x110000) if (chr(cp) + "x").lstrip() == "x"]
    bytes_space = [b for b in range(256) if (bytes([b]) + b"x").lstrip() == b"x"]

    def json_ws(cp):
        try:
            return json.loads(chr(cp) + "1" + chr(cp)) == 1
        except ValueError:
            return False
    json_space = [cp for cp in range(0x110000) if json_ws(cp)]
    # \r\n is one break, \n\r two
    crlf_one = ("a\r\nb".splitlines() == ["a", "b"] and b"a\r\nb".splitlines() == [b"a", b"b"]
                and "a\n\rb".splitlines() == ["a", "", "b"])
    return {"gen_py_str_breaks": str_breaks, "gen_py_bytes_breaks": bytes_breaks, "gen_py_str_space": str_space,
            "gen_py_bytes_space": bytes_space, "gen_py_json_space": json_space}, crlf_one


SBCS = ["cp1252", "iso8859-15", "koi8-r", "cp437", "iso8859-7", "mac-roman", "ascii"]


def sbcs_tables():
    """decode tables of a few single-byte codecs, probed byte by byte on the running interpreter."""
    out = []
    for enc in SBCS:
        row = []
        for b in range(256):
            try:
                ch = bytes([b]).decode(enc)
            except UnicodeDecodeError:
                row.append(None)
                continue
            if len(ch) != 1:
                raise Refused("%s decodes byte %d to %r" % (enc, b, ch))
            row.append(ord(ch))
        out.append(row)
    return out


def render(alts, tables=None, crlf_one=True):
    def lit(a):
        return "[" + "; ".join("%d%%N" % c for c in a) + "]"
    out = ("(* GENERATED by harness/translators/c19_breaks.py from boltons/strutils.py: _line_ending_re *)\n"
           "From Boltons Require Import Lib.Prelude.\n"
           "Definition gen_breaks : list (list N) :=\n  [" + ";\n   ".join(lit(a) for a in alts) + "].\n")
    if tables is not None:
        out += "(* probed on the running interpreter over all code points / byte values *)\n"
        for name in sorted(tables):
            out += "Definition %s : list N := %s.\n" % (name, lit(tables[name]))
        out += "Definition gen_py_crlf_is_one_break : bool := %s.\n" % ("true" if crlf_one else "false")
        out += "(* single-byte codecs %s: byte -> code point *)\n" % ", ".join(SBCS)
        out += "Definition gen_sbcs : list (list (option N)) :=\n  [" + ";\n   ".join(
            "[" + "; ".join("None" if c is None else "Some %d%%N" % c for c in row) + "]" for row in sbcs_tables()) + "].\n"
    return out


def translate(repo):
    mod = load_strutils(repo)
    tables, crlf_one = python_tables()
    return render(alternatives(mod._line_ending_re), tables, crlf_one)


def selftest():
    """Perturb a live pattern in memory and check that the output changes / is refused."""
    ok = alternatives(re.compile(r'(\r\n|\n|\x0b|\f|\r|\x85|\u2028|\u2029)', re.UNICODE))
    assert ok == [[13, 10], [10], [11], [12], [13], [133], [8232], [8233]], ok
    assert alternatives(re.compile(r'(\r\n|[\n]|[\x0b\f]|\r)')) == [[13, 10], [10], [11], [12], [13]]
    assert alternatives(re.compile(r'(\n|\r)')) == [[10], [13]]
    assert alternatives(re.compile(r'(\n|\r)', re.M | re.S)) == [[10], [13]]
    bad = alternatives(re.compile(r'(\r\n|\n|\x0b|\f|\r|\x85|\x2028|\x2029)'))
    assert [32, 50, 56] in bad
    for pat, fl in [(r'(\r?\n)', 0), (r'(\n)|(\r)', 0), (r'(?:\n|\r)', 0), (r'(\n|\s)', 0), (r'(\n|[^a])', 0),
                    (r'(a|b)', re.I), (r'(\n|[a-c])', 0), (r'(\n|)', 0), (r'x(\n)', 0)]:
        try:
            alternatives(re.compile(pat, fl))
        except Refused:
            continue
        raise AssertionError("accepted " + pat)
    return True


if __name__ == "__main__":
    selftest()
    print(translate(sys.argv[1] if len(sys.argv) > 1 else "/repo"))
