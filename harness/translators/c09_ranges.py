"""(T) tie for C09: translate the source of boltons.iterutils.chunk_ranges (and check the
helper _validate_positive_int) into the deep embedding of Model/C09_PyRanges.v.

Fail closed: any construct outside the tiny subset raises TranslationError, and the check
then reports a broken obligation.  The subset: the four leading validation assignments,
integer expressions over locals (+, -, %, min(a, b)), `if <local>:`, `if a != b:`,
`if a >= b:` (no else), `yield (a, b)`, bare `return`, `for x in range(a, b, c):`.
Variables are numbered: parameters in signature order, then locals in order of first
assignment / loop binding."""
import ast
import os


class TranslationError(Exception):
    pass


def _fail(node, why):
    raise TranslationError("%s at line %s: %s" % (why, getattr(node, "lineno", "?"), ast.dump(node)[:200]))


def _find(tree, name):
    for n in tree.body:
        if isinstance(n, ast.FunctionDef) and n.name == name:
            return n
    raise TranslationError("function %s not found" % name)


def _check_validator(fn):
    """_validate_positive_int(value, name, strictly_positive=True) must be exactly:
         value = int(value)
         if value < 0 or (strictly_positive and value == 0): raise ValueError(...)
         return value"""
    args = [a.arg for a in fn.args.args]
    if args != ["value", "name", "strictly_positive"] or len(fn.args.defaults) != 1 \
            or not (isinstance(fn.args.defaults[0], ast.Constant) and fn.args.defaults[0].value is True):
        _fail(fn, "unexpected signature of _validate_positive_int")
    body = [s for s in fn.body if not (isinstance(s, ast.Expr) and isinstance(s.value, ast.Constant))]
    if len(body) != 3:
        _fail(fn, "unexpected body of _validate_positive_int")
    want0 = "Assign(targets=[Name(id='value', ctx=Store())], value=Call(func=Name(id='int', ctx=Load()), args=[Name(id='value', ctx=Load())], keywords=[]))"
    if ast.dump(body[0]) != want0:
        _fail(body[0], "expected value = int(value)")
    s = body[1]
    want_test = ("BoolOp(op=Or(), values=[Compare(left=Name(id='value', ctx=Load()), ops=[Lt()], comparators=[Constant(value=0)]), "
                 "BoolOp(op=And(), values=[Name(id='strictly_positive', ctx=Load()), "
                 "Compare(left=Name(id='value', ctx=Load()), ops=[Eq()], comparators=[Constant(value=0)])])])")
    if not (isinstance(s, ast.If) and not s.orelse and ast.dump(s.test) == want_test and len(s.body) == 1
            and isinstance(s.body[0], ast.Raise) and isinstance(s.body[0].exc, ast.Call)
            and isinstance(s.body[0].exc.func, ast.Name) and s.body[0].exc.func.id == "ValueError"):
        _fail(s, "expected the range check raising ValueError")
    if ast.dump(body[2]) != "Return(value=Name(id='value', ctx=Load()))":
        _fail(body[2], "expected return value")


class _Tr:
    def __init__(self, params):
        self.vars = {p: i for i, p in enumerate(params)}

    def var(self, name, bind=False):
        if name not in self.vars:
            if not bind:
                raise TranslationError("read of unbound local %s" % name)
            self.vars[name] = len(self.vars)
        return self.vars[name]

    def expr(self, e):
        if isinstance(e, ast.Name):
            return "(V %d)" % self.var(e.id)
        if isinstance(e, ast.Constant) and isinstance(e.value, int) and not isinstance(e.value, bool):
            return "(C (%d)%%Z)" % e.value
        if isinstance(e, ast.BinOp) and isinstance(e.op, (ast.Add, ast.Sub, ast.Mod)):
            op = {ast.Add: "Add", ast.Sub: "Sub", ast.Mod: "Mod"}[type(e.op)]
            return "(%s %s %s)" % (op, self.expr(e.left), self.expr(e.right))
        if isinstance(e, ast.Call) and isinstance(e.func, ast.Name) and e.func.id == "min" \
                and len(e.args) == 2 and not e.keywords:
            return "(Min %s %s)" % (self.expr(e.args[0]), self.expr(e.args[1]))
        _fail(e, "unsupported expression")

    def cond(self, t):
        if isinstance(t, ast.Name):
            return "(Truthy %d)" % self.var(t.id)
        if isinstance(t, ast.Compare) and len(t.ops) == 1 and isinstance(t.ops[0], (ast.GtE, ast.NotEq)):
            op = "Ge" if isinstance(t.ops[0], ast.GtE) else "Ne"
            return "(%s %s %s)" % (op, self.expr(t.left), self.expr(t.comparators[0]))
        _fail(t, "unsupported condition")

    def validate(self, s):
        """x = _validate_positive_int(x, '<name>'[, strictly_positive=<bool>])"""
        if not (isinstance(s, ast.Assign) and len(s.targets) == 1 and isinstance(s.targets[0], ast.Name)
                and isinstance(s.value, ast.Call) and isinstance(s.value.func, ast.Name)
                and s.value.func.id == "_validate_positive_int"):
            return None
        c = s.value
        if not (len(c.args) == 2 and isinstance(c.args[0], ast.Name) and c.args[0].id == s.targets[0].id
                and isinstance(c.args[1], ast.Constant) and isinstance(c.args[1].value, str)):
            _fail(s, "unexpected use of _validate_positive_int")
        strict = True
        for kw in c.keywords:
            if kw.arg != "strictly_positive" or not (isinstance(kw.value, ast.Constant) and isinstance(kw.value.value, bool)):
                _fail(s, "unexpected keyword")
            strict = kw.value.value
        return "Validate %d %s" % (self.var(s.targets[0].id), "true" if strict else "false")

    def block(self, stmts):
        out = []
        for s in stmts:
            if isinstance(s, ast.Expr) and isinstance(s.value, ast.Constant) and isinstance(s.value.value, str):
                continue                                  # docstring
            v = self.validate(s)
            if v:
                out.append(v)
            elif isinstance(s, ast.Assign) and len(s.targets) == 1 and isinstance(s.targets[0], ast.Name):
                e = self.expr(s.value)                    # evaluate before binding
                out.append("Assign %d %s" % (self.var(s.targets[0].id, bind=True), e))
            elif isinstance(s, ast.Expr) and isinstance(s.value, ast.Yield):
                t = s.value.value
                if not (isinstance(t, ast.Tuple) and len(t.elts) == 2):
                    _fail(s, "expected yield (a, b)")
                out.append("Yield %s %s" % (self.expr(t.elts[0]), self.expr(t.elts[1])))
            elif isinstance(s, ast.Return) and s.value is None:
                out.append("Return")
            elif isinstance(s, ast.If) and not s.orelse:
                out.append("If %s %s" % (self.cond(s.test), self.block(s.body)))
            elif isinstance(s, ast.For) and not s.orelse and isinstance(s.target, ast.Name) \
                    and isinstance(s.iter, ast.Call) and isinstance(s.iter.func, ast.Name) and s.iter.func.id == "range" \
                    and len(s.iter.args) == 3 and not s.iter.keywords:
                a, b, c = (self.expr(x) for x in s.iter.args)
                x = self.var(s.target.id, bind=True)
                out.append("ForRange %d %s %s %s %s" % (x, a, b, c, self.block(s.body)))
            else:
                _fail(s, "unsupported statement")
        return "[" + ";\n   ".join(out) + "]"


def translate(repo):
    path = os.path.join(repo, "boltons", "iterutils.py")
    tree = ast.parse(open(path).read())
    _check_validator(_find(tree, "_validate_positive_int"))
    fn = _find(tree, "chunk_ranges")
    a = fn.args
    params = [x.arg for x in a.args]
    if params != ["input_size", "chunk_size", "input_offset", "overlap_size", "align"] or a.vararg or a.kwarg \
            or a.kwonlyargs or a.posonlyargs:
        _fail(fn, "unexpected signature of chunk_ranges")
    dflt = [ast.dump(d) for d in a.defaults]
    if dflt != ["Constant(value=0)", "Constant(value=0)", "Constant(value=False)"]:
        _fail(fn, "unexpected defaults of chunk_ranges")
    if fn.decorator_list:
        _fail(fn, "decorated")
    tr = _Tr(params)
    prog = tr.block(fn.body)
    names = ", ".join("%d=%s" % (i, n) for n, i in sorted(tr.vars.items(), key=lambda kv: kv[1]))
    return ("(* generated by harness/translators/c09_ranges.py from %s -- do not edit *)\n"
            "From Boltons Require Import Lib.Prelude Model.C09_PyRanges.\n"
            "(* variables: %s *)\n"
            "Definition gen_chunk_ranges_prog : list stmt :=\n  %s.\n" % (path, names, prog))


def selftest(repo):
    """perturb the source in memory: each perturbation must change the generated program
    or make the translator fail closed"""
    import re
    src = open(os.path.join(repo, "boltons", "iterutils.py")).read()
    base = translate(repo)
    import tempfile
    changed = skipped = 0
    perturbations = [("if i + chunk_size >= input_stop:", "if i + chunk_size != input_stop:"),
                     ("min(i + chunk_size, input_stop)", "min(i + chunk_size, input_offset)"),
                     ("input_offset % (chunk_size - overlap_size)", "input_offset % chunk_size"),
                     ("if value < 0 or (strictly_positive and value == 0):", "if value < 0:")]
    for old, new in perturbations:
        if src.count(old) != 1:
            skipped += 1        # this spot of the source has been rewritten: perturbation not applicable
            continue
        with tempfile.TemporaryDirectory() as d:
            os.makedirs(os.path.join(d, "boltons"))
            open(os.path.join(d, "boltons", "iterutils.py"), "w").write(src.replace(old, new))
            try:
                out = translate(d)
            except TranslationError:
                changed += 1
                continue
            if out.split("Definition", 1)[1] != base.split("Definition", 1)[1]:
                changed += 1
    return changed, len(perturbations) - skipped


if __name__ == "__main__":
    import sys
    print(translate(sys.argv[1] if len(sys.argv) > 1 else "/repo"))
    print("(* selftest: %d of %d perturbations visible *)" % selftest(sys.argv[1] if len(sys.argv) > 1 else "/repo"))
