"""C03 translator (T): regenerate the lock-coverage table of LRI/LRU from the
*current* source of boltons/cacheutils.py (DESIGN 1.3 / C03 "Tie").

For every public method of the table (see METHODS) that is defined in class LRI or
LRU, each simple statement -- and the test / iterable expression of each compound
one -- becomes one entry (touch, inlock):

  touch  TDirect  the statement itself reads or writes the cache's shared structures:
                  a super() call, self._anchor / self._link_lookup / any other private
                  attribute or helper of self, a local that was bound to such a value
                  and is subscripted / called / dereferenced, len(self), or `self`
                  handed to anything (comparison, iteration, argument);
         TCall    it calls a public operation that is itself in the table: self[...],
                  self.method(...), or a local alias of such a bound method;
         TNone    neither (counters, max_size, on_miss, self.__class__, `x is self`);
  inlock          lexically inside `with self._lock:`.

It also records what LRI.__init__ assigns to self._lock (threading.RLock / Lock).

FAILS CLOSED: any construct it does not understand raises TranslatorError, which the
driver reports as a broken tie; it never keeps an old table.  It is tolerant of the
method bodies changing as long as they stay within: assignments, expression
statements, return/raise/del/pass, if/for/while/try/with.
"""
import ast
import os

METHODS = {
    "__setitem__": "MSetItem", "__getitem__": "MGetItem", "get": "MGet",
    "__delitem__": "MDelItem", "pop": "MPop", "popitem": "MPopItem", "clear": "MClear",
    "setdefault": "MSetDefault", "update": "MUpdate", "__ior__": "MIor", "__eq__": "MEq",
    "copy": "MCopy", "__len__": "MLen", "__contains__": "MContains",
    "__or__": "MOr", "__ror__": "MRor", "__repr__": "MRepr", "__ne__": "MNe", "__copy__": "MCopy2",
}
# attributes of self that are configuration / statistics, not the shared structures
BENIGN_ATTRS = {"max_size", "on_miss", "hit_count", "miss_count", "soft_miss_count", "__class__"}
LOCK_ATTR = "_lock"


class TranslatorError(Exception):
    pass


def _is_self(n):
    return isinstance(n, ast.Name) and n.id == "self"


def _is_self_lock(n):
    return isinstance(n, ast.Attribute) and _is_self(n.value) and n.attr == LOCK_ATTR


class _Classifier:
    """classifies the expressions of one method; tracks local taints"""

    def __init__(self, where):
        self.where = where
        self.tainted = set()      # locals bound to values read from the shared structures
        self.aliases = set()      # locals bound to bound public methods of self

    def fail(self, node, why):
        raise TranslatorError("%s line %s: %s" % (self.where, getattr(node, "lineno", "?"), why))

    def classify(self, nodes):
        """-> 'TNone' | 'TCall' | 'TDirect' for a list of expression nodes"""
        direct = call = False
        for root in nodes:
            if root is None:
                continue
            parents = {}
            for p in ast.walk(root):
                for ch in ast.iter_child_nodes(p):
                    parents[ch] = p
            for n in ast.walk(root):
                if isinstance(n, (ast.Lambda, ast.FunctionDef, ast.AsyncFunctionDef, ast.ClassDef,
                                  ast.Await, ast.Yield, ast.YieldFrom, ast.NamedExpr)):
                    self.fail(n, "construct %s not understood" % type(n).__name__)
                if isinstance(n, ast.GeneratorExp):
                    # evaluated lazily, possibly after the with-block has been left
                    for m in ast.walk(n):
                        if isinstance(m, ast.Name) and (m.id == "self" or m.id in self.tainted or m.id in self.aliases):
                            self.fail(n, "generator expression over the cache's state (evaluated lazily)")
                if isinstance(n, ast.Call) and isinstance(n.func, ast.Name):
                    if n.func.id == "super":
                        direct = True
                    elif n.func.id in self.aliases:
                        call = True
                    elif n.func.id in self.tainted:
                        direct = True
                    elif n.func.id in ("getattr", "setattr", "delattr", "vars", "object") and \
                            any(_is_self(a) for a in n.args):
                        self.fail(n, "reflective access to self")
                if isinstance(n, ast.Name) and n.id == "self":
                    par = parents.get(n)
                    if isinstance(par, ast.Attribute) and par.value is n:
                        a = par.attr
                        if a == LOCK_ATTR:
                            self.fail(par, "self._lock used outside a with-item")
                        elif a in BENIGN_ATTRS:
                            pass
                        elif a in METHODS:
                            gp = parents.get(par)
                            if isinstance(gp, ast.Call) and gp.func is par:
                                call = True
                            # a bare bound method (alias) is harmless until called
                        elif a.startswith("_"):
                            direct = True
                        else:
                            self.fail(par, "unknown attribute self.%s" % a)
                    elif isinstance(par, ast.Subscript) and par.value is n:
                        call = True                      # self[...]  load / store / del
                    elif isinstance(par, ast.Compare) and all(isinstance(o, (ast.Is, ast.IsNot)) for o in par.ops):
                        pass                             # identity test only
                    elif isinstance(par, ast.Compare) and par.left is n and len(par.ops) == 1 \
                            and isinstance(par.ops[0], (ast.Eq, ast.NotEq)):
                        call = True                      # `self == x` / `self != x`: the cache's own (table) method
                    elif isinstance(par, ast.Return) or par is None:
                        pass                             # `return self`
                    else:
                        direct = True                    # self handed to something (len, ==, iteration, argument)
                if isinstance(n, ast.Name) and n.id in self.tainted:
                    par = parents.get(n)
                    if isinstance(par, (ast.Subscript, ast.Attribute)) and par.value is n:
                        direct = True
        return "TDirect" if direct else ("TCall" if call else "TNone")

    def bind(self, targets, value, value_class):
        """record taints / aliases introduced by an assignment"""
        names = []
        for t in targets:
            for n in ast.walk(t):
                if isinstance(n, ast.Name) and isinstance(n.ctx, ast.Store):
                    names.append(n.id)
        is_alias = (isinstance(value, ast.Attribute) and _is_self(value.value) and value.attr in METHODS)
        for nm in names:
            if nm == "self":
                self.fail(targets[0], "self rebound")
            if is_alias:
                self.aliases.add(nm)
                self.tainted.discard(nm)
            elif value_class == "TDirect":
                self.tainted.add(nm)
                self.aliases.discard(nm)
            else:
                # rebinding to something harmless clears the taint only if never tainted before;
                # keep taints (conservative)
                self.aliases.discard(nm)


def _flatten(cl, stmts, inlock, out):
    for s in stmts:
        if isinstance(s, ast.Expr):
            if isinstance(s.value, ast.Constant) and isinstance(s.value.value, str):
                continue                                   # docstring
            out.append((cl.classify([s.value]), inlock, s.lineno))
        elif isinstance(s, ast.Assign):
            c = cl.classify([s.value] + list(s.targets))
            out.append((c, inlock, s.lineno))
            cl.bind(s.targets, s.value, cl.classify([s.value]))
        elif isinstance(s, ast.AugAssign):
            out.append((cl.classify([s.value, s.target]), inlock, s.lineno))
        elif isinstance(s, ast.AnnAssign):
            out.append((cl.classify([s.value, s.target]), inlock, s.lineno))
            if s.value is not None:
                cl.bind([s.target], s.value, cl.classify([s.value]))
        elif isinstance(s, ast.Return):
            out.append((cl.classify([s.value]) if s.value is not None else "TNone", inlock, s.lineno))
        elif isinstance(s, ast.Raise):
            out.append((cl.classify([s.exc, s.cause]), inlock, s.lineno))
        elif isinstance(s, ast.Delete):
            out.append((cl.classify(list(s.targets)), inlock, s.lineno))
        elif isinstance(s, (ast.Pass, ast.Break, ast.Continue)):
            pass
        elif isinstance(s, ast.Assert):
            out.append((cl.classify([s.test, s.msg]), inlock, s.lineno))
        elif isinstance(s, ast.If):
            out.append((cl.classify([s.test]), inlock, s.lineno))
            _flatten(cl, s.body, inlock, out)
            _flatten(cl, s.orelse, inlock, out)
        elif isinstance(s, ast.While):
            out.append((cl.classify([s.test]), inlock, s.lineno))
            _flatten(cl, s.body, inlock, out)
            _flatten(cl, s.orelse, inlock, out)
        elif isinstance(s, ast.For):
            c = cl.classify([s.iter, s.target])
            out.append((c, inlock, s.lineno))
            cl.bind([s.target], s.iter, c)
            _flatten(cl, s.body, inlock, out)
            _flatten(cl, s.orelse, inlock, out)
        elif isinstance(s, ast.Try):
            _flatten(cl, s.body, inlock, out)
            for h in s.handlers:
                if h.type is not None and cl.classify([h.type]) != "TNone":
                    cl.fail(h, "exception type expression touches self")
                _flatten(cl, h.body, inlock, out)
            _flatten(cl, s.orelse, inlock, out)
            _flatten(cl, s.finalbody, inlock, out)
        elif isinstance(s, ast.With):
            if len(s.items) == 1 and _is_self_lock(s.items[0].context_expr):
                if s.items[0].optional_vars is not None:
                    cl.fail(s, "`with self._lock as ...` not understood")
                _flatten(cl, s.body, True, out)
            else:
                for it in s.items:
                    if _is_self_lock(it.context_expr):
                        cl.fail(s, "self._lock among several with-items")
                    out.append((cl.classify([it.context_expr, it.optional_vars]), inlock, s.lineno))
                _flatten(cl, s.body, inlock, out)
        else:
            cl.fail(s, "statement %s not understood" % type(s).__name__)


def _rlock_binding(tree):
    """what the module-level name used for the lock is bound to: dict name -> 'CtorRLock'/'CtorLock'"""
    names = {}

    def visit(stmts):
        for s in stmts:
            if isinstance(s, ast.ImportFrom) and s.module == "threading":
                for a in s.names:
                    bound = a.asname or a.name
                    if a.name == "RLock":
                        names[bound] = "CtorRLock"
                    elif a.name == "Lock":
                        names[bound] = "CtorLock"
                    else:
                        names.setdefault(bound, "CtorOther")
            elif isinstance(s, ast.Try):
                visit(s.body)        # the except-branch defines a dummy for builds without threads
            elif isinstance(s, ast.Assign):
                for t in s.targets:
                    if isinstance(t, ast.Name) and t.id in names:
                        names[t.id] = "CtorOther"          # rebound later: not understood
            elif isinstance(s, (ast.ClassDef, ast.FunctionDef)) and s.name in names:
                names[s.name] = "CtorOther"
    visit(tree.body)
    return names


def extract(repo):
    path = os.path.join(repo, "boltons", "cacheutils.py")
    src = open(path).read()
    tree = ast.parse(src)
    classes = {n.name: n for n in tree.body if isinstance(n, ast.ClassDef) and n.name in ("LRI", "LRU")}
    if set(classes) != {"LRI", "LRU"}:
        raise TranslatorError("classes LRI and LRU not both found at module level")
    def base_names(c):
        return [b.id if isinstance(b, ast.Name) else "?" for b in c.bases]
    if base_names(classes["LRI"]) != ["dict"] or base_names(classes["LRU"]) != ["LRI"]:
        raise TranslatorError("unexpected base classes: LRI%r LRU%r" % (base_names(classes["LRI"]), base_names(classes["LRU"])))
    for c in classes.values():
        if c.decorator_list or c.keywords:
            raise TranslatorError("class %s has decorators/keywords" % c.name)
    # nothing may patch the classes after their definition
    for s in tree.body:
        if isinstance(s, (ast.Assign, ast.AugAssign, ast.Delete)):
            tgts = s.targets if hasattr(s, "targets") else [s.target]
            for t in tgts:
                for n in ast.walk(t):
                    if isinstance(n, ast.Name) and n.id in ("LRI", "LRU"):
                        raise TranslatorError("module-level statement at line %d modifies LRI/LRU" % s.lineno)
        if isinstance(s, ast.Expr) and isinstance(s.value, ast.Call):
            for n in ast.walk(s.value):
                if isinstance(n, ast.Name) and n.id in ("LRI", "LRU", "setattr"):
                    raise TranslatorError("module-level call at line %d involves LRI/LRU" % s.lineno)

    lock_names = _rlock_binding(tree)
    ctor = None
    methods = []
    for cname in ("LRI", "LRU"):
        c = classes[cname]
        for item in c.body:
            if isinstance(item, ast.Expr) and isinstance(item.value, ast.Constant):
                continue
            if isinstance(item, (ast.Assign, ast.AnnAssign, ast.AugAssign)):
                tg = item.targets if isinstance(item, ast.Assign) else [item.target]
                for t in tg:
                    for n in ast.walk(t):
                        if isinstance(n, ast.Name) and (n.id in METHODS or n.id.startswith("_")):
                            raise TranslatorError("class-level binding of %s in %s not understood" % (n.id, cname))
                continue
            if not isinstance(item, ast.FunctionDef):
                raise TranslatorError("class %s: member %s at line %d not understood"
                                      % (cname, type(item).__name__, item.lineno))
            # every assignment to self._lock, wherever it is
            for n in ast.walk(item):
                if isinstance(n, ast.Attribute) and _is_self(n.value) and n.attr == LOCK_ATTR \
                        and isinstance(n.ctx, (ast.Store, ast.Del)):
                    if item.name != "__init__" or cname != "LRI":
                        raise TranslatorError("self._lock assigned in %s.%s" % (cname, item.name))
            if item.name == "__init__" and cname == "LRI":
                found = []
                for n in ast.walk(item):
                    if isinstance(n, ast.Assign) and any(_is_self_lock(t) for t in n.targets):
                        found.append(n)
                if len(found) != 1:
                    raise TranslatorError("LRI.__init__ assigns self._lock %d times" % len(found))
                v = found[0].value
                if not (isinstance(v, ast.Call) and not v.args and not v.keywords):
                    raise TranslatorError("self._lock is not assigned a plain constructor call")
                if isinstance(v.func, ast.Name):
                    ctor = lock_names.get(v.func.id, "CtorOther")
                elif isinstance(v.func, ast.Attribute) and isinstance(v.func.value, ast.Name) \
                        and v.func.value.id == "threading" and v.func.attr in ("RLock", "Lock"):
                    ctor = "CtorRLock" if v.func.attr == "RLock" else "CtorLock"
                else:
                    ctor = "CtorOther"
                # the lock must be unconditional: directly in the body of __init__
                if found[0] not in item.body:
                    raise TranslatorError("self._lock is assigned conditionally")
                continue
            if item.name == "__init__":
                raise TranslatorError("%s.__init__ not understood" % cname)
            if item.name not in METHODS:
                # private helpers, __repr__, __ne__, __copy__ ...: not operations of the table.  They may
                # take the lock, but only in the one understood way: `with self._lock:` (sole item, no
                # `as`); any other use of self._lock (acquire/release by hand, passing it on) fails closed
                ok_uses = set()
                for n in ast.walk(item):
                    if isinstance(n, ast.With) and len(n.items) == 1 and _is_self_lock(n.items[0].context_expr) \
                            and n.items[0].optional_vars is None:
                        ok_uses.add(id(n.items[0].context_expr))
                for n in ast.walk(item):
                    if _is_self_lock(n) and id(n) not in ok_uses:
                        raise TranslatorError("%s.%s uses self._lock other than as `with self._lock:`"
                                              % (cname, item.name))
                continue
            if item.decorator_list:
                raise TranslatorError("%s.%s is decorated" % (cname, item.name))
            if not item.args.args or item.args.args[0].arg != "self":
                raise TranslatorError("%s.%s: first parameter is not self" % (cname, item.name))
            cl = _Classifier("%s.%s" % (cname, item.name))
            out = []
            _flatten(cl, item.body, False, out)
            methods.append((cname, METHODS[item.name], out))
    if ctor is None:
        raise TranslatorError("LRI.__init__ with self._lock = ... not found")
    return ctor, methods


def render(ctor, methods):
    lines = ["(* GENERATED by harness/translators/c03_lock_ast.py from boltons/cacheutils.py -- do not edit *)",
             "From Boltons Require Import Lib.Prelude Lib.C03_Syntax.",
             "Definition gen_table : lock_table := mkTable %s [" % ctor]
    ms = []
    for (cname, m, stmts) in methods:
        ss = "; ".join("mkStmt %s %s" % (t, "true" if il else "false") for (t, il, _ln) in stmts)
        ms.append("  mkMeth %s %s [%s]" % (cname, m, ss))
    lines.append(";\n".join(ms))
    lines.append("].")
    return "\n".join(lines) + "\n"


def summary(ctor, methods):
    """python-side view used only by the directed search after a broken tie"""
    res = {}
    for (cname, m, stmts) in methods:
        d_out = sum(1 for (t, il, _) in stmts if t == "TDirect" and not il)
        c_out = sum(1 for (t, il, _) in stmts if t == "TCall" and not il)
        res[(cname, m)] = "Whole" if (d_out, c_out) == (0, 0) else ("Single" if (d_out, c_out) == (0, 1) else "Bad")
    return ctor, res


if __name__ == "__main__":
    import sys
    c, ms = extract(sys.argv[1] if len(sys.argv) > 1 else "/repo")
    print(render(c, ms))
