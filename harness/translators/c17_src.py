"""(T) for C17: the bodies of OneToOne.__delitem__, __setitem__, pop, popitem, clear and setdefault
are regenerated as Gallina from /repo's CURRENT source on every run (coq/Gen/C17_Src.v); theorems in
coq/Proofs/C17_SrcEq.v prove each generated function equal to the hand-written model's operation on
every state that satisfies the invariant (so the hidden KeyErrors of the paired writes never fire).

The statements of these methods are dict primitives on `self` / `self.inv`, which the generic
py2coq translator has no notion of (every statement would be a plug-in shape and exceptions do not fit
its flag scheme), so this is a dedicated translator for exactly that statement vocabulary, in
continuation-passing style over the exception monad of Lib/C17_Py.v.  It FAILS CLOSED (Unsupported)
on any statement, expression, parameter list or class layout it does not know.
"""
import ast
import os

import py2coq
from py2coq import Unsupported

METHODS = ["__delitem__", "__setitem__", "pop", "popitem", "clear", "setdefault"]
COQ_NAME = {"__delitem__": "src_delitem", "__setitem__": "src_setitem", "pop": "src_pop",
            "popitem": "src_popitem", "clear": "src_clear", "setdefault": "src_setdefault"}
# parameters expected (after self) and their Gallina types; a default is part of the expectation
PARAMS = {"__delitem__": [("key", "nat", None)], "__setitem__": [("key", "nat", None), ("val", "nat", None)],
          "pop": [("key", "nat", None), ("default", "option nat", "_MISSING")], "popitem": [], "clear": [],
          "setdefault": [("key", "nat", None), ("default", "nat", "None")]}
# reads that must stay the builtin dict's: the class must not define these
MUST_NOT_DEFINE = ["__getitem__", "__contains__", "__missing__", "get", "__iter__", "__len__"]


class Tr:
    def __init__(self, done):
        self.n = 0
        self.done = done          # methods already generated (callable from later ones)

    def fresh(self, p="t"):
        self.n += 1
        return "%s%d" % (p, self.n)

    # ---- helpers -------------------------------------------------------------
    def dsel(self, e):
        if isinstance(e, ast.Name) and e.id == "self":
            return "DSelf"
        if isinstance(e, ast.Attribute) and isinstance(e.value, ast.Name) and e.value.id == "self" and e.attr == "inv":
            return "DInv"
        raise Unsupported("dict operand %s" % ast.dump(e))

    def atom(self, e, env, binds):
        """evaluate e (may raise) -> name of a Gallina variable of type nat; appends monadic bindings"""
        if isinstance(e, ast.Name):
            if e.id not in env:
                raise Unsupported("name %s" % e.id)
            return env[e.id]
        if isinstance(e, ast.Subscript):
            d = self.dsel(e.value)
            a = self.atom(e.slice, env, binds)
            t = self.fresh()
            binds.append((t, "py_getitem self %s %s" % (d, a)))
            return t
        raise Unsupported("expression %s" % ast.dump(e))

    @staticmethod
    def wrap(binds, body):
        for v, m in reversed(binds):
            body = "bind (%s) (fun %s =>\n%s)" % (m, v, body)
        return body

    def dict_call(self, c):
        """dict.<name>(args...) -> (name, args) or None"""
        if isinstance(c, ast.Call) and isinstance(c.func, ast.Attribute) and isinstance(c.func.value, ast.Name) \
                and c.func.value.id == "dict" and not c.keywords:
            return c.func.attr, c.args
        return None

    # ---- statements (continuation-passing) ---------------------------------------
    def block(self, stmts, env):
        if not stmts:
            return "Ok (VNone, self)"
        s, rest = stmts[0], stmts[1:]
        if isinstance(s, ast.Expr) and isinstance(s.value, ast.Constant) and isinstance(s.value.value, str):
            return self.block(rest, env)
        if isinstance(s, ast.Expr):
            c = s.value
            if isinstance(c, ast.Call) and isinstance(c.func, ast.Name) and c.func.id == "hash" and len(c.args) == 1 \
                    and not c.keywords:
                b = []
                a = self.atom(c.args[0], env, b)
                return self.wrap(b, "bind (py_hash %s) (fun _ =>\n%s)" % (a, self.block(rest, env)))
            dc = self.dict_call(c)
            if dc:
                name, args = dc
                if name == "__delitem__" and len(args) == 2:
                    d = self.dsel(args[0])
                    b = []
                    a = self.atom(args[1], env, b)
                    return self.wrap(b, "bind (py_dict_delitem self %s %s) (fun self =>\n%s)" % (d, a, self.block(rest, env)))
                if name == "__setitem__" and len(args) == 3:
                    d = self.dsel(args[0])
                    b = []
                    a1 = self.atom(args[1], env, b)
                    a2 = self.atom(args[2], env, b)
                    return self.wrap(b, "bind (py_dict_setitem self %s %s %s) (fun self =>\n%s)" % (d, a1, a2, self.block(rest, env)))
                if name == "clear" and len(args) == 1:
                    return "let self := py_dict_clear self %s in\n%s" % (self.dsel(args[0]), self.block(rest, env))
            raise Unsupported("expression statement %s" % ast.dump(c))
        if isinstance(s, ast.Delete):
            if len(s.targets) != 1 or not isinstance(s.targets[0], ast.Subscript):
                raise Unsupported("del statement")
            t = s.targets[0]
            d = self.dsel(t.value)
            if "__delitem__" not in self.done:
                raise Unsupported("del before __delitem__ is known")
            b = []
            a = self.atom(t.slice, env, b)
            call = "src_delitem self %s" % a if d == "DSelf" else "on_inv (fun o => src_delitem o %s) self" % a
            return self.wrap(b, "bind (%s) (fun r => let self := snd r in\n%s)" % (call, self.block(rest, env)))
        if isinstance(s, ast.Assign):
            if len(s.targets) != 1:
                raise Unsupported("chained assignment")
            t = s.targets[0]
            if isinstance(t, ast.Subscript):                      # self[k] = v  /  self.inv[k] = v : the class's own __setitem__
                d = self.dsel(t.value)
                if "__setitem__" not in self.done:
                    raise Unsupported("item assignment before __setitem__ is known")
                b = []
                a1 = self.atom(t.slice, env, b)
                a2 = self.atom(s.value, env, b)
                call = "src_setitem self %s %s" % (a1, a2) if d == "DSelf" else \
                    "on_inv (fun o => src_setitem o %s %s) self" % (a1, a2)
                return self.wrap(b, "bind (%s) (fun r => let self := snd r in\n%s)" % (call, self.block(rest, env)))
            dc = self.dict_call(s.value)
            if isinstance(t, ast.Tuple) and len(t.elts) == 2 and all(isinstance(x, ast.Name) for x in t.elts) and dc \
                    and dc[0] == "popitem" and len(dc[1]) == 1:
                d = self.dsel(dc[1][0])
                k, v = self.fresh("k"), self.fresh("v")
                env2 = dict(env)
                env2[t.elts[0].id], env2[t.elts[1].id] = k, v
                return "bind (py_dict_popitem self %s) (fun r => let '(%s, %s, self) := r in\n%s)" % (
                    d, k, v, self.block(rest, env2))
            raise Unsupported("assignment %s" % ast.dump(s))
        if isinstance(s, ast.If):
            te = s.test
            # `default is not _MISSING`
            if isinstance(te, ast.Compare) and len(te.ops) == 1 and isinstance(te.ops[0], (ast.IsNot, ast.Is)) and \
                    isinstance(te.left, ast.Name) and isinstance(te.comparators[0], ast.Name) and \
                    te.comparators[0].id == "_MISSING":
                n = te.left.id
                if env.get(n) != "OPT:" + n:
                    raise Unsupported("_MISSING test on %s" % n)
                v = self.fresh("d")
                env_some = dict(env)
                env_some[n] = v
                some = self.block(s.body + rest, env_some) if isinstance(te.ops[0], ast.IsNot) else self.block(s.orelse + rest, env_some)
                none = self.block(s.orelse + rest, env) if isinstance(te.ops[0], ast.IsNot) else self.block(s.body + rest, env)
                return "match p_%s with\n| Some %s =>\n%s\n| None =>\n%s\nend" % (n, v, some, none)
            if isinstance(te, ast.Compare) and len(te.ops) == 1 and isinstance(te.ops[0], (ast.In, ast.NotIn)):
                d = self.dsel(te.comparators[0])
                b = []
                a = self.atom(te.left, env, b)
                c = self.fresh("c")
                yes, no = (s.body, s.orelse) if isinstance(te.ops[0], ast.In) else (s.orelse, s.body)
                return self.wrap(b, "bind (py_contains self %s %s) (fun %s =>\nif %s then\n%s\nelse\n%s)" % (
                    d, a, c, c, self.block(yes + rest, env), self.block(no + rest, env)))
            raise Unsupported("if test %s" % ast.dump(te))
        if isinstance(s, ast.Return):
            v = s.value
            if v is None:
                return "Ok (VNone, self)"
            if isinstance(v, ast.Tuple) and len(v.elts) == 2:
                b = []
                a1 = self.atom(v.elts[0], env, b)
                a2 = self.atom(v.elts[1], env, b)
                return self.wrap(b, "Ok (VPair %s %s, self)" % (a1, a2))
            dc = self.dict_call(v)
            if dc and dc[0] == "pop" and len(dc[1]) == 2:
                d = self.dsel(dc[1][0])
                b = []
                a = self.atom(dc[1][1], env, b)
                return self.wrap(b, "bind (py_dict_pop self %s %s) (fun r => Ok (VTok (fst r), snd r))" % (d, a))
            b = []
            a = self.atom(v, env, b)
            return self.wrap(b, "Ok (VTok %s, self)" % a)
        if isinstance(s, ast.Raise):
            e = s.exc
            if isinstance(e, ast.Call) and isinstance(e.func, ast.Name) and e.func.id == "KeyError" and s.cause is None:
                return "Raise KeyError"
            if isinstance(e, ast.Name) and e.id == "KeyError":
                return "Raise KeyError"
            raise Unsupported("raise %s" % ast.dump(s))
        if isinstance(s, ast.Pass):
            return self.block(rest, env)
        raise Unsupported("statement %s" % type(s).__name__)

    def method(self, node, name):
        a = node.args
        if a.vararg or a.kwarg or a.kwonlyargs or a.posonlyargs or node.decorator_list:
            raise Unsupported("%s: star parameters / decorators" % name)
        params = [x.arg for x in a.args]
        want = ["self"] + [p for p, _, _ in PARAMS[name]]
        if params != want:
            raise Unsupported("%s: parameters %s, expected %s" % (name, params, want))
        defaults = {x.arg: d for x, d in zip(a.args[len(a.args) - len(a.defaults):], a.defaults)}
        env = {}
        sig = []
        for p, ty, dflt in PARAMS[name]:
            got = defaults.get(p)
            if (dflt is None) != (got is None) or (got is not None and ast.dump(got) != ast.dump(ast.parse(dflt, mode="eval").body)):
                raise Unsupported("%s: default of %s changed" % (name, p))
            env[p] = ("OPT:" + p) if ty.startswith("option") else "p_" + p
            sig.append("(p_%s : %s)" % (p, ty))
        body = self.block(list(node.body), env)
        if "OPT:" in body:
            raise Unsupported("%s: optional parameter used outside a _MISSING test" % name)
        return "Definition %s (self : oto) %s : res (val * oto) :=\n%s.\n" % (COQ_NAME[name], " ".join(sig), body)


# ---------------------------------------------------------------------------------------------
# ManyToMany.add / remove / __delitem__ / replace: statements on self.data / self.inv.data (dicts of set objects)
# ---------------------------------------------------------------------------------------------
M_METHODS = ["add", "remove", "__delitem__", "replace"]
M_PARAMS = {"add": ["key", "val"], "remove": ["key", "val"], "__delitem__": ["key"], "replace": ["key", "newkey"]}
M_COQ = {"add": "srcm_add", "remove": "srcm_remove", "__delitem__": "srcm_delitem", "replace": "srcm_replace"}


class TrM:
    def msel(self, e):
        """self.data -> MData ; self.inv.data -> MInvData"""
        if isinstance(e, ast.Attribute) and e.attr == "data":
            v = e.value
            if isinstance(v, ast.Name) and v.id == "self":
                return "MData"
            if isinstance(v, ast.Attribute) and v.attr == "inv" and isinstance(v.value, ast.Name) and v.value.id == "self":
                return "MInvData"
        raise Unsupported("dict operand %s" % ast.dump(e))

    def name(self, e, env):
        if isinstance(e, ast.Name) and isinstance(env.get(e.id), str):
            return env[e.id]
        raise Unsupported("operand %s" % ast.dump(e))

    def setvar(self, e, env):
        """a local bound to a popped set value -> its Gallina list variable"""
        if isinstance(e, ast.Name) and isinstance(env.get(e.id), tuple) and env[e.id][0] == "set":
            return env[e.id][1]
        raise Unsupported("set operand %s" % ast.dump(e))

    def set_target(self, e, env):
        """the set object a .add/.remove call mutates: D[k] or a local alias of it -> (sel, k)"""
        if isinstance(e, ast.Name) and isinstance(env.get(e.id), tuple) and env[e.id][0] == "alias":
            return env[e.id][1], env[e.id][2]
        return self.entry(e, env)

    def entry(self, e, env):
        """D[k] -> (sel, k)"""
        if isinstance(e, ast.Subscript):
            return self.msel(e.value), self.name(e.slice, env)
        raise Unsupported("entry %s" % ast.dump(e))

    def block(self, stmts, env):
        if not stmts:
            return "Ok (VNone, self)"
        s, rest = stmts[0], stmts[1:]
        if isinstance(s, ast.Expr) and isinstance(s.value, ast.Constant) and isinstance(s.value.value, str):
            return self.block(rest, env)
        if isinstance(s, ast.Return) and s.value is None:
            return "Ok (VNone, self)"
        if isinstance(s, ast.Assign) and len(s.targets) == 1 and isinstance(s.targets[0], ast.Name):
            n, v = s.targets[0].id, s.value
            if n in env:
                raise Unsupported("re-binding of %s" % n)
            if isinstance(v, ast.Call) and isinstance(v.func, ast.Attribute) and v.func.attr == "pop" and len(v.args) == 1 \
                    and not v.keywords:                               # fwdset = D.pop(k)
                d = self.msel(v.func.value)
                k = self.name(v.args[0], env)
                env2 = dict(env)
                env2[n] = ("set", "l_" + n)
                return "bind (pm_pop self %s %s) (fun r => let '(l_%s, self) := r in\n%s)" % (d, k, n, self.block(rest, env2))
            if isinstance(v, ast.Subscript):                           # revset = D[k] : a local alias of the stored set
                d, k = self.entry(v, env)
                env2 = dict(env)
                env2[n] = ("alias", d, k)
                return "bind (pm_lookup self %s %s) (fun _ =>\n%s)" % (d, k, self.block(rest, env2))
            raise Unsupported("assignment %s" % ast.dump(s))
        if isinstance(s, ast.Expr) and isinstance(s.value, ast.Call) and isinstance(s.value.func, ast.Attribute) \
                and s.value.func.attr == "update" and len(s.value.args) == 1 and not s.value.keywords:
            # D.setdefault(k, set()).update(fwdset)
            c = s.value.func.value
            if isinstance(c, ast.Call) and isinstance(c.func, ast.Attribute) and c.func.attr == "setdefault" and \
                    len(c.args) == 2 and not c.keywords and isinstance(c.args[1], ast.Call) and \
                    isinstance(c.args[1].func, ast.Name) and c.args[1].func.id == "set" and not c.args[1].args:
                d = self.msel(c.func.value)
                k = self.name(c.args[0], env)
                l = self.setvar(s.value.args[0], env)
                return "let self := pm_setdefault_update self %s %s %s in\n%s" % (d, k, l, self.block(rest, env))
            raise Unsupported("update call %s" % ast.dump(s.value))
        if isinstance(s, ast.If) and not s.orelse:
            te = s.test
            if isinstance(te, ast.Compare) and len(te.ops) == 1 and isinstance(te.ops[0], ast.NotIn):
                d = self.msel(te.comparators[0])
                a = self.name(te.left, env)
                return "bind (pm_contains self %s %s) (fun c =>\nif c then\n%s\nelse\n%s)" % (
                    d, a, self.block(rest, env), self.block(s.body + rest, env))
            if isinstance(te, ast.UnaryOp) and isinstance(te.op, ast.Not):
                d, k = self.entry(te.operand, env)
                return "bind (pm_truthy self %s %s) (fun c =>\nif c then\n%s\nelse\n%s)" % (
                    d, k, self.block(rest, env), self.block(s.body + rest, env))
            raise Unsupported("if test %s" % ast.dump(te))
        if isinstance(s, ast.Assign) and len(s.targets) == 1 and isinstance(s.targets[0], ast.Subscript):
            v = s.value
            if isinstance(v, ast.Call) and isinstance(v.func, ast.Name) and v.func.id == "set" and not v.args and not v.keywords:
                d, k = self.entry(s.targets[0], env)
                return "let self := pm_set_empty self %s %s in\n%s" % (d, k, self.block(rest, env))
            raise Unsupported("assignment %s" % ast.dump(s))
        if isinstance(s, ast.Expr) and isinstance(s.value, ast.Call) and isinstance(s.value.func, ast.Attribute) \
                and s.value.func.attr in ("add", "remove") and len(s.value.args) == 1 and not s.value.keywords:
            d, k = self.set_target(s.value.func.value, env)
            a = self.name(s.value.args[0], env)
            prim = "pm_set_add" if s.value.func.attr == "add" else "pm_set_remove"
            return "bind (%s self %s %s %s) (fun self =>\n%s)" % (prim, d, k, a, self.block(rest, env))
        if isinstance(s, ast.For) and not s.orelse and isinstance(s.target, ast.Name):
            # for v in D.pop(k): body      (body without break / return / continue)
            it = s.iter
            for n in ast.walk(ast.Module(body=s.body, type_ignores=[])):
                if isinstance(n, (ast.Break, ast.Return, ast.Continue, ast.Yield)):
                    raise Unsupported("control flow inside the loop body")
            v = s.target.id
            if isinstance(it, ast.Name):                               # for v in fwdset  (a popped set held in a local)
                l = self.setvar(it, env)
                if v in env:
                    raise Unsupported("loop variable shadows %s" % v)
                env2 = dict(env)
                env2[v] = "p_" + v
                return "bind (pm_for %s (fun self p_%s =>\n%s) self) (fun self =>\n%s)" % (
                    l, v, self.block(list(s.body), env2), self.block(rest, env))
            if not (isinstance(it, ast.Call) and isinstance(it.func, ast.Attribute) and it.func.attr == "pop"
                    and len(it.args) == 1 and not it.keywords):
                raise Unsupported("loop iterable %s" % ast.dump(it))
            d = self.msel(it.func.value)
            k = self.name(it.args[0], env)
            if v in env:
                raise Unsupported("loop variable shadows %s" % v)
            env2 = dict(env)
            env2[v] = "p_" + v
            body = self.block(list(s.body), env2)
            return ("bind (pm_pop self %s %s) (fun r => let '(vals, self) := r in\n"
                    "bind (pm_for vals (fun self p_%s =>\n%s) self) (fun self =>\n%s))" % (d, k, v, body, self.block(rest, env)))
        if isinstance(s, ast.Delete) and len(s.targets) == 1:
            d, k = self.entry(s.targets[0], env)
            return "bind (pm_delitem self %s %s) (fun self =>\n%s)" % (d, k, self.block(rest, env))
        raise Unsupported("statement %s" % ast.dump(s)[:200])

    def method(self, node, name):
        a = node.args
        if a.vararg or a.kwarg or a.kwonlyargs or a.posonlyargs or a.defaults or node.decorator_list:
            raise Unsupported("%s: parameters" % name)
        params = [x.arg for x in a.args]
        if params != ["self"] + M_PARAMS[name]:
            raise Unsupported("%s: parameters %s" % (name, params))
        env = {p: "p_" + p for p in M_PARAMS[name]}
        return "Definition %s (self : m2m) %s : res (val * m2m) :=\n%s.\n" % (
            M_COQ[name], " ".join("(p_%s : nat)" % p for p in M_PARAMS[name]), self.block(list(node.body), env))


def generate_m2m(tree):
    cls = [n for n in tree.body if isinstance(n, ast.ClassDef) and n.name == "ManyToMany"]
    if len(cls) != 1 or cls[0].bases:
        raise Unsupported("class ManyToMany not found / has base classes")
    defined = {n.name: n for n in cls[0].body if isinstance(n, ast.FunctionDef)}
    out = []
    for m in M_METHODS:
        if m not in defined:
            raise Unsupported("ManyToMany.%s missing" % m)
        out.append(TrM().method(defined[m], m))
    return out


# ---------------------------------------------------------------------------------------------
# OneToOne.update / __ior__ : type dispatch on the argument, validation loops, the final write loop
# ---------------------------------------------------------------------------------------------
class TrU:
    """locals: keys_vals (list of pairs); parameters: dict_or_iterable (-> arg : uarg), **kw (-> kw : list kv)"""
    ARG, KW, KV = "dict_or_iterable", "kw", "keys_vals"

    def is_name(self, e, n):
        return isinstance(e, ast.Name) and e.id == n

    def call_of(self, e, fname, nargs):
        return isinstance(e, ast.Call) and isinstance(e.func, ast.Name) and e.func.id == fname and \
            len(e.args) == nargs and not e.keywords

    def meth_of(self, e, objname, attr):
        return isinstance(e, ast.Call) and isinstance(e.func, ast.Attribute) and e.func.attr == attr and \
            self.is_name(e.func.value, objname) and not e.args and not e.keywords

    def loop(self, s, rest):
        if s.orelse:
            raise Unsupported("for-else")
        for n in ast.walk(ast.Module(body=s.body, type_ignores=[])):
            if isinstance(n, (ast.Break, ast.Return, ast.Continue, ast.Yield, ast.For, ast.If)):
                raise Unsupported("control flow inside a loop body of update")
        # ---- iterable and binder
        t, it = s.target, s.iter
        if isinstance(t, ast.Name) and self.meth_of(it, self.ARG, "values"):
            lst, binder, names = "(uarg_values arg)", "p_%s" % t.id, {t.id: "p_" + t.id}
        elif isinstance(t, ast.Name) and self.meth_of(it, self.KW, "values"):
            lst, binder, names = "(map snd kw)", "p_%s" % t.id, {t.id: "p_" + t.id}
        elif isinstance(t, ast.Tuple) and len(t.elts) == 2 and all(isinstance(x, ast.Name) for x in t.elts) and \
                self.is_name(it, self.KV):
            a, b = t.elts[0].id, t.elts[1].id
            lst, binder, names = "keys_vals", "p", {a: "(fst p)", b: "(snd p)"}
        else:
            raise Unsupported("loop %s" % ast.dump(s)[:200])
        # ---- what the body assigns
        writes_self = any(isinstance(x, ast.Assign) and isinstance(x.targets[0], ast.Subscript) for x in s.body)
        writes_kv = any(isinstance(x, ast.Assign) and self.is_name(x.targets[0], self.KV) for x in s.body)
        if writes_self and writes_kv:
            raise Unsupported("loop body assigns both self and keys_vals")
        carried = "self" if writes_self else ("keys_vals" if writes_kv else "_u")
        init = "self" if writes_self else ("keys_vals" if writes_kv else "tt")
        body = self.lbody(list(s.body), names, carried if carried != "_u" else "tt")
        return "bind (pfor %s (fun %s %s =>\n%s) %s) (fun %s =>\n%s)" % (
            lst, carried, binder, body, init, carried if carried != "_u" else "_", self.block(rest))

    def lbody(self, stmts, names, result):
        if not stmts:
            return "Ok %s" % result
        s, rest = stmts[0], stmts[1:]
        if isinstance(s, ast.Expr) and self.call_of(s.value, "hash", 1) and isinstance(s.value.args[0], ast.Name) and \
                s.value.args[0].id in names:
            return "bind (py_hash %s) (fun _ =>\n%s)" % (names[s.value.args[0].id], self.lbody(rest, names, result))
        if isinstance(s, ast.Assign) and len(s.targets) == 1 and self.is_name(s.targets[0], self.KV) and \
                self.call_of(s.value, "list", 1) and self.meth_of(s.value.args[0], self.ARG, "items"):
            return "let keys_vals := uarg_items arg in\n%s" % self.lbody(rest, names, result)
        if isinstance(s, ast.Assign) and len(s.targets) == 1 and isinstance(s.targets[0], ast.Subscript) and \
                self.is_name(s.targets[0].value, "self") and isinstance(s.targets[0].slice, ast.Name) and \
                s.targets[0].slice.id in names and isinstance(s.value, ast.Name) and s.value.id in names:
            return "bind (src_setitem self %s %s) (fun r => let self := snd r in\n%s)" % (
                names[s.targets[0].slice.id], names[s.value.id], self.lbody(rest, names, result))
        raise Unsupported("loop body statement %s" % ast.dump(s)[:200])

    def block(self, stmts):
        if not stmts:
            return "Ok (VNone, self)"
        s, rest = stmts[0], stmts[1:]
        if isinstance(s, ast.Expr) and isinstance(s.value, ast.Constant) and isinstance(s.value.value, str):
            return self.block(rest)
        if isinstance(s, ast.Assign) and len(s.targets) == 1 and self.is_name(s.targets[0], self.KV):
            v = s.value
            if isinstance(v, ast.List) and not v.elts:
                return "let keys_vals := [] in\n%s" % self.block(rest)
            if self.call_of(v, "list", 1) and self.is_name(v.args[0], self.ARG):
                return "bind (uarg_list arg) (fun keys_vals =>\n%s)" % self.block(rest)
            raise Unsupported("assignment to keys_vals: %s" % ast.dump(v)[:200])
        if isinstance(s, ast.If):
            te = s.test
            if self.call_of(te, "isinstance", 2) and self.is_name(te.args[0], self.ARG) and self.is_name(te.args[1], "dict"):
                return "if uarg_is_dict arg then\n%s\nelse\n%s" % (self.block(s.body + rest), self.block(s.orelse + rest))
            # if callable(getattr(x, 'keys', None)): x = [(k, x[k]) for k in x.keys()]
            if self.call_of(te, "callable", 1) and self.call_of(te.args[0], "getattr", 3) and not s.orelse and \
                    self.is_name(te.args[0].args[0], self.ARG) and isinstance(te.args[0].args[1], ast.Constant) and \
                    te.args[0].args[1].value == "keys" and isinstance(te.args[0].args[2], ast.Constant) and \
                    te.args[0].args[2].value is None and len(s.body) == 1:
                b = s.body[0]
                want = ast.parse("dict_or_iterable = [(k, dict_or_iterable[k]) for k in dict_or_iterable.keys()]").body[0]
                if ast.dump(b) != ast.dump(want):
                    raise Unsupported("mapping conversion of an unknown shape")
                return "let arg := if uarg_has_keys arg then uarg_of_mapping arg else arg in\n%s" % self.block(rest)
            raise Unsupported("if test %s" % ast.dump(te)[:200])
        if isinstance(s, ast.For):
            return self.loop(s, rest)
        if isinstance(s, ast.Expr) and isinstance(s.value, ast.Call) and isinstance(s.value.func, ast.Attribute) and \
                s.value.func.attr == "extend" and self.is_name(s.value.func.value, self.KV) and len(s.value.args) == 1 and \
                self.meth_of(s.value.args[0], self.KW, "items"):
            return "let keys_vals := keys_vals ++ kw in\n%s" % self.block(rest)
        raise Unsupported("statement of update: %s" % ast.dump(s)[:200])

    def update(self, node):
        a = node.args
        if [x.arg for x in a.args] != ["self", self.ARG] or a.vararg or a.kwonlyargs or a.posonlyargs or a.defaults or \
                a.kwarg is None or a.kwarg.arg != self.KW or node.decorator_list:
            raise Unsupported("update: parameter list changed")
        return "Definition src_update (self : oto) (arg : uarg) (kw : list kv) : res (val * oto) :=\n%s.\n" % \
            self.block(list(node.body))

    def ior(self, node):
        want = ast.parse("def __ior__(self, other):\n    self.update(other)\n    return self").body[0]
        if ast.dump(node.args) != ast.dump(want.args) or [ast.dump(x) for x in node.body] != [ast.dump(x) for x in want.body]:
            raise Unsupported("__ior__ of an unknown shape")
        return ("Definition src_ior (self : oto) (arg : uarg) : res (val * oto) :=\n"
                "bind (src_update self arg []) (fun r => Ok (VSelf, snd r)).\n")


def generate(repo):
    path = os.path.join(repo, "boltons", "dictutils.py")
    tree = ast.parse(open(path).read())
    cls = [n for n in tree.body if isinstance(n, ast.ClassDef) and n.name == "OneToOne"]
    if len(cls) != 1:
        raise Unsupported("class OneToOne not found")
    cls = cls[0]
    if [ast.dump(b) for b in cls.bases] != [ast.dump(ast.Name(id="dict", ctx=ast.Load()))]:
        raise Unsupported("OneToOne is no longer a direct subclass of dict")
    defined = {}
    for n in cls.body:
        if isinstance(n, ast.FunctionDef):
            defined[n.name] = n
        elif isinstance(n, ast.Assign):
            for t in n.targets:
                if isinstance(t, ast.Name):
                    defined[t.id] = n
    for m in MUST_NOT_DEFINE:
        if m in defined:
            raise Unsupported("OneToOne defines %s: reads are no longer the builtin dict's" % m)
    out = ["(* GENERATED on every run by harness/translators/c17_src.py from %s (class OneToOne); do not edit." % path,
           "   Each method body is transcribed statement by statement into the exception monad of Lib/C17_Py.v. *)",
           "From Boltons Require Import Lib.Prelude Model.C17_Model Lib.C17_Py.", ""]
    done = set()
    for m in METHODS:
        node = defined.get(m)
        if not isinstance(node, ast.FunctionDef):
            raise Unsupported("OneToOne.%s is not a plain method" % m)
        out.append(Tr(done).method(node, m))
        done.add(m)
    for m in ("update", "__ior__"):
        if not isinstance(defined.get(m), ast.FunctionDef):
            raise Unsupported("OneToOne.%s is not a plain method" % m)
    out.append(TrU().update(defined["update"]))
    out.append(TrU().ior(defined["__ior__"]))
    out.append("(* class ManyToMany: add / remove / __delitem__ / replace *)")
    out += generate_m2m(tree)
    return "\n".join(out)
