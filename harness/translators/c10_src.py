"""(T) tie for C10: BarrelList._translate_index regenerated as Gallina from /repo's current source by
py2coq (fail closed).  Proofs/C10_SrcEq.v proves the generated function equal to the model's
translate_index (on a BarrelList with at least one sub-list; with none Python raises
UnboundLocalError and the loop variables are pre-bound to 0 here).

Representation: integers are Z; self.lists is the model's list of sub-lists; `None` in the returned
pair is the sentinel -1 (never a valid list index), so the result type is Z * Z."""
import ast
import os
import py2coq


def _len(T, e, scope):
    """len(self) is BarrelList.__len__ (sum of the sub-list lengths); len(<list expression>) is the list length"""
    if e.keywords or len(e.args) != 1:
        raise py2coq.Unsupported("len with %d arguments" % len(e.args))
    a = e.args[0]
    if isinstance(a, ast.Name) and a.id == "self":
        return "(Z.of_nat (bl_len self))"
    return "(zlen %s)" % T.expr(a, scope)


def _int_locals(path, qualname, lists):
    """every local that is assigned / augmented / bound by the for loop is an integer, except the one(s) bound to
    self.lists (renaming a local does not break the tie; anything else still fails closed)"""
    fn = py2coq.get_function(path, qualname)
    kinds = {a.arg: "int" for a in fn.args.args if a.arg != "self"}
    for node in ast.walk(fn):
        if isinstance(node, ast.Name) and isinstance(node.ctx, ast.Store):
            kinds.setdefault(node.id, "int")
    # a, b = x, self.lists  /  b = self.lists : those names hold the list of sub-lists
    for node in ast.walk(fn):
        if isinstance(node, ast.Assign):
            tg, val = node.targets[0], node.value
            pairs = zip(tg.elts, val.elts) if isinstance(tg, ast.Tuple) and isinstance(val, ast.Tuple) else [(tg, val)]
            for t, v in pairs:
                if (isinstance(t, ast.Name) and isinstance(v, ast.Attribute) and isinstance(v.value, ast.Name)
                        and v.value.id == "self" and v.attr == lists):
                    kinds[t.id] = "lists"
    return fn, kinds


def _annotate(text, kinds):
    """py2coq leaves the fold's pattern lambda untyped, which Coq cannot infer for a tuple state: give fold_left its
    two type arguments (state: break flags are bool, integer locals are Z; item: Z).  Fail closed unless there is
    exactly one loop whose state consists of such names only."""
    import re
    m = re.findall(r"fold_left \(fun '\(([^)]*)\) ", text)
    if len(m) != 1:
        raise py2coq.Unsupported("expected exactly one for-loop with a tuple state")
    tys = []
    for n in [x.strip() for x in m[0].split(",")]:
        if n.startswith("_brk") or n.startswith("_ret"):
            tys.append("bool")
        elif kinds.get(n) == "int":
            tys.append("Z")
        else:
            raise py2coq.Unsupported("loop state variable %s of kind %s" % (n, kinds.get(n)))
    return text.replace("fold_left (fun '(", "@fold_left (%s) Z (fun '(" % " * ".join(tys))


HEADER = """(* GENERATED on every run by harness/translators/c10_src.py from %s
   (BarrelList._translate_index); do not edit.  Integers are Z, self.lists is the list of sub-lists,
   None in the result is the sentinel -1. *)
From Boltons Require Import Lib.Prelude Lib.PySrc Spec.C10_Spec Model.C10_Model.
Local Open Scope Z_scope.
Section Src.
Context {A : Type}.
Definition src_lists (s : barrel (A := A)) : list (list A) := s.
Definition src_sub (l : list (list A)) (i : Z) : list A := nth (Z.to_nat i) l [].
"""


def generate(repo):
    path = os.path.join(repo, "boltons", "listutils.py")
    fn, kinds = _int_locals(path, "BarrelList._translate_index", "lists")
    loops = [n for n in ast.walk(fn) if isinstance(n, ast.For)]
    if len(loops) != 1 or not isinstance(loops[0].target, ast.Name):
        raise py2coq.Unsupported("expected exactly one for-loop over a plain name")
    # names read after the loop must be pre-bound (Python: UnboundLocalError when self.lists is empty)
    assigned_in_loop = {n.id for s in loops[0].body for n in ast.walk(s) if isinstance(n, ast.Name) and isinstance(n.ctx, ast.Store)}
    prebind = {loops[0].target.id: "0"}
    for n in sorted(assigned_in_loop):
        if kinds.get(n) == "int" and n not in [a.arg for a in fn.args.args]:
            prebind.setdefault(n, "0")
    cfg = {"name": "src_translate_index", "params": [("self", "barrel (A := A)"), ("index", "Z")], "ret": "(Z * Z)%type",
           "num": "Z", "rv_default": "(0, 0)",
           "attrs": {"lists": ("src_lists", None, "lists")},
           "calls": {"len": (_len, "int")},
           "subscripts": {("lists", "[i]"): ("src_sub", "list")},
           "consts": {"None": "(-1)"},
           "kinds": kinds, "prebind": prebind, "flagmode": True}
    text = _annotate(py2coq.translate(path, "BarrelList._translate_index", cfg), kinds)
    return {"C10_Src": HEADER % "boltons/listutils.py" + text + "End Src.\n"}


if __name__ == "__main__":
    import sys
    print(generate(sys.argv[1] if len(sys.argv) > 1 else "/repo")["C10_Src"])
