"""(T) tie for C15: boltons.iterutils.backoff_iter regenerated as Gallina from /repo's current source.

A small fail-closed translator of the Python subset backoff_iter is written in, onto the float
interface of coq/Lib/C15_Float.v (fops F).  It does not use py2coq (no floats, no while loops
there).  Everything it does not recognise raises Unsupported: the check then reports a broken tie.

What is emitted (coq/Gen/C15_Src.v), all from the AST of the function as it is now:
  src_count_loop   the `while cur < stop:` loop of the `count is None` block (a Fixpoint with fuel;
                   `raise ValueError` inside it = DCStall)
  src_prepare      every statement before the main loop, in order: the float() conversions
                   (identity on floats), the `if ...: raise ValueError` chain, the `count is None`
                   block, the negative-count test, the `if jitter:` block
  src_init         `cur, i = start, 0`
  src_continue     the main loop's condition  count == 'repeat' or i < count
  src_emit         the if/elif that computes cur_ret (random.random() is the argument r)
  src_step         the statements after `yield cur_ret; i += 1`
coq/Proofs/C15_SrcEq.v proves each equal to the hand-written model function the property theorems
are about (default_count, prepare, emit, step; src_continue/src_init give max(0,count) turns from
cur = start).

Typing conventions (checked, not inferred): start/stop/factor/jitter/cur/nxt/cur_ret are floats;
`count` is None | int | 'repeat' (Coq: count, after the None block: cnt = NFin z | NInf); i is an int.
An int literal assigned to or compared with a float variable is that float (0 -> f0, 1 -> f1).
"""
import ast
import os


class Unsupported(Exception):
    pass


FLOATS = {"start", "stop", "factor", "jitter", "cur", "nxt", "cur_ret"}


def fail(msg, node=None):
    where = " (line %s)" % getattr(node, "lineno", "?") if node is not None else ""
    raise Unsupported(msg + where)


# ------------------------------------------------------------------ float expressions
def fconst(node):
    """0.0/0 -> f0, 1.0/1 -> f1, -1.0/-1 -> fm1"""
    neg = False
    if isinstance(node, ast.UnaryOp) and isinstance(node.op, ast.USub):
        neg, node = True, node.operand
    if not (isinstance(node, ast.Constant) and type(node.value) in (int, float)):
        return None
    v = float(node.value)
    if neg:
        v = -v
    if v == 0.0 and not neg:
        return "(f0 fo)"
    if v == 1.0:
        return "(f1 fo)"
    if v == -1.0:
        return "(fm1 fo)"
    fail("float constant %r has no name in the float interface" % v, node)


def fexpr(e):
    c = fconst(e)
    if c is not None:
        return c
    if isinstance(e, ast.Name):
        if e.id not in FLOATS:
            fail("name %s is not a known float variable" % e.id, e)
        return e.id
    if isinstance(e, ast.BinOp):
        if isinstance(e.op, ast.Mult):
            return "(fmul fo %s %s)" % (fexpr(e.left), fexpr(e.right))
        if isinstance(e.op, ast.Sub):
            return "(fsub fo %s %s)" % (fexpr(e.left), fexpr(e.right))
        fail("float operator %s" % type(e.op).__name__, e)
    if isinstance(e, ast.IfExp):
        return "(if %s then %s else %s)" % (bexpr(e.test), fexpr(e.body), fexpr(e.orelse))
    if isinstance(e, ast.Call):
        f = e.func
        if (isinstance(f, ast.Attribute) and f.attr == "random" and isinstance(f.value, ast.Name)
                and f.value.id == "random" and not e.args and not e.keywords):
            return "r"                       # the draw
        if isinstance(f, ast.Name) and f.id == "float" and len(e.args) == 1 and not e.keywords:
            return fexpr(e.args[0])          # float(x) of a float is x
    fail("float expression %s" % ast.dump(e)[:80], e)


def cmp1(op, a, b, node):
    if isinstance(op, ast.Lt):
        return "(fltb fo %s %s)" % (a, b)
    if isinstance(op, ast.Gt):
        return "(fltb fo %s %s)" % (b, a)
    if isinstance(op, ast.LtE):
        return "(fleb fo %s %s)" % (a, b)
    if isinstance(op, ast.GtE):
        return "(fleb fo %s %s)" % (b, a)
    if isinstance(op, ast.Eq):
        return "(feqb fo %s %s)" % (a, b)
    fail("comparison %s" % type(op).__name__, node)


def bexpr(e):
    """boolean expression over floats"""
    if isinstance(e, ast.UnaryOp) and isinstance(e.op, ast.Not):
        return "(negb %s)" % bexpr(e.operand)
    if isinstance(e, ast.Compare):
        terms = [e.left] + list(e.comparators)
        parts = [cmp1(op, fexpr(a), fexpr(b), e) for op, a, b in zip(e.ops, terms, terms[1:])]
        out = parts[0]
        for p in parts[1:]:
            out = "(%s && %s)" % (out, p)
        return out
    if isinstance(e, ast.Name) and e.id in FLOATS:
        return "(negb (feqb fo %s (f0 fo)))" % e.id          # truthiness of a float
    fail("boolean expression %s" % ast.dump(e)[:80], e)


# ------------------------------------------------------------------ statements
def is_raise_value_error(s):
    return (isinstance(s, ast.Raise) and s.cause is None and isinstance(s.exc, ast.Call)
            and isinstance(s.exc.func, ast.Name) and s.exc.func.id == "ValueError")


def is_float_conv(s):
    """x = float(x)"""
    return (isinstance(s, ast.Assign) and len(s.targets) == 1 and isinstance(s.targets[0], ast.Name)
            and isinstance(s.value, ast.Call) and isinstance(s.value.func, ast.Name)
            and s.value.func.id == "float" and len(s.value.args) == 1
            and isinstance(s.value.args[0], ast.Name) and s.value.args[0].id == s.targets[0].id
            and s.targets[0].id in FLOATS)


def float_block(stmts, var):
    """A block of if/elif/else, `var = e`, `var *= e` statements acting on the single float variable
    `var`, as nested lets ending in the variable."""
    out = ""
    for s in stmts:
        out += "let %s := %s in\n" % (var, float_stmt(s, var))
    return out + var


def float_stmt(s, var):
    """value of `var` after the statement (which may only assign `var`)"""
    if isinstance(s, ast.Assign) and len(s.targets) == 1 and isinstance(s.targets[0], ast.Name) \
            and s.targets[0].id == var:
        return fexpr(s.value)
    if isinstance(s, ast.AugAssign) and isinstance(s.target, ast.Name) and s.target.id == var \
            and isinstance(s.op, ast.Mult):
        return "(fmul fo %s %s)" % (var, fexpr(s.value))
    if isinstance(s, ast.If):
        then = seq_value(s.body, var)
        els = seq_value(s.orelse, var) if s.orelse else var
        return "(if %s then %s else %s)" % (bexpr(s.test), then, els)
    fail("statement in a float block: %s" % type(s).__name__, s)


def seq_value(stmts, var):
    if len(stmts) == 1:
        return float_stmt(stmts[0], var)
    return "(" + float_block(stmts, var) + ")"


# ------------------------------------------------------------------ the function
def count_loop(block):
    """count, cur = 1, start ; while cur < stop: nxt = e ; if c: raise ValueError ; count, cur = count + 1, nxt"""
    if len(block) != 2:
        fail("`count is None` block: expected an initialisation and a while loop", block[0])
    init, loop = block
    ok = (isinstance(init, ast.Assign) and len(init.targets) == 1 and isinstance(init.targets[0], ast.Tuple)
          and [getattr(t, "id", None) for t in init.targets[0].elts] == ["count", "cur"]
          and isinstance(init.value, ast.Tuple) and len(init.value.elts) == 2
          and isinstance(init.value.elts[0], ast.Constant) and type(init.value.elts[0].value) is int)
    if not ok:
        fail("`count is None` block: initialisation is not `count, cur = <int>, <float>`", init)
    count0 = init.value.elts[0].value
    cur0 = fexpr(init.value.elts[1])
    if not (isinstance(loop, ast.While) and not loop.orelse):
        fail("`count is None` block: no while loop", loop)
    cond = bexpr(loop.test)
    body = list(loop.body)
    lets = ""
    while body and isinstance(body[0], ast.Assign) and len(body[0].targets) == 1 \
            and isinstance(body[0].targets[0], ast.Name) and body[0].targets[0].id == "nxt":
        lets += "let nxt := %s in\n        " % fexpr(body.pop(0).value)
    guards = []
    while body and isinstance(body[0], ast.If) and not body[0].orelse and len(body[0].body) == 1 \
            and is_raise_value_error(body[0].body[0]):
        guards.append(bexpr(body.pop(0).test))
    if len(body) != 1:
        fail("count loop: unexpected statements", loop)
    upd = body[0]
    ok = (isinstance(upd, ast.Assign) and len(upd.targets) == 1 and isinstance(upd.targets[0], ast.Tuple)
          and [getattr(t, "id", None) for t in upd.targets[0].elts] == ["count", "cur"]
          and isinstance(upd.value, ast.Tuple) and len(upd.value.elts) == 2)
    if not ok:
        fail("count loop: last statement is not `count, cur = ..., ...`", upd)
    c1 = upd.value.elts[0]
    if not (isinstance(c1, ast.BinOp) and isinstance(c1.op, ast.Add) and isinstance(c1.left, ast.Name)
            and c1.left.id == "count" and isinstance(c1.right, ast.Constant) and type(c1.right.value) is int):
        fail("count loop: count is not incremented by an int constant", upd)
    step = "src_count_loop k stop factor (count + %d)%%Z %s" % (c1.right.value, fexpr(upd.value.elts[1]))
    for g in reversed(guards):
        step = "if %s then DCStall\n        else %s" % (g, step)
    text = ("  Fixpoint src_count_loop (fuel : nat) (stop factor : F) (count : Z) (cur : F) : dc_res :=\n"
            "    match fuel with\n    | O => DCFuel\n    | S k =>\n"
            "      if %s then\n        %s%s\n      else DCOk count\n    end.\n" % (cond, lets, step))
    return text, "src_count_loop fuel stop factor %d%%Z %s" % (count0, cur0)


def neg_count_test(test):
    """count != 'repeat' and count < K   on cnt"""
    ok = (isinstance(test, ast.BoolOp) and isinstance(test.op, ast.And) and len(test.values) == 2)
    if ok:
        a, b = test.values
        ok = (isinstance(a, ast.Compare) and len(a.ops) == 1 and isinstance(a.ops[0], ast.NotEq)
              and isinstance(a.left, ast.Name) and a.left.id == "count"
              and isinstance(a.comparators[0], ast.Constant) and a.comparators[0].value == "repeat"
              and isinstance(b, ast.Compare) and len(b.ops) == 1 and isinstance(b.ops[0], ast.Lt)
              and isinstance(b.left, ast.Name) and b.left.id == "count"
              and isinstance(b.comparators[0], ast.Constant) and type(b.comparators[0].value) is int)
    if not ok:
        fail("count test is not `count != 'repeat' and count < <int>`", test)
    return "(match count with NFin z => Z.ltb z %d | NInf => false end)" % test.values[1].comparators[0].value


def continue_test(test):
    """count == 'repeat' or i < count"""
    ok = (isinstance(test, ast.BoolOp) and isinstance(test.op, ast.Or) and len(test.values) == 2)
    if ok:
        a, b = test.values
        ok = (isinstance(a, ast.Compare) and len(a.ops) == 1 and isinstance(a.ops[0], ast.Eq)
              and isinstance(a.left, ast.Name) and a.left.id == "count"
              and isinstance(a.comparators[0], ast.Constant) and a.comparators[0].value == "repeat"
              and isinstance(b, ast.Compare) and len(b.ops) == 1 and isinstance(b.ops[0], ast.Lt)
              and isinstance(b.left, ast.Name) and b.left.id == "i"
              and isinstance(b.comparators[0], ast.Name) and b.comparators[0].id == "count")
    if not ok:
        fail("main loop condition is not `count == 'repeat' or i < count`", test)
    return "match count with NInf => true | NFin c => Z.ltb i c end"


def translate(path):
    tree = ast.parse(open(path).read())
    fn = [n for n in tree.body if isinstance(n, ast.FunctionDef) and n.name == "backoff_iter"]
    if len(fn) != 1:
        fail("backoff_iter not found exactly once")
    fn = fn[0]
    a = fn.args
    if [x.arg for x in a.args] != ["start", "stop", "count", "factor", "jitter"] or a.vararg or a.kwarg \
            or a.kwonlyargs or a.posonlyargs:
        fail("signature of backoff_iter changed", fn)
    defaults = [ast.literal_eval(d) for d in a.defaults]
    if defaults != [None, 2.0, False]:
        fail("defaults of backoff_iter changed: %r" % (defaults,), fn)
    body = list(fn.body)
    if body and isinstance(body[0], ast.Expr) and isinstance(body[0].value, ast.Constant) \
            and isinstance(body[0].value.value, str):
        body.pop(0)
    # ---- split at the main loop
    idx = [k for k, s in enumerate(body) if isinstance(s, ast.While)]
    if len(idx) != 1:
        fail("expected exactly one top-level while loop", fn)
    pre, main, post = body[:idx[0]], body[idx[0]], body[idx[0] + 1:]
    if any(not (isinstance(s, ast.Return) and s.value is None) for s in post):
        fail("statements after the main loop", post[0])
    if main.orelse:
        fail("while-else", main)
    # ---- the statements before the main loop, as a chain ending in PreOk
    if not pre:
        fail("nothing before the main loop", fn)
    init = pre.pop()
    ok = (isinstance(init, ast.Assign) and len(init.targets) == 1 and isinstance(init.targets[0], ast.Tuple)
          and [getattr(t, "id", None) for t in init.targets[0].elts] == ["cur", "i"]
          and isinstance(init.value, ast.Tuple) and len(init.value.elts) == 2
          and isinstance(init.value.elts[1], ast.Constant) and type(init.value.elts[1].value) is int)
    if not ok:
        fail("statement before the main loop is not `cur, i = <float>, <int>`", init)
    src_init = "(%s, %d%%Z)" % (fexpr(init.value.elts[0]), init.value.elts[1].value)

    loop_text = None
    stage = "float"          # count is still the argument (None | int | 'repeat') until the None block

    def chain(stmts):
        nonlocal loop_text, stage
        if not stmts:
            if stage != "cnt":
                fail("no `if count is None:` block before the main loop", fn)
            return "PreOk count (negb (feqb fo jitter (f0 fo)))"     # `if not jitter` in the loop
        s, rest = stmts[0], stmts[1:]
        if is_float_conv(s):
            return chain(rest)
        if isinstance(s, ast.If) and not s.orelse:
            # if <cond>: raise ValueError(...)
            if len(s.body) == 1 and is_raise_value_error(s.body[0]):
                t = s.test
                if isinstance(t, ast.BoolOp):
                    if stage != "cnt":
                        fail("count compared before the `count is None` block", s)
                    cond = neg_count_test(t)
                else:
                    cond = bexpr(t)
                return "if %s then PreRaise ValueError else\n    %s" % (cond, chain(rest))
            # if count is None: <block>
            t = s.test
            if (isinstance(t, ast.Compare) and len(t.ops) == 1 and isinstance(t.ops[0], ast.Is)
                    and isinstance(t.left, ast.Name) and t.left.id == "count"
                    and isinstance(t.comparators[0], ast.Constant) and t.comparators[0].value is None):
                if stage != "float" or loop_text is not None:
                    fail("second `count is None` block", s)
                loop_text, call = count_loop(s.body)
                # `cur` set by the block must be dead afterwards: re-assigned by `cur, i = ...`
                for later in rest:
                    for n in ast.walk(later):
                        if isinstance(n, ast.Name) and n.id in ("cur", "nxt"):
                            fail("`cur` of the count loop is read after the block", later)
                stage = "cnt"
                k = chain(rest)
                return ("let after (count : cnt) : pre :=\n    %s in\n"
                        "    match count with\n"
                        "    | CNone => match %s with\n"
                        "               | DCOk n => after (NFin n)\n"
                        "               | DCStall => PreRaise ValueError\n"
                        "               | DCFuel => PreFuel\n"
                        "               end\n"
                        "    | CNum z => after (NFin z)\n"
                        "    | CRepeat => after NInf\n"
                        "    end" % (k, call))
            # if <float truthiness>: [x = float(x)]* ; if <cond>: raise ValueError
            inner = [x for x in s.body if not is_float_conv(x)]
            if all(isinstance(x, ast.If) and not x.orelse and len(x.body) == 1 and is_raise_value_error(x.body[0])
                   for x in inner) and inner:
                k = chain(rest)
                body_chain = "rest tt"
                for x in reversed(inner):
                    body_chain = "if %s then PreRaise ValueError else %s" % (bexpr(x.test), body_chain)
                return ("let rest (_ : unit) : pre :=\n    %s in\n"
                        "    if %s then %s else rest tt" % (k, bexpr(s.test), body_chain))
        fail("statement before the main loop: %s" % ast.dump(s)[:80], s)

    prepare = chain(pre)
    if loop_text is None:
        fail("no count loop found", fn)
    # ---- main loop
    cont = continue_test(main.test)
    mb = list(main.body)
    if len(mb) < 4:
        fail("main loop body too short", main)
    emit_if, yld, incr = mb[0], mb[1], mb[2]
    upd = mb[3:]
    if not (isinstance(yld, ast.Expr) and isinstance(yld.value, ast.Yield) and isinstance(yld.value.value, ast.Name)
            and yld.value.value.id == "cur_ret"):
        fail("second statement of the main loop is not `yield cur_ret`", yld)
    if not (isinstance(incr, ast.AugAssign) and isinstance(incr.op, ast.Add) and isinstance(incr.target, ast.Name)
            and incr.target.id == "i" and isinstance(incr.value, ast.Constant) and incr.value.value == 1):
        fail("third statement of the main loop is not `i += 1`", incr)
    # cur_ret: if not jitter: cur_ret = e1 / elif jitter: cur_ret = e2   (jitter's truth value is `jit`)
    def emit_branch(node):
        if not isinstance(node, ast.If) or len(node.body) != 1:
            fail("computation of cur_ret", node)
        t = node.test
        if isinstance(t, ast.UnaryOp) and isinstance(t.op, ast.Not) and isinstance(t.operand, ast.Name) \
                and t.operand.id == "jitter":
            c = "negb jit"
        elif isinstance(t, ast.Name) and t.id == "jitter":
            c = "jit"
        else:
            fail("test on jitter in the computation of cur_ret", node)
        v = float_stmt(node.body[0], "cur_ret")
        if not node.orelse:
            els = "cur"       # cur_ret would be unbound: unreachable, both tests cover bool
            return c, v, els
        if len(node.orelse) != 1:
            fail("computation of cur_ret", node)
        c2, v2, e2 = emit_branch(node.orelse[0])
        return c, v, "(if %s then %s else %s)" % (c2, v2, e2)
    c, v, els = emit_branch(emit_if)
    src_emit = "if %s then %s else %s" % (c, v, els)
    for s in upd:
        for n in ast.walk(s):
            if isinstance(n, ast.Name) and isinstance(n.ctx, ast.Store) and n.id != "cur":
                fail("the main loop updates %s" % n.id, s)
    src_step = float_block(upd, "cur")

    out = ["(* GENERATED on every run by harness/translators/c15_src.py from %s (backoff_iter); do not edit. *)" % path,
           "From Boltons Require Import Lib.Prelude Lib.C15_Float Spec.C15_Spec Model.C15_Model.",
           "Section Src.", "  Context {F : Type} (fo : fops F).", "", loop_text,
           "  Definition src_prepare (fuel : nat) (start stop factor : F) (count : count) (jitter : F) : pre :=\n    %s.\n" % prepare,
           "  Definition src_init (start : F) : F * Z := %s.\n" % src_init,
           "  Definition src_continue (count : cnt) (i : Z) : bool :=\n    %s.\n" % cont,
           "  Definition src_emit (jit : bool) (jitter cur r : F) : F :=\n    %s.\n" % src_emit,
           "  Definition src_step (stop factor cur : F) : F :=\n    %s.\n" % src_step.replace("\n", "\n    "),
           "End Src.", ""]
    return "\n".join(out)


def generate(repo):
    path = os.path.join(repo, "boltons", "iterutils.py")
    return {"C15_Src": translate(path)}


if __name__ == "__main__":
    import sys
    print(generate(sys.argv[1] if len(sys.argv) > 1 else "/repo")["C15_Src"])
