"""(T) tie from the Python SOURCE for C01: walks the ast of the CURRENT boltons/dictutils.py and turns the
bodies of OrderedMultiDict's methods into programs of the little language of coq/Model/C01_SrcLang.v
(coq/Gen/C01_Src.v: `gen_<method> : stmt`).  Proofs/C01_SrcEq*.v prove that interpreting each regenerated
program is the pointer-level model's method, so an edit of the source changes a proof obligation.
Fails closed: anything outside the subset raises Unsupported (= broken tie)."""
import ast
import os


class Unsupported(Exception):
    pass


METHODS = [  # python name, Coq constructor, generated definition
    ("_clear_ll", "MClearLL", "gen_clear_ll"), ("_insert", "MInsert", "gen_insert"),
    ("_remove", "MRemove", "gen_remove"), ("_remove_all", "MRemoveAll", "gen_remove_all"),
    ("add", "MAdd", "gen_add"), ("addlist", "MAddList", "gen_addlist"), ("get", "MGet", "gen_get"),
    ("getlist", "MGetList", "gen_getlist"), ("clear", "MClear", "gen_clear"),
    ("setdefault", "MSetDefault", "gen_setdefault"), ("__setitem__", "MSetItem", "gen_setitem"),
    ("__getitem__", "MGetItem", "gen_getitem"), ("__delitem__", "MDelItem", "gen_delitem"),
    ("pop", "MPop", "gen_pop"), ("popall", "MPopAll", "gen_popall"), ("popitem", "MPopItem", "gen_popitem"),
    ("poplast", "MPopLast", "gen_poplast"),
]
EXTENDED = [("update", "MUpdate", "gen_update"), ("update_extend", "MUpdateExtend", "gen_update_extend"),
            ("__ior__", "MIOr", "gen_ior")]
ENABLE_EXTENDED = True
if ENABLE_EXTENDED:
    METHODS = METHODS + EXTENDED
READERS = [("iteritems", "MIterItems", "gen_iteritems"), ("iterkeys", "MIterKeys", "gen_iterkeys"),
           ("itervalues", "MIterValues", "gen_itervalues"), ("__reversed__", "MReversed", "gen_reversed"),
           ("keys", "MKeys", "gen_keys"), ("values", "MValues", "gen_values"), ("items", "MItems", "gen_items"),
           ("__iter__", "MIter", "gen_iter")]
ENABLE_READERS = True
if ENABLE_READERS:
    METHODS = METHODS + READERS
BUILDERS = [("__getstate__", "MGetState", "gen_getstate"), ("__setstate__", "MSetState", "gen_setstate"),
            ("copy", "MCopy", "gen_copy"), ("inverted", "MInverted", "gen_inverted"), ("counts", "MCounts", "gen_counts"),
            ("sorted", "MSorted", "gen_sorted"), ("todict", "MToDict", "gen_todict")]
ENABLE_BUILDERS = True
if ENABLE_BUILDERS:
    METHODS = METHODS + BUILDERS
COMPARERS = [("__eq__", "MEq", "gen_eq"), ("__ne__", "MNe", "gen_ne"),
             ("sortedvalues", "MSortedValues", "gen_sortedvalues")]
CTORS = [("__init__", "MInit", "gen_init"), ("fromkeys", "MFromKeys", "gen_fromkeys"),
         ("__reduce_ex__", "MReduceEx", "gen_reduce_ex")]
COMPARERS = COMPARERS + CTORS
STAR_OK = {"__init__"}                 # methods whose *args / **kwargs are translated (two arguments)
CLASSMETHODS = {"fromkeys"}
SV_TRY = ("try:\n    superself_iteritems = super().iteritems()\nexcept AttributeError:\n"
          "    superself_iteritems = super().items()")
SV_MAP = "{k: sorted(v, key=key, reverse=reverse)[::-1] for k, v in superself_iteritems}"
ENABLE_COMPARERS = True
if ENABLE_COMPARERS:
    METHODS = METHODS + COMPARERS
ACC_TOKS, ACC_PAIRS = 998, 999
ARGNAMES = ("E", "F", "other")            # parameters that hold an argument object (mapping / OMD / junk)          # environment slots that collect what a generator yields
KWARGS_OK = {"update", "update_extend"}      # methods whose **F is translated (second argument of the call)
CTOR = {py: c for py, c, _ in METHODS}
FIELDS = {"PREV": "FPrev", "NEXT": "FNext", "KEY": "FKey", "VALUE": "FVal"}
CLEAR_LL_TRY = "try:\n    _map = self._map\nexcept AttributeError:\n    _map = self._map = {}\n    self.root = []"
ROOT_RESET = "self.root[:] = [self.root, self.root, None]"


def _is_self(n):
    return isinstance(n, ast.Name) and n.id == "self"


def _self_attr(n, name=None):
    return isinstance(n, ast.Attribute) and _is_self(n.value) and (name is None or n.attr == name)


class Method:
    def __init__(self, fn, sigs):
        self.fn, self.sigs, self.where = fn, sigs, "OrderedMultiDict." + fn.name
        a = fn.args
        if a.kwonlyargs or a.posonlyargs or ((a.kwarg or a.vararg) and fn.name not in KWARGS_OK | STAR_OK) \
                or (a.vararg and fn.name not in STAR_OK):
            self.bad("signature with * / ** / keyword-only parameters")
        self.vars = {}
        for p in a.args[1:]:
            self.vars[p.arg] = len(self.vars)
        if a.vararg:
            self.vars[a.vararg.arg] = len(self.vars)    # *args is passed as one argument (VArgs0 / VArgs1 / VArgsMany)
        if a.kwarg:
            self.vars[a.kwarg.arg] = len(self.vars)     # **F is passed as one more (mapping) argument
        self.clsname = a.args[0].arg if fn.name in CLASSMETHODS else None
        self.set_add_alias = {}   # local name -> set variable (x = seen.add)
        self.dict_sd_alias = {}   # local name -> dict variable (x = lengths.setdefault)
        self.store_getitem_alias = set()   # local names bound to super().__getitem__
        self.yield_kinds = set()
        self.cls_alias = set()    # local names bound to self.__class__
        self.store_items_alias = set()   # local names bound to super().items()
        self.zip_alias = {}       # local name -> (it1, it2) for zip_longest(it1, it2, fillvalue=(_MISSING, _MISSING))
        self.exhausted = set()    # iterators run to their end by a zip_longest loop without break
        self.meth_alias = {}      # local name -> python method name (x = self._insert)
        self.super_alias = set()  # local names bound to super()
        self.map_alias = set()    # local names bound to self._map (only in _clear_ll)

    def bad(self, what, node=None):
        raise Unsupported("%s: %s%s" % (self.where, what, (": " + ast.unparse(node)[:120]) if node is not None else ""))

    # ------------------------------------------------------------------ names
    def var(self, name, define=False):
        if name in self.meth_alias or name in self.super_alias or name in self.map_alias:
            self.bad("alias %s used as a value" % name)
        if name not in self.vars:
            if not define:
                self.bad("name %s is not a parameter or a local assigned before" % name)
            self.vars[name] = len(self.vars)
        return self.vars[name]

    def is_super(self, n):
        if isinstance(n, ast.Call) and isinstance(n.func, ast.Name) and n.func.id == "super" \
                and not n.args and not n.keywords:
            return True
        return isinstance(n, ast.Name) and n.id in self.super_alias

    def is_map(self, n):
        return _self_attr(n, "_map") or (isinstance(n, ast.Name) and n.id in self.map_alias)

    # ------------------------------------------------------------------ expressions
    def call_method(self, pyname, args, keywords, node):
        if pyname not in CTOR:
            self.bad("call of a method outside the translated set", node)
        params, defaults = self.sigs[pyname]
        given = [self.expr(a) for a in args]
        for kw in keywords:                       # keywords must continue the positional arguments in order
            if kw.arg is None or len(given) >= len(params) or params[len(given)] != kw.arg:
                self.bad("keyword argument out of order in a self-call", node)
            given.append(self.expr(kw.value))
        if len(given) > len(params):
            self.bad("too many arguments", node)
        missing = len(params) - len(given)
        if missing > len(defaults):
            self.bad("missing arguments", node)
        if missing:
            given += [self.const_default(d) for d in defaults[len(defaults) - missing:]]
        if pyname in KWARGS_OK:
            given.append("ENoKw")
        c = CTOR[pyname]
        if len(given) == 0:
            return "(ECall0 %s)" % c
        if len(given) == 1:
            return "(ECall1 %s %s)" % (c, given[0])
        if len(given) == 2:
            return "(ECall2 %s %s %s)" % (c, given[0], given[1])
        self.bad("more than two arguments", node)

    def const_default(self, d):
        if isinstance(d, ast.Constant) and d.value is None:
            return "ENone"
        if isinstance(d, ast.Constant) and d.value is False:
            return "EFalse"
        if isinstance(d, ast.Name) and d.id == "_MISSING":
            return "EMissing"
        self.bad("default value", d)

    def expr(self, e, boolean=False):
        if isinstance(e, ast.Name):
            if e.id == "_MISSING":
                return "EMissing"
            if e.id == "self":
                if boolean:
                    return "ETruthSelf"
                return "ESelf"
            return "(EVar %d)" % self.var(e.id)
        if isinstance(e, ast.Tuple) and not e.elts:
            return "EEmptyTuple"
        if isinstance(e, ast.Tuple) and len(e.elts) == 3 and ast.unparse(e.elts[0]) == "copyreg.__newobj__" \
                and ast.unparse(e.elts[1]) == "(self.__class__,)":
            return "(EReduce %s)" % self.expr(e.elts[2])
        if isinstance(e, ast.Compare) and ast.unparse(e) == "len(args) > 1" and "args" in self.vars:
            return "(ELenGt1 %s)" % self.expr(ast.Name(id="args"))
        if isinstance(e, ast.Subscript) and ast.unparse(e) == "args[0]" and "args" in self.vars:
            return "(EArgs0 %s)" % self.expr(ast.Name(id="args"))
        if isinstance(e, ast.ListComp) and isinstance(e.elt, ast.Tuple) and len(e.elt.elts) == 2:
            return self.comprehension(e, e.elt.elts[0], e.elt.elts[1], False)
        if isinstance(e, ast.BoolOp) and len(e.values) == 2:
            return "(%s %s %s)" % ("EOr" if isinstance(e.op, ast.Or) else "EAnd",
                                   self.expr(e.values[0], boolean=True), self.expr(e.values[1], boolean=True))
        if isinstance(e, ast.Compare) and len(e.ops) == 1 and isinstance(e.ops[0], ast.Is) \
                and _is_self(e.left) and isinstance(e.comparators[0], ast.Name):
            return "(EIsSelf %s)" % self.expr(e.comparators[0])
        if isinstance(e, ast.Compare) and len(e.ops) == 1 and isinstance(e.ops[0], ast.Is) \
                and isinstance(e.comparators[0], ast.Name) and e.comparators[0].id == "_MISSING" \
                and isinstance(e.left, ast.Call) and isinstance(e.left.func, ast.Name) and e.left.func.id == "next" \
                and len(e.left.args) == 2 and isinstance(e.left.args[0], ast.Name) \
                and e.left.args[0].id in self.exhausted and ast.unparse(e.left.args[1]) == "_MISSING":
            return "EExhausted"
        if isinstance(e, ast.Compare) and len(e.ops) == 1 and isinstance(e.ops[0], ast.NotEq):
            return "(ENe %s %s)" % (self.expr(e.left), self.expr(e.comparators[0]))
        if isinstance(e, ast.Compare) and len(e.ops) == 1 and isinstance(e.ops[0], ast.Eq) and _is_self(e.left):
            return self.call_method("__eq__", [e.comparators[0]], [], e)
        if isinstance(e, ast.Compare) and len(e.ops) == 1 and isinstance(e.ops[0], ast.Is) \
                and _is_self(e.comparators[0]):
            return "(EIsSelf %s)" % self.expr(e.left)
        if isinstance(e, ast.Compare) and len(e.ops) == 1 and isinstance(e.ops[0], (ast.In, ast.NotIn)):
            inner = None
            if _is_self(e.comparators[0]):
                inner = "(EStoreContains %s)" % self.expr(e.left)       # dict.__contains__ is inherited
            elif isinstance(e.comparators[0], ast.Name):
                inner = "(EInSet %s %s)" % (self.expr(e.left), self.expr(e.comparators[0]))
            if inner is None:
                self.bad("membership test", e)
            return inner if isinstance(e.ops[0], ast.In) else "(ENot %s)" % inner
        if isinstance(e, ast.GeneratorExp):
            if ast.unparse(e) == "((k, E[k]) for k in E.keys())":
                return "(EGenKV %s)" % self.expr(ast.Name(id="E"))
            if isinstance(e.elt, ast.Tuple) and len(e.elt.elts) == 2:
                return self.comprehension(e, e.elt.elts[0], e.elt.elts[1], False)
            self.bad("generator expression", e)
        if isinstance(e, ast.DictComp):
            multi = isinstance(e.value, ast.Call) and isinstance(e.value.func, ast.Attribute) \
                and _is_self(e.value.func.value) and e.value.func.attr == "getlist"
            return self.comprehension(e, e.key, e.value, multi)
        if isinstance(e, ast.Constant) and e.value is None:
            return "ENone"
        if isinstance(e, ast.Constant) and e.value is True:
            return "ETrue"
        if isinstance(e, ast.Constant) and e.value is False:
            return "EFalse"
        if isinstance(e, ast.Dict) and not e.keys:
            return "EDictNew"
        if isinstance(e, ast.Compare) and len(e.ops) == 1 and isinstance(e.ops[0], ast.IsNot) \
                and isinstance(e.left, ast.Name) and isinstance(e.comparators[0], ast.Name) \
                and e.comparators[0].id != "_MISSING":
            return "(ENotIs %s %s)" % (self.expr(e.left), self.expr(e.comparators[0]))
        if isinstance(e, ast.Compare) and len(e.ops) == 1 and isinstance(e.ops[0], ast.Eq) \
                and isinstance(e.left, ast.Name) and isinstance(e.comparators[0], ast.Call) \
                and ast.unparse(e.comparators[0].func) == "len" and len(e.comparators[0].args) == 1:
            return "(EEqNat %s (ELen %s))" % (self.expr(e.left), self.expr(e.comparators[0].args[0]))
        if _self_attr(e, "root"):
            return "ERoot"
        if isinstance(e, ast.Subscript):
            s = e.slice
            if isinstance(s, ast.Name) and s.id in FIELDS:
                return "(EIdx %s %s)" % (self.expr(e.value), FIELDS[s.id])
            if isinstance(s, ast.UnaryOp) and isinstance(s.op, ast.USub) and isinstance(s.operand, ast.Constant) \
                    and s.operand.value == 1 and type(s.operand.value) is int:
                return "(ELast %s)" % self.expr(e.value)
            if isinstance(s, ast.Slice) and s.lower is None and s.upper is None and s.step is None:
                return "(ECopy %s)" % self.expr(e.value)
            if _is_self(e.value):
                return self.call_method("__getitem__", [s], [], e)
            if self.is_map(e.value):
                return "(EMapGet %s)" % self.expr(s)
            if isinstance(e.value, ast.Name) and e.value.id in ARGNAMES and isinstance(s, ast.Name):
                return "(EArgGet %s %s)" % (self.expr(e.value), self.expr(s))
            self.bad("subscript", e)
        if isinstance(e, ast.List):
            if len(e.elts) == 4:
                return "(ENewCell %s %s %s %s)" % tuple(self.expr(x) for x in e.elts)
            if len(e.elts) == 1:
                return "(EList1 %s)" % self.expr(e.elts[0])
            if len(e.elts) == 0:
                return "ENil"
            self.bad("list display", e)
        if isinstance(e, ast.Tuple) and len(e.elts) == 2:
            return "(ETuple2 %s %s)" % (self.expr(e.elts[0]), self.expr(e.elts[1]))
        if isinstance(e, ast.UnaryOp) and isinstance(e.op, ast.Not):
            return "(ENot %s)" % self.expr(e.operand, boolean=True)
        if isinstance(e, ast.Compare) and len(e.ops) == 1 and isinstance(e.ops[0], ast.Is) \
                and isinstance(e.comparators[0], ast.Name) and e.comparators[0].id == "_MISSING":
            return "(EIsMissing %s)" % self.expr(e.left)
        if isinstance(e, ast.IfExp):
            return "(ECond %s %s %s)" % (self.expr(e.test, boolean=True), self.expr(e.body), self.expr(e.orelse))
        if isinstance(e, ast.Call):
            return self.call(e)
        self.bad("expression", e)

    def iter_source(self, it):
        if _is_self(it):                                   # for k in self  ->  self.__iter__()
            return self.call_method("__iter__", [], [], it)
        return self.expr(it)

    def comprehension(self, e, a, b, multi):
        if len(e.generators) != 1 or e.generators[0].ifs or e.generators[0].is_async:
            self.bad("comprehension", e)
        g = e.generators[0]
        saved = dict(self.vars)
        try:
            if isinstance(g.target, ast.Name):
                src = self.iter_source(g.iter)
                x = self.var(g.target.id, define=True)
                return "(EComp1 %s %d %s %s %s)" % ("true" if multi else "false", x, src, self.expr(a), self.expr(b))
            if isinstance(g.target, ast.Tuple) and len(g.target.elts) == 2 \
                    and all(isinstance(t, ast.Name) for t in g.target.elts) and not multi:
                src = self.iter_source(g.iter)
                x = self.var(g.target.elts[0].id, define=True)
                y = self.var(g.target.elts[1].id, define=True)
                return "(EComp2 %d %d %s %s %s)" % (x, y, src, self.expr(a), self.expr(b))
            self.bad("comprehension target", e)
        finally:
            # comprehension variables are local to it, but keep their numbers reserved
            for k in list(self.vars):
                if k not in saved:
                    idx = self.vars.pop(k)
                    self.vars["_comp_%s_%d" % (k, idx)] = idx

    def empty_list(self, n):
        return isinstance(n, ast.List) and not n.elts

    def call(self, e):
        f = e.func
        src = ast.unparse(e)
        for an in ARGNAMES:
            if an not in self.vars:
                continue
            if src == "isinstance(%s, OrderedMultiDict)" % an:
                return "(EIsOMD %s)" % self.expr(ast.Name(id=an))
            if src in ("callable(getattr(%s, 'keys', None))" % an, "hasattr(%s, 'keys')" % an):
                return "(EHasKeys %s)" % self.expr(ast.Name(id=an))
            if src == "%s.keys()" % an:
                return "(EArgKeys %s)" % self.expr(ast.Name(id=an))
            if src == "%s.iteritems(multi=True)" % an:
                return "(EArgItemsMulti %s)" % self.expr(ast.Name(id=an))
            if src == "len(%s)" % an:
                return "(ELenObj %s)" % self.expr(ast.Name(id=an))
        if src == "len(self)":
            return "ELenSelf"
        if src == "iter(E.items())":
            return "(EArgItems %s)" % self.expr(ast.Name(id="E"))
        if src == "set()":
            return "ESetNew"
        if (ast.unparse(f) == "self.__class__" or (isinstance(f, ast.Name) and f.id in self.cls_alias)
                or (isinstance(f, ast.Name) and self.clsname is not None and f.id == self.clsname)) \
                and len(e.args) == 1 and not e.keywords:
            return "(ENewFrom %s)" % self.expr(e.args[0])
        if isinstance(f, ast.Name) and f.id == "sorted" and len(e.args) == 1 \
                and [k.arg for k in e.keywords] == ["key", "reverse"]:
            return "(ESorted %s %s %s)" % (self.expr(e.args[0]), self.expr(e.keywords[0].value),
                                           self.expr(e.keywords[1].value))
        if isinstance(f, ast.Name) and f.id == "len" and len(e.args) == 1 and not e.keywords:
            return "(ELen %s)" % self.expr(e.args[0])
        if isinstance(f, ast.Name) and f.id in self.store_getitem_alias and len(e.args) == 1 and not e.keywords:
            return "(EStoreGetitem %s)" % self.expr(e.args[0])
        if isinstance(f, ast.Name):
            if f.id == "list" and len(e.args) == 1 and not e.keywords:
                return "(EListOf %s)" % self.expr(e.args[0])
            if f.id in self.meth_alias:
                return self.call_method(self.meth_alias[f.id], e.args, e.keywords, e)
            self.bad("call", e)
        if isinstance(f, ast.Attribute) and _is_self(f.value):
            return self.call_method(f.attr, e.args, e.keywords, e)
        if not isinstance(f, ast.Attribute) or e.keywords:
            self.bad("call", e)
        if self.is_super(f.value):
            n, a = f.attr, e.args
            if n == "setdefault" and len(a) == 2 and self.empty_list(a[1]):
                return "(EStoreSetdefault %s)" % self.expr(a[0])
            if n == "__getitem__" and len(a) == 1:
                return "(EStoreGetitem %s)" % self.expr(a[0])
            if n == "get" and len(a) == 2:
                return "(EStoreGetD %s %s)" % (self.expr(a[0]), self.expr(a[1]))
            if n == "__contains__" and len(a) == 1:
                return "(EStoreContains %s)" % self.expr(a[0])
            if n == "pop" and len(a) == 1:
                return "(EStorePop %s)" % self.expr(a[0])
            if n == "pop" and len(a) == 2:
                return "(EStorePopD %s %s)" % (self.expr(a[0]), self.expr(a[1]))
            self.bad("dict method through super()", e)
        if self.is_map(f.value) and f.attr == "setdefault" and len(e.args) == 2 and self.empty_list(e.args[1]):
            return "(EMapSetdefault %s)" % self.expr(e.args[0])
        if isinstance(f.value, ast.Name) and f.attr == "pop" and not e.args:
            return "(EPop %s)" % self.expr(f.value)
        self.bad("call", e)

    # ------------------------------------------------------------------ statements
    def block(self, stmts):
        out = [self.stmt(s) for s in stmts]
        out = [s for s in out if s is not None]
        if not out:
            return "SPass"
        r = out[-1]
        for s in reversed(out[:-1]):
            r = "(SSeq %s %s)" % (s, r)
        return r

    def stmt(self, s):
        if isinstance(s, ast.Expr) and isinstance(s.value, ast.Constant) and isinstance(s.value.value, str):
            return None                                         # docstring
        if isinstance(s, ast.Pass):
            return "SPass"
        if isinstance(s, ast.Expr) and ast.unparse(s) == "super().__init__()":
            return "SSuperInit"
        if isinstance(s, ast.Try) and ast.unparse(s) == SV_TRY:      # the python-2 spelling falls back to items()
            self.store_items_alias.add("superself_iteritems")
            return None
        if isinstance(s, ast.Assign) and len(s.targets) == 1 and isinstance(s.targets[0], ast.Name) \
                and ast.unparse(s.value) == SV_MAP and "superself_iteritems" in self.store_items_alias \
                and "key" in self.vars and "reverse" in self.vars:
            return "(SAssign %d (ESortedValMap %s %s))" % (self.var(s.targets[0].id, define=True),
                                                            self.expr(ast.Name(id="key")),
                                                            self.expr(ast.Name(id="reverse")))
        if isinstance(s, ast.Assign) and len(s.targets) == 1 and isinstance(s.targets[0], ast.Name) \
                and ast.unparse(s.value) == "self.__class__()":
            return "(SAssign %d ENewEmpty)" % self.var(s.targets[0].id, define=True)
        if isinstance(s, ast.Expr) and isinstance(s.value, ast.Call):
            c = s.value
            # r.add(k, m[k].pop()) with r, m locals
            if isinstance(c.func, ast.Attribute) and c.func.attr == "add" and isinstance(c.func.value, ast.Name) \
                    and c.func.value.id in self.vars and len(c.args) == 2 and not c.keywords \
                    and isinstance(c.args[1], ast.Call) and isinstance(c.args[1].func, ast.Attribute) \
                    and c.args[1].func.attr == "pop" and not c.args[1].args \
                    and isinstance(c.args[1].func.value, ast.Subscript) \
                    and isinstance(c.args[1].func.value.value, ast.Name) \
                    and c.args[1].func.value.value.id in self.vars \
                    and ast.unparse(c.args[1].func.value.slice) == ast.unparse(c.args[0]):
                return "(SObjAddPop %d %d %s)" % (self.var(c.func.value.id), self.var(c.args[1].func.value.value.id),
                                                 self.expr(c.args[0]))
        if isinstance(s, ast.Try) and self.fn.name == "_clear_ll" and ast.unparse(s) == CLEAR_LL_TRY:
            self.map_alias.add("_map")
            return "SInitMap"
        if isinstance(s, ast.Assign):
            if ast.unparse(s) == ROOT_RESET:
                return "SRootReset"
            if len(s.targets) == 1:
                t = s.targets[0]
                if isinstance(t, ast.Name):
                    v = s.value
                    if isinstance(v, ast.Attribute) and v.attr == "add" and isinstance(v.value, ast.Name) \
                            and v.value.id in self.vars:             # x = seen.add
                        if t.id in self.vars:
                            self.bad("alias re-uses a variable", s)
                        self.set_add_alias[t.id] = v.value.id
                        return None
                    if isinstance(v, ast.Attribute) and v.attr == "setdefault" and isinstance(v.value, ast.Name) \
                            and v.value.id in self.vars:             # x = lengths.setdefault
                        self.dict_sd_alias[t.id] = v.value.id
                        return None
                    if isinstance(v, ast.Attribute) and v.attr == "__getitem__" and self.is_super(v.value):
                        self.store_getitem_alias.add(t.id)           # x = super().__getitem__
                        return None
                    if isinstance(v, ast.Call) and ast.unparse(v.func) == "zip_longest" and len(v.args) == 2 \
                            and all(isinstance(a, ast.Name) for a in v.args) and len(v.keywords) == 1 \
                            and ast.unparse(v.keywords[0]) == "fillvalue=(_MISSING, _MISSING)":
                        self.zip_alias[t.id] = (v.args[0].id, v.args[1].id)
                        return None
                    if ast.unparse(v) == "self.__class__":         # cls = self.__class__
                        self.cls_alias.add(t.id)
                        return None
                    if _self_attr(v) and v.attr in CTOR:         # x = self._insert
                        if t.id in self.vars:
                            self.bad("alias of a method re-uses a variable", s)
                        self.meth_alias[t.id] = v.attr
                        return None
                    if isinstance(v, ast.Call) and isinstance(v.func, ast.Name) and v.func.id == "super" \
                            and not v.args and not v.keywords:   # x = super()
                        if t.id in self.vars:
                            self.bad("alias of super() re-uses a variable", s)
                        self.super_alias.add(t.id)
                        return None
                    if t.id in self.meth_alias or t.id in self.super_alias or t.id in self.map_alias:
                        self.bad("alias re-assigned", s)
                    rhs = self.expr(v)
                    return "(SAssign %d %s)" % (self.var(t.id, define=True), rhs)
                if isinstance(t, ast.Subscript) and _is_self(t.value):              # self[k] = v
                    return "(SExpr %s)" % self.call_method("__setitem__", [t.slice, s.value], [], s)
                if isinstance(t, ast.Subscript) and isinstance(t.slice, ast.Name) and t.slice.id in FIELDS:
                    return "(SSetIdx %s %s %s)" % (self.expr(t.value), FIELDS[t.slice.id], self.expr(s.value))
                if isinstance(t, ast.Tuple) and len(t.elts) == 2 and isinstance(s.value, ast.Tuple) \
                        and len(s.value.elts) == 2 \
                        and all(isinstance(x, ast.Subscript) and isinstance(x.slice, ast.Name)
                                and x.slice.id in FIELDS for x in t.elts):
                    a, b = t.elts
                    return "(SSetIdx2 %s %s %s %s %s %s)" % (
                        self.expr(a.value), FIELDS[a.slice.id], self.expr(b.value), FIELDS[b.slice.id],
                        self.expr(s.value.elts[0]), self.expr(s.value.elts[1]))
                self.bad("assignment", s)
            if len(s.targets) == 2 and isinstance(s.value, ast.Name) and \
                    all(isinstance(t, ast.Subscript) and isinstance(t.slice, ast.Name) and t.slice.id in FIELDS
                        for t in s.targets):                    # a[NEXT] = b[PREV] = cell : left to right
                a, b = s.targets
                v = self.expr(s.value)
                return "(SSeq (SSetIdx %s %s %s) (SSetIdx %s %s %s))" % (
                    self.expr(a.value), FIELDS[a.slice.id], v, self.expr(b.value), FIELDS[b.slice.id], v)
            self.bad("assignment", s)
        if isinstance(s, ast.Expr) and isinstance(s.value, ast.Call):
            c = s.value
            f = c.func
            if isinstance(f, ast.Name) and f.id in self.set_add_alias and len(c.args) == 1 and not c.keywords:
                return "(SSetAdd %d %s)" % (self.var(self.set_add_alias[f.id]), self.expr(c.args[0]))
            if isinstance(f, ast.Attribute) and not c.keywords:
                if isinstance(f.value, ast.Name) and f.value.id in self.map_alias and f.attr == "clear" and not c.args:
                    return "SMapClear"
                if self.is_super(f.value):
                    if f.attr == "clear" and not c.args:
                        return "SStoreClear"
                    if f.attr == "__setitem__" and len(c.args) == 2:
                        return "(SStoreSet %s %s)" % (self.expr(c.args[0]), self.expr(c.args[1]))
                    if f.attr == "__delitem__" and len(c.args) == 1:
                        return "(SStoreDel %s)" % self.expr(c.args[0])
                if isinstance(f.value, ast.Name) and f.value.id in self.vars and len(c.args) == 1:
                    if f.attr == "append":
                        return "(SAppend %s %s)" % (self.expr(f.value), self.expr(c.args[0]))
                    if f.attr == "extend":
                        return "(SExtend %s %s)" % (self.expr(f.value), self.expr(c.args[0]))
            return "(SExpr %s)" % self.call(c)
        if isinstance(s, ast.Delete) and len(s.targets) == 1 and isinstance(s.targets[0], ast.Subscript):
            t = s.targets[0]
            if self.is_map(t.value):
                return "(SDelMap %s)" % self.expr(t.slice)
            if _is_self(t.value):
                return "(SExpr %s)" % self.call_method("__delitem__", [t.slice], [], s)
            self.bad("del", s)
        if isinstance(s, ast.Expr) and isinstance(s.value, ast.Yield) and s.value.value is not None:
            v = s.value.value
            kind = "pairs" if isinstance(v, ast.Tuple) else "toks"
            self.yield_kinds.add(kind)
            return "(SYield %s)" % self.expr(v)
        if isinstance(s, ast.AugAssign) and isinstance(s.op, ast.Add) and isinstance(s.target, ast.Subscript) \
                and isinstance(s.target.value, ast.Name) and s.target.value.id in self.vars \
                and isinstance(s.value, ast.Constant) and s.value.value == 1 and type(s.value.value) is int:
            return "(SDictIncr %d %s)" % (self.var(s.target.value.id), self.expr(s.target.slice))
        if isinstance(s, ast.If) and isinstance(s.test, ast.Compare) and isinstance(s.test.left, ast.Call) \
                and isinstance(s.test.left.func, ast.Name) and s.test.left.func.id in self.dict_sd_alias \
                and len(s.test.left.args) == 2 and isinstance(s.test.left.args[1], ast.Constant) \
                and type(s.test.left.args[1].value) is int and not s.test.left.keywords:
            # if d.setdefault(k, c) == ...: the call is the first thing evaluated - hoist it into a statement
            c = s.test.left
            tmp = "_sd_tmp%d" % len(self.vars)
            t = self.var(tmp, define=True)
            pre = "(SDictSetdefault %d %d %s %d)" % (self.var(self.dict_sd_alias[c.func.id]), t,
                                                      self.expr(c.args[0]), c.args[1].value)
            test = ast.Compare(left=ast.Name(id=tmp), ops=s.test.ops, comparators=s.test.comparators)
            return "(SSeq %s (SIf %s %s %s))" % (pre, self.expr(test, boolean=True), self.block(s.body),
                                                 self.block(s.orelse))
        if isinstance(s, ast.If):
            return "(SIf %s %s %s)" % (self.expr(s.test, boolean=True), self.block(s.body), self.block(s.orelse))
        if isinstance(s, ast.While) and not s.orelse:
            return "(SWhile %s %s)" % (self.expr(s.test, boolean=True), self.block(s.body))
        if isinstance(s, ast.For) and not s.orelse and isinstance(s.iter, ast.Name) and s.iter.id in self.zip_alias \
                and isinstance(s.target, ast.Tuple) and len(s.target.elts) == 2 \
                and all(isinstance(t, ast.Tuple) and len(t.elts) == 2 and all(isinstance(x, ast.Name) for x in t.elts)
                        for t in s.target.elts):
            if any(isinstance(x, ast.Break) for x in ast.walk(s)):
                self.bad("break inside a zip_longest loop", s)
            a, b = self.zip_alias[s.iter.id]
            ea, eb = self.expr(ast.Name(id=a)), self.expr(ast.Name(id=b))
            vs = [self.var(x.id, define=True) for t in s.target.elts for x in t.elts]
            body = self.block(s.body)
            self.exhausted.update((a, b))
            return "(SForZip %d %d %d %d %s %s %s)" % (vs[0], vs[1], vs[2], vs[3], ea, eb, body)
        if isinstance(s, ast.For) and not s.orelse and isinstance(s.target, ast.Name):
            it = self.iter_source(s.iter)
            x = self.var(s.target.id, define=True)
            return "(SFor %d %s %s)" % (x, it, self.block(s.body))
        if isinstance(s, ast.For) and not s.orelse and isinstance(s.target, ast.Tuple) and len(s.target.elts) == 2 \
                and all(isinstance(t, ast.Name) for t in s.target.elts):
            it = self.expr(s.iter)
            x = self.var(s.target.elts[0].id, define=True)
            y = self.var(s.target.elts[1].id, define=True)
            return "(SFor2 %d %d %s %s)" % (x, y, it, self.block(s.body))
        if isinstance(s, ast.Try) and not s.orelse and not s.finalbody and len(s.handlers) == 1:
            h = s.handlers[0]
            if isinstance(h.type, ast.Name) and h.type.id == "KeyError" and h.name is None:
                return "(STryKeyError %s %s)" % (self.block(s.body), self.block(h.body))
            if isinstance(h.type, ast.Name) and h.type.id == "TypeError" and h.name is None:
                return "(STryTypeError %s %s)" % (self.block(s.body), self.block(h.body))
            self.bad("except clause", s)
        if isinstance(s, ast.Return):
            return "(SReturn %s)" % ("ENone" if s.value is None else self.expr(s.value))
        if isinstance(s, ast.Raise) and s.cause is None and isinstance(s.exc, ast.Call) \
                and isinstance(s.exc.func, ast.Name) and s.exc.func.id == "KeyError":
            return "SRaiseKeyError"
        if isinstance(s, ast.Raise) and s.cause is None and isinstance(s.exc, ast.Call) \
                and isinstance(s.exc.func, ast.Name) and s.exc.func.id == "TypeError":
            return "SRaiseTypeError"
        if isinstance(s, ast.Expr) and ast.unparse(s) == "super().__init__()":
            return "SSuperInit"
        self.bad("statement", s)


def generate(repo):
    path = os.path.join(repo, "boltons", "dictutils.py")
    tree = ast.parse(open(path).read())
    cls = [n for n in tree.body if isinstance(n, ast.ClassDef) and n.name == "OrderedMultiDict"]
    if len(cls) != 1:
        raise Unsupported("class OrderedMultiDict not found exactly once")
    fns = {}
    for n in cls[0].body:
        if isinstance(n, ast.FunctionDef):
            if n.name in fns:
                raise Unsupported("method %s defined twice" % n.name)
            fns[n.name] = n
    # module constants the translation relies on
    consts = [ast.unparse(n) for n in tree.body if isinstance(n, ast.Assign)]
    if "PREV, NEXT, KEY, VALUE, SPREV, SNEXT = range(6)" not in consts:
        raise Unsupported("PREV, NEXT, KEY, VALUE are no longer range(6)[:4]")
    sigs = {}
    for py, _, _ in METHODS:
        if py not in fns:
            raise Unsupported("method %s not found" % py)
        fn = fns[py]
        decos = [ast.unparse(d) for d in fn.decorator_list]
        if decos != (["classmethod"] if py in CLASSMETHODS else []):
            raise Unsupported("method %s: unexpected decorators %r" % (py, decos))
        sigs[py] = ([a.arg for a in fn.args.args[1:]], fn.args.defaults)
        if (fn.args.kwarg is not None) != (py in KWARGS_OK | STAR_OK) or (fn.args.vararg is not None) != (py in STAR_OK):
            raise Unsupported("method %s: * / ** parameter appeared or disappeared" % py)
    out = ["(* generated by harness/translators/c01_src.py from the current boltons/dictutils.py; do not edit *)",
           "From Boltons Require Import Lib.Prelude Spec.C01_Spec Model.C01_Model Model.C01_Ptr Model.C01_PModel "
           "Model.C01_SrcLang.", ""]
    for py, ctor, name in METHODS:
        m = Method(fns[py], sigs)
        body = m.block(fns[py].body)
        if m.yield_kinds:                              # a generator: its value is the list of what it yields
            if len(m.yield_kinds) != 1:
                raise Unsupported("%s yields both pairs and single values" % py)
            if any(isinstance(x, ast.Return) for x in ast.walk(fns[py])):
                raise Unsupported("%s: return inside a generator" % py)
            body = "(SSeq %s (SReturn %s))" % (body, "EYieldedPairs" if "pairs" in m.yield_kinds else "EYieldedToks")
        out.append("(* %s(%s) *)" % (py, ", ".join(["self"] + sigs[py][0])))
        out.append("Definition %s : stmt :=\n  %s." % (name, body))
        out.append("")
    # the default values of the parameters (used by callers that omit arguments; part of the behaviour)
    dm = Method(fns[METHODS[0][0]], sigs)
    rows = []
    for py, ctor, _ in METHODS:
        rows.append("(%s, [%s])" % (ctor, "; ".join(dm.const_default(d) for d in sigs[py][1])))
    out.append("Definition gen_defaults : list (meth * list ex) :=\n  [%s]." % ";\n   ".join(rows))
    out.append("")
    out.append("Definition gen_prog (m : meth) : stmt :=\n  match m with\n%s\n  end." % "\n".join(
        "  | %s => %s" % (c, n) for _, c, n in METHODS))
    return "\n".join(out) + "\n"


if __name__ == "__main__":
    import sys
    print(generate(sys.argv[1] if len(sys.argv) > 1 else "/repo"))
