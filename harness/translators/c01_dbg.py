#!/venv/bin/python
"""DEV TOOL (not used by the check): compile a Coq file of /verif/coq; on error show the error and the goal just
before the failing tactic.  Needs a writable /tmp/scratch_C01."""
import sys, re, subprocess, os
rel = sys.argv[1]
os.chdir('/verif/coq')
def run(path):
    p = subprocess.run(['timeout','600','coqc','-q','-noglob','-Q','.','Boltons',path],capture_output=True,text=True)
    return p.returncode, (p.stdout+p.stderr)
rc,out = run(rel)
out = "\n".join(l for l in out.splitlines() if 'conda' not in l)
if rc == 0:
    print("OK", out[-1500:]); sys.exit(0)
print(out[-2500:])
m = re.search(r'line (\d+), characters (\d+)-(\d+)', out)
if m:
    L,a = int(m.group(1)), int(m.group(2))
    src = open(rel, encoding='utf-8').read().encode('utf-8')
    lines = src.split(b'\n')
    pre = b'\n'.join(lines[:L-1]) + b'\n' + lines[L-1][:a]
    ms = list(re.finditer(rb'\.\s', pre))
    if ms:
        pre = pre[:ms[-1].end()]
    tmp = '/tmp/scratch_C01/dbg_%d.v' % os.getpid()
    open(tmp,'wb').write(pre + b'\nShow.\n')
    rc2,out2 = run(tmp)
    for e in ('.v','.vo','.vok','.vos','.glob'):
        try: os.remove(tmp[:-2]+e)
        except OSError: pass
    out2 = "\n".join(l for l in out2.splitlines() if 'conda' not in l and 'pending proofs' not in l)
    print("---- goal before failing tactic ----")
    print(out2[-3500:])
