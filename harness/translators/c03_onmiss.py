"""The on_miss callable the C03 harness gives to the caches.  It lives in its own file so that
the scheduler can place pre-emption points INSIDE it (frames of this file are traced like frames
of boltons/cacheutils.py): a cache that calls on_miss outside its lock is then pre-empted in the
middle of the user's function, which is where a concurrent assignment gets lost."""


def make(key_token, value_object, calls):
    def on_miss(key):
        tok = key_token(key)
        calls.append(tok)         # the harness reports how often on_miss was called during a run
        tok = tok + 50            # a few bytecodes on purpose: each is a pre-emption point
        value = value_object(tok)
        return value
    return on_miss
