# DEV TOOL (not used by the check): the mutant-validation runner of notes/C01.md; needs /tmp/scratch_C01/mut.
import os, sys, shutil, subprocess, json, re
from concurrent.futures import ThreadPoolExecutor
SRC = '/repo/boltons'
M = [
 ("m01_setitem_no_remove_all", "        if super().__contains__(k):\n            self._remove_all(k)\n        self._insert(k, v)\n        super().__setitem__(k, [v])", "        self._insert(k, v)\n        super().__setitem__(k, [v])"),
 ("m02_getlist_alias", "            return super().__getitem__(k)[:]", "            return super().__getitem__(k)"),
 ("m03_keys_last_occurrence", "            yielded = set()\n            yielded_add = yielded.add\n            while curr is not root:\n                k = curr[KEY]\n                if k not in yielded:\n                    yielded_add(k)\n                    yield k\n                curr = curr[NEXT]",
  "            order = []\n            while curr is not root:\n                k = curr[KEY]\n                if k in order:\n                    order.remove(k)\n                order.append(k)\n                curr = curr[NEXT]\n            yield from order"),
 ("m04_add_no_store_append", "        self._insert(k, v)\n        values.append(v)", "        self._insert(k, v)\n        values[:] = [v]"),
 ("m05_remove_first_cell", "        values = self._map[k]\n        cell = values.pop()\n        cell[PREV][NEXT], cell[NEXT][PREV] = cell[NEXT], cell[PREV]\n        if not values:", "        values = self._map[k]\n        cell = values.pop(0)\n        cell[PREV][NEXT], cell[NEXT][PREV] = cell[NEXT], cell[PREV]\n        if not values:"),
 ("m06_poplast_first_value", "        v = values.pop()\n        if not values:\n            super().__delitem__(k)", "        v = values.pop(0)\n        if not values:\n            super().__delitem__(k)"),
 ("m07_delitem_dict_only", "        super().__delitem__(k)\n        self._remove_all(k)", "        super().__delitem__(k)\n        self._map.pop(k)"),
 ("m08_update_mapping_adds", "            for k in E.keys():\n                self[k] = E[k]\n        else:", "            for k in E.keys():\n                self_add(k, E[k])\n        else:"),
 ("m09_update_extend_self_multi", "            iterator = iter(E.items())", "            iterator = iter(E.items(multi=True))"),
 ("m10_pop_first_value", "            return self.popall(k)[-1]", "            return self.popall(k)[0]"),
 ("m11_get_first_value", "        return super().get(k, [default])[-1]", "        return super().get(k, [default])[0]"),
 ("m12_getitem_first_value", "    def __getitem__(self, k):\n        return super().__getitem__(k)[-1]", "    def __getitem__(self, k):\n        return super().__getitem__(k)[0]"),
 ("m13_reversed_last_occurrence", "            if lengths_sd(k, 1) == len(vals):\n                yield k", "            if lengths_sd(k, 1) == 1:\n                yield k"),
 ("m14_copy_single", "        return self.__class__(self.iteritems(multi=True))\n\n    @classmethod", "        return self.__class__(self.iteritems(multi=False))\n\n    @classmethod"),
 ("m15_eq_omd_keys_only", "                if selfk != otherk or selfv != otherv:", "                if selfk != otherk:"),
 ("m16_eq_no_len_check", "            if len(other) != len(self):\n                return False", "            len(other)"),
 ("m17_clear_dict_only", "        super().clear()\n        self._clear_ll()", "        super().clear()"),
 ("m18_setdefault_always_sets", "        if not super().__contains__(k):\n            self[k] = None if default is _MISSING else default", "        if True:\n            self[k] = None if default is _MISSING else default"),
 ("m19_todict_alias", "            return {k: self.getlist(k) for k in self}", "            return {k: dict.__getitem__(self, k) for k in self}"),
 ("m20_popall_keeps_cells", "        if super_self.__contains__(k):\n            self._remove_all(k)\n        if default is _MISSING:", "        if default is _MISSING:"),
 ("m21_counts_one", "        return self.__class__((k, len(super_getitem(k))) for k in self)", "        return self.__class__((k, 1) for k in self)"),
 ("m22_sortedvalues_ignores_reverse", "sorted(v, key=key, reverse=reverse)[::-1]", "sorted(v, key=key)[::-1]"),
 ("m23_items_first_value", "            for key in self.iterkeys():\n                yield key, self[key]", "            for key in self.iterkeys():\n                yield key, self.getlist(key)[0]"),
 ("m24_addlist_store_reversed", "        values.extend(v)", "        values.extend(v[::-1])"),
 ("m26_fromkeys_dedup", "        return cls([(k, default) for k in keys])", "        return cls([(k, default) for k in dict.fromkeys(keys)])"),
 ("m27_ior_extends", "    def __ior__(self, other):\n        self.update(other)", "    def __ior__(self, other):\n        self.update_extend(other)"),
 ("m28_popitem_first_key", "        k = self.root[PREV][KEY]\n        return k, self.pop(k)", "        k = self.root[NEXT][KEY]\n        return k, self.pop(k)"),
 ("m31_poplast_keeps_empty_key", "        v = values.pop()\n        if not values:\n            super().__delitem__(k)\n        return v", "        v = values.pop()\n        return v"),
 ("m34_update_omd_no_delete", "                if k in self:\n                    del self[k]\n            for k, v in E.iteritems(multi=True):", "                pass\n            for k, v in E.iteritems(multi=True):"),
 ("m35_update_pairs_deletes_each_time", "                if k not in seen:\n                    seen_add(k)\n                    if k in self:\n                        del self[k]", "                if k in self:\n                    del self[k]"),
 ("m36_values_multi_reversed", "        for k, v in self.iteritems(multi=multi):\n            yield v", "        for k, v in (reversed(list(self.iteritems(multi=multi))) if multi else self.iteritems(multi=multi)):\n            yield v"),
 ("m37_setstate_no_clear_extend_twice", "        self.clear()\n        self.update_extend(state)", "        self.update_extend(state)\n        self.update(state)"),
 ("m38_inverted_single", "        return self.__class__((v, k) for k, v in self.iteritems(multi=True))", "        return self.__class__((v, k) for k, v in self.iteritems())"),
 ("m39_repr_single", "        kvs = ', '.join([repr((k, v)) for k, v in self.iteritems(multi=True)])", "        kvs = ', '.join([repr((k, v)) for k, v in self.iteritems()])"),
 ("m40_contains_via_map_after_poplast", "        if not values:\n            del self._map[k]\n\n    def _remove_all", "        if not values:\n            pass\n\n    def _remove_all"),

 ("p01_insert_root_prev_stale", "        last[NEXT] = root[PREV] = cell", "        last[NEXT] = cell"),
 ("p02_insert_cell_prev_root", "        cell = [last, root, k, v]\n        last[NEXT] = root[PREV] = cell\n        cells.append(cell)\n\n    def add", "        cell = [root, root, k, v]\n        last[NEXT] = root[PREV] = cell\n        cells.append(cell)\n\n    def add"),
 ("p03_remove_forward_only", "        cell = values.pop()\n        cell[PREV][NEXT], cell[NEXT][PREV] = cell[NEXT], cell[PREV]\n        if not values:", "        cell = values.pop()\n        cell[PREV][NEXT] = cell[NEXT]\n        if not values:"),
 ("p04_remove_all_forward_only", "            cell = values.pop()\n            cell[PREV][NEXT], cell[NEXT][PREV] = cell[NEXT], cell[PREV]\n        del self._map[k]", "            cell = values.pop()\n            cell[PREV][NEXT] = cell[NEXT]\n        del self._map[k]"),
 ("p05_remove_all_backward_only", "            cell = values.pop()\n            cell[PREV][NEXT], cell[NEXT][PREV] = cell[NEXT], cell[PREV]\n        del self._map[k]", "            cell = values.pop()\n            cell[NEXT][PREV] = cell[PREV]\n        del self._map[k]"),
 ("p06_clear_stale_prev", "        self.root[:] = [self.root, self.root, None]\n\n    def _insert(self, k, v):\n        root = self.root\n        cells = self._map.setdefault(k, [])\n        last = root[PREV]\n        cell = [last, root, k, v]", "        self.root[:] = [self.root[0] if self.root else self.root, self.root, None]\n\n    def _insert(self, k, v):\n        root = self.root\n        cells = self._map.setdefault(k, [])\n        last = root[PREV]\n        cell = [last, root, k, v]"),
 ("p08_addlist_no_materialise", "        v = list(v)\n        if not v:", "        if not v:"),
 ("p10_update_extend_kwargs_first", "        self_add = self.add\n        for k, v in iterator:\n            self_add(k, v)\n        for k in F:\n            self_add(k, F[k])", "        self_add = self.add\n        for k in F:\n            self_add(k, F[k])\n        for k, v in iterator:\n            self_add(k, v)"),
 ("p12_iteritems_skips_last", "        if multi:\n            while curr is not root:\n                yield curr[KEY], curr[VALUE]\n                curr = curr[NEXT]", "        if multi:\n            while curr is not root and curr[NEXT] is not root:\n                yield curr[KEY], curr[VALUE]\n                curr = curr[NEXT]"),
 ("p13_update_self_returns", "        if E is self:\n            E = ()", "        if E is self:\n            return"),
 ("p14_update_bad_rolls_nothing_seen", "                if k not in seen:\n                    seen_add(k)\n                    if k in self:\n                        del self[k]", "                if k in self and k not in seen:\n                    del self[k]\n                seen_add(k)"),

 ("q01_sorted_reverse_default_true", "    def sorted(self, key=None, reverse=False):", "    def sorted(self, key=None, reverse=True):"),
 ("q02_items_multi_default_true", "    def items(self, multi=False):", "    def items(self, multi=True):"),
 ("q03_sorted_returns_self_when_small", "        cls = self.__class__\n        return cls(sorted(self.iteritems(multi=True), key=key, reverse=reverse))", "        cls = self.__class__\n        if len(self) <= 1 and len(self.keys(multi=True)) <= 1:\n            return self\n        return cls(sorted(self.iteritems(multi=True), key=key, reverse=reverse))"),
 ("q04_sortedvalues_reverse_default_true", "    def sortedvalues(self, key=None, reverse=False):", "    def sortedvalues(self, key=None, reverse=True):"),
 # behaviour-preserving rewrites: must stay silent
 ("h01_yielded_list", "            yielded = set()\n            yielded_add = yielded.add", "            yielded = []\n            yielded_add = yielded.append"),
 ("h02_add_reordered", "        values = super().setdefault(k, [])\n        self._insert(k, v)\n        values.append(v)", "        values = super().setdefault(k, [])\n        values.append(v)\n        self._insert(k, v)"),
 ("h03_setstate_no_clear", "        self.clear()\n        self.update_extend(state)", "        self.update_extend(state)"),
 ("h04_keys_comprehension", "        return list(self.iterkeys(multi=multi))", "        return [k for k in self.iterkeys(multi=multi)]"),
 ("h05_get_try", "        return super().get(k, [default])[-1]", "        try:\n            return super().__getitem__(k)[-1]\n        except KeyError:\n            return default"),
 ("h06_getitem_via_getlist", "    def __getitem__(self, k):\n        return super().__getitem__(k)[-1]", "    def __getitem__(self, k):\n        vals = super().__getitem__(k)\n        return vals[len(vals) - 1]"),
]
only = sys.argv[1:] 
def run(m):
    name, old, new = m
    d = '/tmp/scratch_C01/mut/' + name
    shutil.rmtree(d, ignore_errors=True)
    os.makedirs(d)
    shutil.copytree(SRC, d + '/boltons')
    p = d + '/boltons/dictutils.py'
    s = open(p).read()
    if s.count(old) < 1:
        return name, 'NOT-APPLICABLE', ''
    s = s.replace(old, new, 1)
    open(p, 'w').write(s)
    t = subprocess.run('cd /repo && PYTHONPATH=%s /venv/bin/python -m pytest -q -p no:cacheprovider -x tests/test_dictutils.py 2>&1 | tail -1' % d, shell=True, capture_output=True, text=True).stdout.strip()
    # private Coq tree / build / evidence / replays (AGENT_GUIDE "Running"): regenerated Gen files stay private
    subprocess.run(['cp', '-a', '/verif/coq', d + '/coq'], check=True)
    env = dict(os.environ, VERIF_REPO=d, VERIF_JOBS='3', VERIF_SEED='1', C01_NO_SHRINK='1', VERIF_COQ=d + '/coq',
               VERIF_BUILD=d + '/build', VERIF_EVIDENCE_DIR=d + '/ev', VERIF_REPLAY_DIR=d + '/rp')
    r = subprocess.run(['/venv/bin/python', '/verif/harness/vcheck.py', 'C01', '--n', '400'], env=env, capture_output=True, text=True, cwd='/verif')
    lines = [l for l in r.stdout.splitlines() if l.startswith(('C01 tier', 'VIOLATION', 'HARNESS'))]
    lines = [l.replace(d, '<scratch>') for l in lines]
    shutil.rmtree(d, ignore_errors=True)
    return name, 'exit=%d' % r.returncode, 'suite: %s | %s' % (t[-60:], ' ; '.join(lines)[:300])
ms = [m for m in M if not only or m[0] in only or any(m[0].startswith(o) for o in only)]
with ThreadPoolExecutor(max_workers=5) as ex:
    for name, st, info in ex.map(run, ms):
        print(name, st, info, flush=True)
