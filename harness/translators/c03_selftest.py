"""Self-test of the C03 lock-table translator (DESIGN 2, item 4): perturb the CURRENT source text
in memory in ways that break the lock discipline (or that the translator must refuse to
understand), run the extractor on each perturbed text and require that the resulting table is
NOT covered (python mirror of Lib/C03_Syntax.table_covered) or that the extractor fails closed.
Also requires that the unperturbed source IS covered by the mirror exactly when Coq says so is
left to Coq: here only the perturbations are judged.  Returns (n_rejected, n_total, failures)."""
import os
import re
import shutil
import tempfile

import c03_lock_ast as T

LOCKED = ["MSetItem", "MGetItem", "MGet", "MDelItem", "MPop", "MPopItem", "MClear", "MSetDefault",
          "MUpdate", "MIor", "MEq", "MCopy", "MLen", "MContains", "MOr", "MRor", "MRepr", "MNe", "MCopy2"]


def covered(ctor, methods):
    """mirror of table_covered: RLock and every locked method of LRI and LRU Whole (get: Single ok)"""
    if ctor != "CtorRLock":
        return False
    _, st = T.summary(ctor, methods)
    for cls in ("LRI", "LRU"):
        for m in LOCKED:
            s = st.get((cls, m)) if (cls, m) in st else (st.get(("LRI", m)) if cls == "LRU" else None)
            if s == "Whole" or (s == "Single" and m in ("MGet", "MNe")):
                continue
            return False
    return True


def _dedent_with(src, header, cls_marker="class LRI(dict):"):
    start = src.index(cls_marker)
    i = src.index(header, start)
    j = src.index("        with self._lock:\n", i)
    lines = src[j:].split("\n")
    out, k = [], 1
    while k < len(lines) and (lines[k].startswith("            ") or lines[k].strip() == ""):
        if lines[k].strip() == "" and not (k + 1 < len(lines) and lines[k + 1].startswith("            ")):
            break
        out.append(lines[k][4:] if lines[k].strip() else lines[k])
        k += 1
    return src[:j] + "\n".join(out) + "\n" + "\n".join(lines[k:])


def perturbations(src):
    ps = []
    for name, header in [("setitem", "    def __setitem__(self, key, value):"), ("pop", "    def pop(self, key, default=_MISSING):"),
                         ("clear", "    def clear(self):"), ("len", "    def __len__(self):"),
                         ("contains", "    def __contains__(self, key):"), ("copy", "    def copy(self):"),
                         ("setdefault", "    def setdefault(self, key, default=None):"),
                         ("update", "    def update(self, E, **F):"), ("eq", "    def __eq__(self, other):"),
                         ("or", "    def __or__(self, other):"), ("repr", "    def __repr__(self):"),
                         ("__copy__", "    def __copy__(self):")]:
        ps.append(("no lock in " + name, lambda s, h=header: _dedent_with(s, h)))
    ps.append(("no lock in LRU.__getitem__", lambda s: _dedent_with(s, "    def __getitem__(self, key):", "class LRU(LRI):")))
    ps.append(("plain Lock", lambda s: s.replace("from threading import RLock", "from threading import Lock as RLock")))
    ps.append(("lock attribute renamed in __init__", lambda s: s.replace("self._lock = RLock()", "self._mutex = RLock()")))
    ps.append(("manual release inside a method", lambda s: s.replace("            super().clear()\n", "            self._lock.release()\n            super().clear()\n")))
    ps.append(("lock replaced in clear()", lambda s: s.replace("            super().clear()\n", "            self._lock = RLock()\n            super().clear()\n")))
    ps.append(("get() reads the table directly", lambda s: s.replace("            return self[key]\n        except KeyError:\n            self.soft_miss_count += 1\n            return default",
                                                                         "            return self._link_lookup[key][VALUE]\n        except KeyError:\n            self.soft_miss_count += 1\n            return default")))
    ps.append(("get() with two locked calls", lambda s: s.replace("            self.soft_miss_count += 1\n            return default\n\n    def __delitem__", "            self.soft_miss_count += 1\n            return self.setdefault(key, default)\n\n    def __delitem__")))
    ps.append(("__len__ removed (dict's own, lock-free)", lambda s: re.sub(r"    def __len__\(self\):\n        with self\._lock:\n            return super\(\)\.__len__\(\)\n", "", s)))
    ps.append(("class patched after definition", lambda s: s + "\nLRI.__setitem__ = dict.__setitem__\n"))
    ps.append(("lambda touching self inside a method", lambda s: s.replace("            super().clear()\n", "            f = lambda: self._anchor\n            super().clear()\n")))
    ps.append(("lazy generator over the link table returned from inside the lock", lambda s: s.replace("            super().clear()\n", "            g = (self._link_lookup[k] for k in ())\n            super().clear()\n")))
    ps.append(("dict write moved out of the with-block", lambda s: s.replace("                link[VALUE] = value\n            super().__setitem__(key, value)\n", "                link[VALUE] = value\n        super().__setitem__(key, value)\n")))
    return ps


def run(repo):
    src = open(os.path.join(repo, "boltons", "cacheutils.py")).read()
    failures, total, rejected = [], 0, 0
    tmp = tempfile.mkdtemp(prefix="c03_selftest_")
    try:
        os.makedirs(os.path.join(tmp, "boltons"))
        for name, f in perturbations(src):
            try:
                new = f(src)
            except ValueError:
                continue                    # the construct to perturb is not in this source: not applicable
            if new == src:
                continue
            total += 1
            with open(os.path.join(tmp, "boltons", "cacheutils.py"), "w") as fh:
                fh.write(new)
            try:
                compile(new, "cacheutils.py", "exec")
                ctor, methods = T.extract(tmp)
                ok = not covered(ctor, methods)
            except T.TranslatorError:
                ok = True
            if ok:
                rejected += 1
            else:
                failures.append(name)
    finally:
        shutil.rmtree(tmp, ignore_errors=True)
    return rejected, total, failures


if __name__ == "__main__":
    import sys
    print(run(sys.argv[1] if len(sys.argv) > 1 else "/repo"))
