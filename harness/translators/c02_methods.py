"""C02 translator (second part): the PUBLIC methods of boltons.cacheutils.LRI / LRU -> programs for
Model/C02_MethInterp.v (list mstmt).  Walks the ast of the CURRENT source; fails closed (raises
Unsupported) on anything outside the subset."""
import ast
import os
import sys

sys.path.insert(0, os.path.dirname(os.path.abspath(__file__)))
import c02_helpers as H

Unsupported = H.Unsupported
PARAMS = {"key": "PKey", "value": "PValue", "default": "PDefault", "E": "PE", "F": "PF", "other": "PE", "values": "PE"}
COUNTERS = {"hit_count": "CHit", "miss_count": "CMiss", "soft_miss_count": "CSoft"}
METHODS = [("LRI", "__setitem__", "genm_setitem", ["self", "key", "value"], []),
           ("LRI", "__getitem__", "genm_getitem_lri", ["self", "key"], []),
           ("LRU", "__getitem__", "genm_getitem_lru", ["self", "key"], []),
           ("LRI", "get", "genm_get", ["self", "key", "default"], ["None"]),
           ("LRI", "__delitem__", "genm_delitem", ["self", "key"], []),
           ("LRI", "pop", "genm_pop", ["self", "key", "default"], ["_MISSING"]),
           ("LRI", "popitem", "genm_popitem", ["self"], []),
           ("LRI", "clear", "genm_clear", ["self"], []),
           ("LRI", "setdefault", "genm_setdefault", ["self", "key", "default"], ["None"]),
           ("LRI", "update", "genm_update", ["self", "E"], []),
           ("LRI", "__contains__", "genm_contains", ["self", "key"], []),
           ("LRI", "__len__", "genm_len", ["self"], []),
           ("LRI", "__ior__", "genm_ior", ["self", "other"], []),
           ("LRI", "__eq__", "genm_eq", ["self", "other"], []),
           ("LRI", "__ne__", "genm_ne", ["self", "other"], []),
           ("LRI", "copy", "genm_copy", ["self"], []),
           ("LRI", "__copy__", "genm_copy_module", ["self"], []),
           ("LRI", "__init__", "genm_init", ["self", "max_size", "values", "on_miss"],
            ["DEFAULT_MAX_SIZE", "None", "None"])]


def _self_attr(node, name=None):
    return (isinstance(node, ast.Attribute) and isinstance(node.value, ast.Name) and node.value.id == "self"
            and (name is None or node.attr == name))


class _Args:
    """A call seen as super().<name>(args): `dict.<name>(self, args)` is the same call for a direct dict subclass."""
    pass


def _super_call(node, name, nargs):
    if not (isinstance(node, ast.Call) and isinstance(node.func, ast.Attribute) and node.func.attr == name
            and not node.keywords):
        return False
    base = node.func.value
    if (isinstance(base, ast.Call) and isinstance(base.func, ast.Name) and base.func.id == "super"
            and not base.args and not base.keywords and len(node.args) == nargs):
        return True
    if (isinstance(base, ast.Name) and base.id == "dict" and len(node.args) == nargs + 1
            and isinstance(node.args[0], ast.Name) and node.args[0].id == "self"):
        node.args = node.args[1:]          # normalise: the remaining arguments are those of the super() form
        return True
    return False


class _Method:
    def __init__(self, fn, roles, where):
        self.fn, self.roles, self.where = fn, roles, where
        self.vars = {}
        self.alias_setitem = None
        self.params = set(a.arg for a in fn.args.args[1:])
        if fn.args.kwarg:
            self.params.add(fn.args.kwarg.arg)

    def bad(self, what, node=None):
        raise Unsupported("%s: %s%s" % (self.where, what, (" " + ast.dump(node)[:160]) if node is not None else ""))

    def var(self, name, define=False):
        if name not in self.vars:
            if not define:
                self.bad("variable %s used before assignment" % name)
            self.vars[name] = len(self.vars)
        return self.vars[name]

    def helper(self, call):
        """(role, args) if call is self.<helper>(...)"""
        if (isinstance(call, ast.Call) and _self_attr(call.func) and call.func.attr in self.roles
                and not call.keywords):
            return self.roles[call.func.attr], call.args
        return None

    def expr(self, e):
        if isinstance(e, ast.Name):
            if e.id in self.params and e.id in PARAMS:
                return "(XParam %s)" % PARAMS[e.id]
            if e.id == "_MISSING":
                return "XMissing"
            if e.id == "self":
                return "XSelf"
            return "(XVar %d)" % self.var(e.id)
        if isinstance(e, ast.Subscript):
            # self._get_flattened_ll()[1:]
            if (isinstance(e.slice, ast.Slice) and isinstance(e.slice.lower, ast.Constant) and e.slice.lower.value == 1
                    and e.slice.upper is None and e.slice.step is None and isinstance(e.value, ast.Call)
                    and _self_attr(e.value.func, "_get_flattened_ll") and not e.value.args and not e.value.keywords):
                return "XFlattenTail"
            if isinstance(e.value, ast.Name) and e.value.id == "self":
                return "(XSelfGet %s)" % self.expr(e.slice)
            if _self_attr(e.value, "_link_lookup"):
                return "(XLookup %s)" % self.expr(e.slice)
            if isinstance(e.slice, ast.Name) and e.slice.id == "VALUE":
                return "(XLinkValue %s)" % self.expr(e.value)
            if isinstance(e.slice, ast.Constant) and e.slice.value == 0 and type(e.slice.value) is int:
                return "(XItem0 %s)" % self.expr(e.value)
            if isinstance(e.value, ast.Name) and e.value.id in ("E", "F") and e.value.id in self.params:
                return "(XIndex %s %s)" % (self.expr(e.value), self.expr(e.slice))
            self.bad("subscript", e)
        if isinstance(e, ast.UnaryOp) and isinstance(e.op, ast.Not) and _self_attr(e.operand, "on_miss"):
            return "XNoOnMiss"
        if isinstance(e, ast.UnaryOp) and isinstance(e.op, ast.Not):
            return "(XNot %s)" % self.expr(e.operand)
        if isinstance(e, ast.Constant) and e.value is True:
            return "XTrue"
        if ast.unparse(e) == "max_size <= 0" and "max_size" in self.params:
            return "XMaxSizeNotPositive"
        if ast.unparse(e) == "on_miss is not None and (not callable(on_miss))" and "on_miss" in self.params:
            return "XOnMissNotCallable"
        if _self_attr(e, "max_size"):
            return "XMaxSize"
        if isinstance(e, ast.Compare) and len(e.ops) == 1 and len(e.comparators) == 1:
            a, b = self.expr(e.left), self.expr(e.comparators[0])
            if isinstance(e.ops[0], ast.Lt):
                return "(XLt %s %s)" % (a, b)
            if isinstance(e.ops[0], ast.Is):
                return "(XIs %s %s)" % (a, b)
            if isinstance(e.ops[0], ast.Eq) and a == "XSelf":
                return "(XSelfEq %s)" % b
            self.bad("comparison", e)
        if isinstance(e, ast.Call):
            if (isinstance(e.func, ast.Name) and e.func.id == "len" and len(e.args) == 1 and not e.keywords
                    and isinstance(e.args[0], ast.Name) and e.args[0].id == "self"):
                return "XLenSelf"
            if _self_attr(e.func, "on_miss") and len(e.args) == 1 and not e.keywords:
                return "(XOnMiss %s)" % self.expr(e.args[0])
            if _super_call(e, "pop", 1):
                return "(XSuperPop %s)" % self.expr(e.args[0])
            if _super_call(e, "popitem", 0):
                return "XSuperPopitem"
            if _self_attr(e.func, "copy") and not e.args and not e.keywords:
                return "XSelfCopy"
            # self.__class__(max_size=self.max_size, on_miss=self.on_miss)
            if (_self_attr(e.func, "__class__") and not e.args and len(e.keywords) == 2
                    and sorted((k.arg, ast.unparse(k.value)) for k in e.keywords)
                    == [("max_size", "self.max_size"), ("on_miss", "self.on_miss")]):
                return "XNewLike"
            if _super_call(e, "__contains__", 1):
                return "(XSuperContains %s)" % self.expr(e.args[0])
            if _super_call(e, "__len__", 0):
                return "XSuperLen"
            if _super_call(e, "__eq__", 1):
                return "(XSuperEq %s)" % self.expr(e.args[0])
            h = self.helper(e)
            if h and h[0] == "gen_move_to_front" and len(h[1]) == 1:
                return "(XHelperMove %s)" % self.expr(h[1][0])
            if h and h[0] == "gen_evict" and len(h[1]) == 2:
                return "(XHelperEvict %s %s)" % (self.expr(h[1][0]), self.expr(h[1][1]))
            # callable(getattr(E, 'keys', None))
            if (isinstance(e.func, ast.Name) and e.func.id == "callable" and len(e.args) == 1 and not e.keywords):
                g = e.args[0]
                if (isinstance(g, ast.Call) and isinstance(g.func, ast.Name) and g.func.id == "getattr"
                        and len(g.args) == 3 and isinstance(g.args[1], ast.Constant) and g.args[1].value == "keys"
                        and isinstance(g.args[2], ast.Constant) and g.args[2].value is None):
                    return "(XHasKeys %s)" % self.expr(g.args[0])
            self.bad("call", e)
        self.bad("expression", e)

    def target(self, t):
        if isinstance(t, ast.Name):
            if t.id in self.params or t.id in ("self", "_MISSING", "VALUE"):
                self.bad("assignment to %s" % t.id)
            return "TV %d" % self.var(t.id, define=True)
        if isinstance(t, ast.Subscript):
            if isinstance(t.value, ast.Name) and t.value.id == "self":
                return "TSelfItem %s" % self.expr(t.slice)
            if isinstance(t.slice, ast.Name) and t.slice.id == "VALUE":
                return "TLinkVal %s" % self.expr(t.value)
            if isinstance(t.value, ast.Name) and t.value.id in self.vars:
                return "TObjItem %d %s" % (self.var(t.value.id), self.expr(t.slice))
        self.bad("assignment target", t)

    def block(self, stmts):
        out = []
        for s in stmts:
            r = self.stmt(s)
            if r is not None:
                out.append(r)
        return "[%s]" % "; ".join(out)

    def stmt(self, s):
        if isinstance(s, ast.Expr) and isinstance(s.value, ast.Constant) and isinstance(s.value.value, str):
            return None
        if isinstance(s, ast.With):
            if (len(s.items) == 1 and _self_attr(s.items[0].context_expr, "_lock")
                    and s.items[0].optional_vars is None):
                return "MWith %s" % self.block(s.body)
            self.bad("with", s)
        if isinstance(s, ast.Try):
            if (len(s.handlers) == 1 and isinstance(s.handlers[0].type, ast.Name)
                    and s.handlers[0].type.id == "KeyError" and s.handlers[0].name is None and not s.finalbody):
                return "MTry %s %s %s" % (self.block(s.body), self.block(s.handlers[0].body), self.block(s.orelse))
            self.bad("try", s)
        if isinstance(s, ast.If):
            if isinstance(s.test, ast.Name) and s.test.id == "values" and "values" in self.params:
                return "MIf (XTruthy (XParam PE)) %s %s" % (self.block(s.body), self.block(s.orelse))
            return "MIf %s %s %s" % (self.expr(s.test), self.block(s.body), self.block(s.orelse))
        if (isinstance(s, ast.Raise) and isinstance(s.exc, ast.Call) and isinstance(s.exc.func, ast.Name)
                and s.exc.func.id in ("ValueError", "TypeError") and s.cause is None):
            return "MRaiseExn %s" % s.exc.func.id
        if isinstance(s, ast.Assign) and self.fn.name == "__init__":
            tg = [ast.unparse(t) for t in s.targets]
            val = ast.unparse(s.value)
            if tg == ["self.hit_count", "self.miss_count", "self.soft_miss_count"] and val == "0":
                return "MZeroCounters"
            if (tg, val) in ((["self.max_size"], "max_size"), (["self._lock"], "RLock()"), (["self.on_miss"], "on_miss")):
                return "MSetConfig"
        if isinstance(s, ast.Assign):
            if (len(s.targets) == 1 and isinstance(s.targets[0], ast.Name) and _self_attr(s.value, "__setitem__")):
                self.alias_setitem = s.targets[0].id
                return None
            value = self.expr(s.value)
            return "MAssign [%s] %s" % ("; ".join(self.target(t) for t in s.targets), value)
        if isinstance(s, ast.AugAssign):
            if (isinstance(s.op, ast.Add) and _self_attr(s.target) and s.target.attr in COUNTERS
                    and isinstance(s.value, ast.Constant) and s.value.value == 1 and type(s.value.value) is int):
                return "MAug %s" % COUNTERS[s.target.attr]
            self.bad("augmented assignment", s)
        if isinstance(s, ast.Expr) and isinstance(s.value, ast.Call):
            c = s.value
            if _super_call(c, "__delitem__", 1):
                return "MSuperDel %s" % self.expr(c.args[0])
            if _super_call(c, "__setitem__", 2):
                return "MSuperSet %s %s" % (self.expr(c.args[0]), self.expr(c.args[1]))
            if _super_call(c, "clear", 0):
                return "MSuperClear"
            h = self.helper(c)
            if h and h[0] == "gen_add_to_front" and len(h[1]) == 2:
                return "MHelperAdd %s %s" % (self.expr(h[1][0]), self.expr(h[1][1]))
            if h and h[0] == "gen_remove" and len(h[1]) == 1:
                return "MHelperRemove %s" % self.expr(h[1][0])
            if h and h[0] == "gen_init_ll" and len(h[1]) == 0:
                return "MHelperInit"
            if _self_attr(c.func, "update") and len(c.args) == 1 and not c.keywords:
                return "MCallUpdate %s" % self.expr(c.args[0])
            if (isinstance(c.func, ast.Name) and c.func.id == self.alias_setitem and len(c.args) == 2
                    and not c.keywords):
                return "MCallSetitem %s %s" % (self.expr(c.args[0]), self.expr(c.args[1]))
            self.bad("call statement", s)
        if isinstance(s, ast.For) and not s.orelse:
            it = s.iter
            if isinstance(s.target, ast.Name):
                x = self.var(s.target.id, define=True)
                if (isinstance(it, ast.Call) and isinstance(it.func, ast.Attribute) and it.func.attr == "keys"
                        and not it.args and not it.keywords and isinstance(it.func.value, ast.Name)
                        and it.func.value.id == "E" and "E" in self.params):
                    return "MForKeys %d (XParam PE) %s" % (x, self.block(s.body))
                if isinstance(it, ast.Name) and it.id == "F" and "F" in self.params:
                    return "MForKeys %d (XParam PF) %s" % (x, self.block(s.body))
            if (isinstance(s.target, ast.Tuple) and len(s.target.elts) == 2
                    and all(isinstance(e, ast.Name) for e in s.target.elts)):
                if isinstance(it, ast.Name) and it.id == "E" and "E" in self.params:
                    src = "(XParam PE)"
                else:
                    src = self.expr(it)
                    if src != "XFlattenTail":
                        self.bad("for", s)
                x = self.var(s.target.elts[0].id, define=True)
                y = self.var(s.target.elts[1].id, define=True)
                return "MForPairs %d %d %s %s" % (x, y, src, self.block(s.body))
            self.bad("for", s)
        if isinstance(s, ast.Return):
            return "MReturnNone" if s.value is None else "MReturn %s" % self.expr(s.value)
        if isinstance(s, ast.Raise) and s.exc is None and s.cause is None:
            return "MRaise"
        if isinstance(s, ast.Pass):
            return "MPass"
        self.bad("statement", s)


def translate(repo):
    path = os.path.join(repo, "boltons", "cacheutils.py")
    tree = ast.parse(open(path).read())
    helpers_text = H.translate(repo)                    # also performs the structural checks; may raise
    header = ["(* generated by harness/translators/c02_methods.py from boltons/cacheutils.py; do not edit *)",
              "From Boltons Require Import Lib.Prelude Lib.C02_Syntax Model.C02_Model Model.C02_PtrModel "
              "Model.C02_PtrCache Model.C02_MethInterp.", ""]
    if "gen_present : bool := false" in helpers_text:
        lines = header + ["(* no hand-written linked list in the source: the method obligations are vacuous *)",
                          "Definition genm_present : bool := false.", ""]
        for _, _, coqname, _, _ in METHODS:
            lines.append("Definition %s : list mstmt := []." % coqname)
        return "\n".join(lines) + "\n"
    roles = H.helper_roles(repo)                        # python name -> role
    classes = {n.name: n for n in tree.body if isinstance(n, ast.ClassDef)}
    lines = header + ["Definition genm_present : bool := true.", ""]
    for cls, name, coqname, want_args, want_defaults in METHODS:
        if cls not in classes:
            raise Unsupported("class %s not found" % cls)
        fns = [n for n in classes[cls].body if isinstance(n, ast.FunctionDef) and n.name == name]
        if len(fns) != 1:
            raise Unsupported("%s.%s not found (or defined twice)" % (cls, name))
        fn = fns[0]
        args = [a.arg for a in fn.args.args]
        defaults = [ast.unparse(d) for d in fn.args.defaults]
        kw = fn.args.kwarg.arg if fn.args.kwarg else None
        if (args != want_args or defaults != want_defaults or fn.args.vararg or fn.args.kwonlyargs
                or fn.decorator_list or kw != ("F" if name == "update" else None)):
            raise Unsupported("%s.%s: signature (%s; defaults %s; **%s)" % (cls, name, args, defaults, kw))
        m = _Method(fn, roles, "%s.%s" % (cls, name))
        lines.append("(* %s.%s *)" % (cls, name))
        lines.append("Definition %s : list mstmt :=\n  %s.\n" % (coqname, m.block(fn.body)))
    # LRU must override nothing else among the translated methods
    for n in classes.get("LRU", ast.ClassDef(body=[])).body if "LRU" in classes else []:
        if isinstance(n, ast.FunctionDef) and n.name != "__getitem__" and n.name in [m[1] for m in METHODS]:
            raise Unsupported("LRU overrides %s" % n.name)
    return "\n".join(lines)


if __name__ == "__main__" and "--selftest" not in sys.argv:
    print(translate(sys.argv[1] if len(sys.argv) > 1 else "/repo"))


def selftest(repo="/repo"):
    """Perturb the source in memory: the generated programs must change, or the translator must refuse;
    renaming a local must change nothing."""
    import shutil
    import tempfile
    good = translate(repo)
    src = open(os.path.join(repo, "boltons", "cacheutils.py")).read()
    results = []
    for name, old, new, expect in [
            ("setdefault without the soft-miss bump",
             "            except KeyError:\n                self.soft_miss_count += 1\n                self[key] = default",
             "            except KeyError:\n                self[key] = default", "differs"),
            ("update without the kwargs loop", "            for k in F:\n                setitem(k, F[k])\n", "", "differs"),
            ("capacity test <= for <", "                if len(self) < self.max_size:",
             "                if len(self) <= self.max_size:", "refused"),
            ("renamed local in __setitem__", "evicted", "gone", "same"),
            ("constructor checks swapped", "        if max_size <= 0:\n            raise ValueError('expected max_size > 0, not %r' % max_size)\n",
             "", "differs")]:
        assert old in src, name
        d = tempfile.mkdtemp(prefix="c02_trm_")
        try:
            os.makedirs(os.path.join(d, "boltons"))
            open(os.path.join(d, "boltons", "cacheutils.py"), "w").write(src.replace(old, new))
            try:
                got = "same" if translate(d) == good else "differs"
            except Unsupported:
                got = "refused"
        finally:
            shutil.rmtree(d, ignore_errors=True)
        results.append((name, expect, got))
        assert got == expect, (name, expect, got)
    return results


if __name__ == "__main__" and "--selftest" in sys.argv:
    for r in selftest():
        print("selftest %-40s expected %-8s got %s" % r)
