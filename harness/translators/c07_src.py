"""(T) tie for C07: boltons.urlutils.resolve_path_parts regenerated as Gallina from /repo's
current source (shared fail-closed Python-subset translator py2coq).  Proofs/C07_SrcEq.v proves
the generated function equal to the hand-written model function Model.C07_Model.resolve_path_parts,
about which the property theorems are stated.  A change of the source changes the generated term:
the translation or the equality proof then fails and the driver reports a broken tie."""
import os
import py2coq

def _cfg(node):
    """Kinds are declared by ROLE, not by name, so that renaming the parameter or a local of
    resolve_path_parts is not an alarm: the single parameter and every name bound to a list
    display are lists of segments, the loop variable is a segment."""
    import ast
    if len(node.args.args) != 1:
        raise py2coq.Unsupported("resolve_path_parts no longer takes exactly one parameter")
    param = node.args.args[0].arg
    kinds = {param: "list"}
    for n in ast.walk(node):
        if isinstance(n, ast.Assign) and len(n.targets) == 1 and isinstance(n.targets[0], ast.Name) \
                and isinstance(n.value, ast.List):
            kinds[n.targets[0].id] = "list"
        elif isinstance(n, ast.For) and isinstance(n.target, ast.Name):
            kinds[n.target.id] = "str"
    return {
        "name": "src_resolve_path_parts",
        "params": [(param, "list str")],
        "ret": "list str",
        "num": "N",
        "kinds": kinds,
        "consts": {repr('.'): "[46]", repr('..'): "[46; 46]", repr(''): "(@nil N)"},
        "eqb": {"str": "str_eqb", "list": "strs_eqb"},
        "truthy": {"list": "nonempty", "str": "nonempty"},
        "calls": {"len": ("py_len", "int"), "list": ("", "list")},
        "subscripts": {("list", "[0]"): ("py_first", "str"), ("list", "[-1:]"): ("py_last1", "list")},
    }


HEADER = """(* GENERATED on every run by harness/translators/c07_src.py from %s
   (resolve_path_parts); do not edit. *)
From Boltons Require Import Lib.Prelude Lib.PySrc Lib.C07_Str.
Open Scope N_scope.
"""


def generate(repo):
    path = os.path.join(repo, "boltons", "urlutils.py")
    node = py2coq.get_function(path, "resolve_path_parts")
    return {"C07_Src": HEADER % path + py2coq.Translator(_cfg(node)).function(node)}


if __name__ == "__main__":
    import sys
    print(generate(sys.argv[1] if len(sys.argv) > 1 else "/repo")["C07_Src"])
