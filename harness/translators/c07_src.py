"""(T) tie for C07: boltons.urlutils.resolve_path_parts regenerated as Gallina from /repo's
current source (shared fail-closed Python-subset translator py2coq).  Proofs/C07_SrcEq.v proves
the generated function equal to the hand-written model function Model.C07_Model.resolve_path_parts,
about which the property theorems are stated.  A change of the source changes the generated term:
the translation or the equality proof then fails and the driver reports a broken tie."""
import os
import py2coq

CFG = {
    "name": "src_resolve_path_parts",
    "params": [("path_parts", "list str")],
    "ret": "list str",
    "num": "N",
    "kinds": {"part": "str", "ret": "list", "path_parts": "list"},
    "consts": {repr('.'): "[46]", repr('..'): "[46; 46]", repr(''): "(@nil N)"},
    "eqb": {"str": "str_eqb", "list": "strs_eqb"},
    "truthy": {"list": "nonempty", "str": "nonempty"},
    "calls": {"len": ("py_len", "int"), "list": ("", "list")},
    "subscripts": {("list", "[0]"): ("py_first", "str"), ("list", "[-1:]"): ("py_last1", "list")},
}

HEADER = """(* GENERATED on every run by harness/translators/c07_src.py from %s
   (resolve_path_parts); do not edit. *)
From Boltons Require Import Lib.Prelude Lib.PySrc Lib.C07_Str.
Open Scope N_scope.
"""


def generate(repo):
    path = os.path.join(repo, "boltons", "urlutils.py")
    return {"C07_Src": HEADER % path + py2coq.translate(path, "resolve_path_parts", CFG)}


if __name__ == "__main__":
    import sys
    print(generate(sys.argv[1] if len(sys.argv) > 1 else "/repo")["C07_Src"])
