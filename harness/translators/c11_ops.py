"""(T) tie for C11, fourth part: IndexedSet.remove and IndexedSet.pop regenerated as Gallina from /repo's
current source (Gen/C11_Ops.v).  These two methods orchestrate the tombstone bookkeeping (which of
_get_real_index / _add_dead / _cull runs, on which path, in which order); seeded regression C11-2 was a
change of exactly that.  Fail closed: any statement or expression outside the forms below raises.

The result type is `iset * res ret`; a statement that can raise becomes a `match` whose failing branch
returns the state reached so far together with the exception (continuation-passing compilation; the
statements after an if/else are compiled into both branches).

  statements: docstring | x = self.A (alias) | n = len(alias) | n = <int expr>
              | if <cond>: ... else: ...  (+ following statements)
              | v = self.item_list.pop()              IndexError on an empty list
              | v = self.item_list[n]                 IndexError out of range
              | self.item_list[n] = _MISSING
              | del alias_of_map[v]                   KeyError when v is _MISSING or not a key
              | try: n = self.item_index_map.pop(P) except KeyError: raise KeyError(P)
              | n = self._get_real_index(P) | self._add_dead(n) | self._cull() | return v | (end) return None
  conditions: `P is None`, `P == <int expr>` for the optional parameter P, joined by `or`
  int exprs : constants, int locals, + - , unary -
"""
import ast
import os


class Unsupported(Exception):
    pass


def _fail(node, why):
    raise Unsupported("%s at line %s: %s" % (why, getattr(node, "lineno", "?"), ast.dump(node)[:200]))


def _is_self_attr(e, name):
    return isinstance(e, ast.Attribute) and isinstance(e.value, ast.Name) and e.value.id == "self" and e.attr == name


class Ops:
    def __init__(self, opt_param=None, key_param=None):
        self.alias = {}            # local -> attribute
        self.ints = set()
        self.slots = set()         # locals holding a slot value (an item or _MISSING)
        self.opt = opt_param       # optional int parameter (option Z)
        self.key = key_param       # item parameter (K)
        self.klists = set()        # locals holding a list of items
        self.kwargs = None         # name of the **kwargs parameter handed on to sorted()
        self.n = 0

    def is_map(self, e):
        return _is_self_attr(e, "item_index_map") or (isinstance(e, ast.Name) and self.alias.get(e.id) == "item_index_map")

    def is_items(self, e):
        return _is_self_attr(e, "item_list") or (isinstance(e, ast.Name) and self.alias.get(e.id) == "item_list")

    def int(self, e):
        if isinstance(e, ast.Constant) and type(e.value) is int:
            return "(%d)%%Z" % e.value
        if isinstance(e, ast.Name) and e.id in self.ints:
            return e.id
        if isinstance(e, ast.BinOp) and isinstance(e.op, (ast.Add, ast.Sub)):
            return "(%s %s %s)%%Z" % (self.int(e.left), "+" if isinstance(e.op, ast.Add) else "-", self.int(e.right))
        if isinstance(e, ast.UnaryOp) and isinstance(e.op, ast.USub):
            return "(- %s)%%Z" % self.int(e.operand)
        if isinstance(e, ast.Call) and isinstance(e.func, ast.Name) and e.func.id == "len" and len(e.args) == 1 \
                and not e.keywords and self.is_map(e.args[0]):
            return "(zlen (imap self))"
        if isinstance(e, ast.Call) and isinstance(e.func, ast.Name) and e.func.id == "len" and len(e.args) == 1 \
                and not e.keywords and self.is_items(e.args[0]):
            return "(zlen (items self))"
        if isinstance(e, ast.Call) and isinstance(e.func, ast.Name) and e.func.id == "len" and len(e.args) == 1 \
                and not e.keywords and isinstance(e.args[0], ast.Name) and e.args[0].id == "self":
            return "(lenZ self)"                       # __len__ = len(item_index_map); lenZ is defined in Gen/C11_Src.v
        _fail(e, "integer expression")

    def cond(self, e):
        if isinstance(e, ast.BoolOp) and isinstance(e.op, ast.Or):
            return "(" + " || ".join(self.cond(v) for v in e.values) + ")"
        if isinstance(e, ast.Compare) and len(e.ops) == 1 and isinstance(e.left, ast.Name) and e.left.id == self.opt:
            op, r = e.ops[0], e.comparators[0]
            if isinstance(op, ast.Is) and isinstance(r, ast.Constant) and r.value is None:
                return "(opt_is_none %s)" % self.opt
            if isinstance(op, ast.Eq):
                return "(opt_eqb %s %s)" % (self.opt, self.int(r))
        if isinstance(e, ast.Compare) and len(e.ops) == 1 and isinstance(e.ops[0], ast.Lt) \
                and isinstance(e.left, ast.Name) and e.left.id in self.ints:
            return "(%s <? %s)%%Z" % (e.left.id, self.int(e.comparators[0]))
        if isinstance(e, ast.Compare) and len(e.ops) == 1 and isinstance(e.ops[0], ast.NotIn) \
                and isinstance(e.left, ast.Name) and e.left.id == self.key and self.is_map(e.comparators[0]):
            return "(negb (d_mem (imap self) %s))" % self.key
        if isinstance(e, ast.Compare) and len(e.ops) == 1 and isinstance(e.ops[0], ast.Eq) \
                and isinstance(e.left, ast.Name) and e.left.id in self.klists and self.is_items(e.comparators[0]):
            return "(py_klist_eq_slots %s (items self))" % e.left.id
        _fail(e, "condition")

    def fresh(self, base):
        self.n += 1
        return "_%s%d" % (base, self.n)

    def block(self, stmts, ind):
        if not stmts:
            return ind + "(self, Ok RNone)\n"
        s, rest = stmts[0], stmts[1:]
        sp = ind
        k = lambda: self.block(rest, ind)                      # noqa: E731  (continuation)
        if isinstance(s, ast.Expr) and isinstance(s.value, ast.Constant) and isinstance(s.value.value, str):
            return k()
        if isinstance(s, ast.Return) and s.value is None:
            return sp + "(self, Ok RNone)\n"          # whatever follows in the enclosing block is skipped
        if isinstance(s, ast.Return):
            if rest:
                _fail(s, "statements after return")
            if isinstance(s.value, ast.Name) and s.value.id in self.slots:
                return sp + "(self, py_return_slot %s)\n" % s.value.id
            _fail(s, "return value")
        if isinstance(s, ast.If):
            saved = (dict(self.alias), set(self.ints), set(self.slots))
            a = self.block(s.body + rest, ind + "  ")
            self.alias, self.ints, self.slots = dict(saved[0]), set(saved[1]), set(saved[2])
            b = self.block(s.orelse + rest, ind + "  ")
            self.alias, self.ints, self.slots = saved
            return sp + "if %s then (\n%s%s) else (\n%s%s)\n" % (self.cond(s.test), a, sp, b, sp)
        if isinstance(s, ast.Try) and s.body and isinstance(s.body[0], ast.Assign) and isinstance(s.body[0].value, ast.Call):
            # try: n = self.item_index_map.pop(P)  except KeyError: raise KeyError(P)
            ok = (len(s.body) == 1 and len(s.handlers) == 1 and not s.orelse and not s.finalbody
                  and isinstance(s.body[0], ast.Assign) and len(s.body[0].targets) == 1
                  and isinstance(s.body[0].targets[0], ast.Name))
            if ok:
                v = s.body[0].value
                h = s.handlers[0]
                ok = (isinstance(v, ast.Call) and isinstance(v.func, ast.Attribute) and v.func.attr == "pop"
                      and self.is_map(v.func.value) and len(v.args) == 1 and not v.keywords
                      and isinstance(v.args[0], ast.Name) and v.args[0].id == self.key
                      and isinstance(h.type, ast.Name) and h.type.id == "KeyError" and h.name is None
                      and len(h.body) == 1 and isinstance(h.body[0], ast.Raise) and h.body[0].cause is None
                      and isinstance(h.body[0].exc, ast.Call) and isinstance(h.body[0].exc.func, ast.Name)
                      and h.body[0].exc.func.id == "KeyError" and len(h.body[0].exc.args) == 1
                      and isinstance(h.body[0].exc.args[0], ast.Name) and h.body[0].exc.args[0].id == self.key)
            if not ok:
                _fail(s, "try statement")
            n = s.body[0].targets[0].id
            self.ints.add(n)
            m = self.fresh("m")
            return (sp + "match py_dict_pop (imap self) %s with\n" % self.key
                    + sp + "| None => (self, Raise KeyError)\n"
                    + sp + "| Some (%s, %s) =>\n" % (n, m)
                    + sp + "  let self := set_imap self %s in\n" % m
                    + self.block(rest, ind + "  ")
                    + sp + "end\n")
        if isinstance(s, ast.AugAssign) and isinstance(s.target, ast.Name) and s.target.id in self.ints \
                and isinstance(s.op, (ast.Add, ast.Sub)):
            op = "+" if isinstance(s.op, ast.Add) else "-"
            return sp + "let %s := (%s %s %s)%%Z in\n" % (s.target.id, s.target.id, op, self.int(s.value)) + k()
        # try: v = self.item_list[n]  except IndexError: raise IndexError(...)
        if isinstance(s, ast.Try) and len(s.body) == 1 and isinstance(s.body[0], ast.Assign) \
                and isinstance(s.body[0].value, ast.Subscript) and self.is_items(s.body[0].value.value):
            hs = s.handlers
            if not (len(hs) == 1 and not s.orelse and not s.finalbody and isinstance(hs[0].type, ast.Name)
                    and hs[0].type.id == "IndexError" and len(hs[0].body) == 1 and isinstance(hs[0].body[0], ast.Raise)
                    and isinstance(hs[0].body[0].exc, ast.Call) and isinstance(hs[0].body[0].exc.func, ast.Name)
                    and hs[0].body[0].exc.func.id == "IndexError"):
                _fail(s, "try statement")
            return self.block([s.body[0]] + rest, ind)       # the plain read already maps IndexError to IndexError
        # try: return self._get_apparent_index(self.item_index_map[P])  except KeyError: ...; raise ValueError(...)
        if isinstance(s, ast.Try) and len(s.body) == 1 and isinstance(s.body[0], ast.Return):
            v, hs = s.body[0].value, s.handlers
            ok = (isinstance(v, ast.Call) and _is_self_attr(v.func, "_get_apparent_index") and len(v.args) == 1
                  and not v.keywords and isinstance(v.args[0], ast.Subscript) and self.is_map(v.args[0].value)
                  and isinstance(v.args[0].slice, ast.Name) and v.args[0].slice.id == self.key
                  and len(hs) == 1 and not s.orelse and not s.finalbody and isinstance(hs[0].type, ast.Name)
                  and hs[0].type.id == "KeyError" and hs[0].body and isinstance(hs[0].body[-1], ast.Raise)
                  and isinstance(hs[0].body[-1].exc, ast.Call) and isinstance(hs[0].body[-1].exc.func, ast.Name)
                  and hs[0].body[-1].exc.func.id == "ValueError"
                  and all(isinstance(x, ast.Assign) and len(x.targets) == 1 and isinstance(x.targets[0], ast.Name)
                          and not any(isinstance(n, ast.Call) for n in ast.walk(x.value)) for x in hs[0].body[:-1]))
            if not ok or rest:
                _fail(s, "try statement")
            return (sp + "match d_get (imap self) %s with\n" % self.key
                    + sp + "| None => (self, Raise ValueError)\n"
                    + sp + "| Some _v => (self, Ok (RNat (Z.to_nat (src_get_apparent_index self (Z.of_nat _v)))))\n"
                    + sp + "end\n")
        # try: self.remove(P)  except KeyError: pass
        if isinstance(s, ast.Try) and len(s.body) == 1 and isinstance(s.body[0], ast.Expr) \
                and isinstance(s.body[0].value, ast.Call) and _is_self_attr(s.body[0].value.func, "remove"):
            c, hs = s.body[0].value, s.handlers
            if not (len(c.args) == 1 and not c.keywords and isinstance(c.args[0], ast.Name) and c.args[0].id == self.key
                    and len(hs) == 1 and not s.orelse and not s.finalbody and isinstance(hs[0].type, ast.Name)
                    and hs[0].type.id == "KeyError" and len(hs[0].body) == 1 and isinstance(hs[0].body[0], ast.Pass)):
                _fail(s, "try statement")
            r = self.fresh("r")
            return (sp + "let '(self, %s) := src_remove self %s in\n" % (r, self.key)
                    + sp + "match %s with\n" % r
                    + sp + "| Raise KeyError => (\n" + self.block(rest, ind + "  ") + sp + ")\n"
                    + sp + "| Raise _e => (self, Raise _e)\n"
                    + sp + "| Ok _ => (\n" + self.block(rest, ind + "  ") + sp + ")\n"
                    + sp + "end\n")
        # for i, item in enumerate(self.item_list): self.item_index_map[item] = i
        if isinstance(s, ast.For):
            ok = (isinstance(s.target, ast.Tuple) and len(s.target.elts) == 2 and all(isinstance(x, ast.Name) for x in s.target.elts)
                  and isinstance(s.iter, ast.Call) and isinstance(s.iter.func, ast.Name) and s.iter.func.id == "enumerate"
                  and len(s.iter.args) == 1 and not s.iter.keywords and self.is_items(s.iter.args[0])
                  and not s.orelse and len(s.body) == 1 and isinstance(s.body[0], ast.Assign)
                  and len(s.body[0].targets) == 1 and isinstance(s.body[0].targets[0], ast.Subscript)
                  and self.is_map(s.body[0].targets[0].value))
            if ok:
                i, item = s.target.elts[0].id, s.target.elts[1].id
                tgt, val = s.body[0].targets[0], s.body[0].value
                ok = isinstance(tgt.slice, ast.Name) and tgt.slice.id == item and isinstance(val, ast.Name) and val.id == i
            if not ok:
                _fail(s, "for loop")
            return sp + "let self := set_imap self (py_remap_slots (imap self) (items self)) in\n" + k()
        if isinstance(s, ast.Assign) and len(s.targets) == 1:
            t, v = s.targets[0], s.value
            # X = list(reversed(self))
            if isinstance(t, ast.Name) and isinstance(v, ast.Call) and isinstance(v.func, ast.Name) and v.func.id == "list" \
                    and len(v.args) == 1 and not v.keywords and isinstance(v.args[0], ast.Call) \
                    and isinstance(v.args[0].func, ast.Name) and v.args[0].func.id == "reversed" \
                    and len(v.args[0].args) == 1 and isinstance(v.args[0].args[0], ast.Name) and v.args[0].args[0].id == "self":
                self.klists.add(t.id)
                return sp + "let %s := rev (m_live self) in\n" % t.id + k()
            # X = sorted(self, **kwargs)
            if isinstance(t, ast.Name) and isinstance(v, ast.Call) and isinstance(v.func, ast.Name) and v.func.id == "sorted" \
                    and len(v.args) == 1 and isinstance(v.args[0], ast.Name) and v.args[0].id == "self" \
                    and len(v.keywords) == 1 and v.keywords[0].arg is None and isinstance(v.keywords[0].value, ast.Name) \
                    and v.keywords[0].value.id == self.kwargs:
                self.klists.add(t.id)
                return sp + "let %s := sorted_fn (m_live self) in\n" % t.id + k()
            # self.item_list[:] = X
            if isinstance(t, ast.Subscript) and self.is_items(t.value) and isinstance(t.slice, ast.Slice) \
                    and t.slice.lower is None and t.slice.upper is None and t.slice.step is None \
                    and isinstance(v, ast.Name) and v.id in self.klists:
                return sp + "let self := set_items self (map Some %s) in\n" % v.id + k()
            # self.item_index_map[P] = <int>
            if isinstance(t, ast.Subscript) and self.is_map(t.value) and isinstance(t.slice, ast.Name) and t.slice.id == self.key:
                return sp + "let self := set_imap self (d_set (imap self) %s (Z.to_nat %s)) in\n" % (self.key, self.int(v)) + k()
            # alias
            if isinstance(t, ast.Name) and (_is_self_attr(v, "item_index_map") or _is_self_attr(v, "item_list")):
                self.alias[t.id] = v.attr
                return k()
            # v = self.item_list.pop()
            if isinstance(t, ast.Name) and isinstance(v, ast.Call) and isinstance(v.func, ast.Attribute) \
                    and v.func.attr == "pop" and self.is_items(v.func.value) and not v.args and not v.keywords:
                self.slots.add(t.id)
                l = self.fresh("l")
                return (sp + "match py_pop_last (items self) with\n"
                        + sp + "| None => (self, Raise IndexError)\n"
                        + sp + "| Some (%s, %s) =>\n" % (t.id, l)
                        + sp + "  let self := set_items self %s in\n" % l
                        + self.block(rest, ind + "  ")
                        + sp + "end\n")
            # n = self._get_real_index(P)
            if isinstance(t, ast.Name) and isinstance(v, ast.Call) and _is_self_attr(v.func, "_get_real_index") \
                    and len(v.args) == 1 and not v.keywords and isinstance(v.args[0], ast.Name) and v.args[0].id == self.opt:
                self.ints.add(t.id)
                return sp + "let %s := src_get_real_index self (opt_get %s) in\n" % (t.id, self.opt) + k()
            if isinstance(t, ast.Name) and isinstance(v, ast.Call) and _is_self_attr(v.func, "_get_real_index") \
                    and len(v.args) == 1 and not v.keywords and isinstance(v.args[0], ast.Name) and v.args[0].id in self.ints:
                self.ints.add(t.id)
                return sp + "let %s := src_get_real_index self %s in\n" % (t.id, v.args[0].id) + k()
            # v = self.item_list[n]
            if isinstance(t, ast.Name) and isinstance(v, ast.Subscript) and self.is_items(v.value):
                self.slots.add(t.id)
                return (sp + "match py_get (items self) %s with\n" % self.int(v.slice)
                        + sp + "| None => (self, Raise IndexError)\n"
                        + sp + "| Some %s =>\n" % t.id
                        + self.block(rest, ind + "  ")
                        + sp + "end\n")
            # self.item_list[n] = _MISSING
            if isinstance(t, ast.Subscript) and self.is_items(t.value) and isinstance(v, ast.Name) and v.id == "_MISSING":
                return sp + "let self := set_items self (py_list_set (items self) %s None) in\n" % self.int(t.slice) + k()
            # n = <int>
            if isinstance(t, ast.Name) and t.id not in self.alias:
                text = sp + "let %s := %s in\n" % (t.id, self.int(v))
                self.ints.add(t.id)
                return text + k()
            _fail(s, "assignment")
        if isinstance(s, ast.Delete) and len(s.targets) == 1 and isinstance(s.targets[0], ast.Subscript) \
                and self.is_map(s.targets[0].value) and isinstance(s.targets[0].slice, ast.Name) \
                and s.targets[0].slice.id in self.slots:
            m = self.fresh("m")
            return (sp + "match py_dict_del_slot (imap self) %s with\n" % s.targets[0].slice.id
                    + sp + "| None => (self, Raise KeyError)\n"
                    + sp + "| Some %s =>\n" % m
                    + sp + "  let self := set_imap self %s in\n" % m
                    + self.block(rest, ind + "  ")
                    + sp + "end\n")
        if isinstance(s, ast.Delete) and len(s.targets) == 1 and isinstance(s.targets[0], ast.Subscript) \
                and isinstance(s.targets[0].slice, ast.Slice) and s.targets[0].slice.lower is None \
                and s.targets[0].slice.upper is None and s.targets[0].slice.step is None:
            tv = s.targets[0].value
            if _is_self_attr(tv, "dead_indices"):
                return sp + "let self := set_dead self [] in\n" + k()
            if self.is_items(tv):
                return sp + "let self := set_items self [] in\n" + k()
            _fail(s, "del x[:]")
        if isinstance(s, ast.Expr) and isinstance(s.value, ast.Call) and not s.value.keywords:
            c = s.value
            if isinstance(c.func, ast.Attribute) and c.func.attr == "clear" and self.is_map(c.func.value) and not c.args:
                return sp + "let self := set_imap self [] in\n" + k()
            if isinstance(c.func, ast.Attribute) and c.func.attr == "append" and self.is_items(c.func.value) \
                    and len(c.args) == 1 and isinstance(c.args[0], ast.Name) and c.args[0].id == self.key:
                return sp + "let self := set_items self (items self ++ [Some %s]) in\n" % self.key + k()
            if _is_self_attr(c.func, "_cull") and not c.args:
                return sp + "let self := src_cull self in\n" + k()
            if _is_self_attr(c.func, "_add_dead") and len(c.args) == 1:
                return sp + "let self := src_add_dead self %s in\n" % self.int(c.args[0]) + k()
        _fail(s, "statement")


class Pure:
    """read-only methods that return a bool or a small int:  [alias assignments]  (if c: return v |
    for k in it: if c(k): return v)*  return v      ->  nested if / existsb"""

    def __init__(self, params):
        self.alias = {}
        self.params = params            # name -> "operand" | "item"
        self.loopvar = None

    def is_map(self, e):
        return _is_self_attr(e, "item_index_map") or (isinstance(e, ast.Name) and self.alias.get(e.id) == "item_index_map")

    def nat(self, e):
        if isinstance(e, ast.Constant) and type(e.value) is int and e.value >= 0:
            return "%d" % e.value
        if isinstance(e, ast.Call) and isinstance(e.func, ast.Name) and e.func.id == "len" and len(e.args) == 1 and not e.keywords:
            a = e.args[0]
            if isinstance(a, ast.Name) and a.id == "self":
                return "(m_len self)"
            if self.is_map(a):
                return "(length (imap self))"
            if isinstance(a, ast.Name) and self.params.get(a.id) == "operand":
                return "(length (o_elems %s))" % a.id
        _fail(e, "natural-number expression")

    def item(self, e):
        if isinstance(e, ast.Name) and (e.id == self.loopvar or self.params.get(e.id) == "item"):
            return e.id
        _fail(e, "item expression")

    def cond(self, e):
        if isinstance(e, ast.Compare) and len(e.ops) == 1:
            op, l, r = e.ops[0], e.left, e.comparators[0]
            if isinstance(op, (ast.In, ast.NotIn)):
                if self.is_map(r):
                    t = "(d_mem (imap self) %s)" % self.item(l)
                elif isinstance(r, ast.Name) and self.params.get(r.id) == "operand":
                    t = "(opd_mem %s %s)" % (self.item(l), r.id)
                else:
                    _fail(e, "membership test")
                return t if isinstance(op, ast.In) else "(negb %s)" % t
            if isinstance(op, ast.Lt):
                return "(%s <? %s)" % (self.nat(l), self.nat(r))
            if isinstance(op, ast.Gt):
                return "(%s <? %s)" % (self.nat(r), self.nat(l))
        _fail(e, "condition")

    def value(self, e):
        if isinstance(e, ast.Constant) and isinstance(e.value, bool):
            return "true" if e.value else "false"
        if isinstance(e, ast.Constant) and type(e.value) is int:
            return self.nat(e)
        if isinstance(e, ast.Compare):
            return self.cond(e)
        return self.nat(e)

    def iterable(self, e):
        if self.is_map(e):
            return "(d_keys (imap self))"
        if isinstance(e, ast.Name) and self.params.get(e.id) == "operand":
            return "(o_elems %s)" % e.id
        _fail(e, "iterable")

    def block(self, stmts, ind):
        if not stmts:
            raise Unsupported("function falls off its end")
        s, rest = stmts[0], stmts[1:]
        if isinstance(s, ast.Expr) and isinstance(s.value, ast.Constant) and isinstance(s.value.value, str):
            return self.block(rest, ind)
        if isinstance(s, ast.Assign) and len(s.targets) == 1 and isinstance(s.targets[0], ast.Name) \
                and _is_self_attr(s.value, "item_index_map"):
            self.alias[s.targets[0].id] = "item_index_map"
            return self.block(rest, ind)
        if isinstance(s, ast.Return) and s.value is not None and not rest:
            return ind + self.value(s.value) + "\n"
        if isinstance(s, ast.If) and not s.orelse and len(s.body) == 1 and isinstance(s.body[0], ast.Return) \
                and s.body[0].value is not None:
            return ind + "if %s then %s else (\n%s%s)\n" % (self.cond(s.test), self.value(s.body[0].value),
                                                            self.block(rest, ind + "  "), ind)
        if isinstance(s, ast.For) and isinstance(s.target, ast.Name) and not s.orelse and len(s.body) == 1 \
                and isinstance(s.body[0], ast.If) and not s.body[0].orelse and len(s.body[0].body) == 1 \
                and isinstance(s.body[0].body[0], ast.Return) and s.body[0].body[0].value is not None:
            it = self.iterable(s.iter)
            self.loopvar = s.target.id
            c = self.cond(s.body[0].test)
            v = self.value(s.body[0].body[0].value)
            self.loopvar = None
            return ind + "if existsb (fun %s => %s) %s then %s else (\n%s%s)\n" % (
                s.target.id, c, it, v, self.block(rest, ind + "  "), ind)
        _fail(s, "statement")


class Alg:
    """the set algebra: methods built from iteration over self / the operands, membership tests,
    from_iterable, add, discard, clear and each other.  `others` is the *args list of operands
    (list operand); an operand is what iterating it yields plus the IndexedSet bit (Lib/C11_Iface.v)."""

    def __init__(self, vararg=None, operands=()):
        self.vararg = vararg
        self.operands = set(operands)      # names bound to one operand
        self.opd_expr = {}                 # operand local -> Gallina text
        self.items_expr = {}               # local bound to an iterable of items -> Gallina text
        self.isets = set()                 # locals holding a (new) IndexedSet
        self.itemvars = set()              # loop variables ranging over items
        self.klists = set()

    # --- operands, item iterables, IndexedSet values -------------------------------------------------
    def star(self, call):
        """the call passes exactly *others"""
        return (len(call.args) == 1 and isinstance(call.args[0], ast.Starred) and isinstance(call.args[0].value, ast.Name)
                and call.args[0].value.id == self.vararg and not call.keywords)

    def operand(self, e):
        if isinstance(e, ast.Name) and e.id in self.operands:
            return self.opd_expr.get(e.id, e.id)
        if isinstance(e, ast.Subscript) and isinstance(e.value, ast.Name) and e.value.id == self.vararg \
                and isinstance(e.slice, ast.Constant) and e.slice.value == 0:
            return "(nth 0 %s (Opd false []))" % self.vararg
        try:
            return "(as_operand %s)" % self.iset(e)
        except Unsupported:
            _fail(e, "operand")

    def iset(self, e):
        if isinstance(e, ast.Name) and e.id in self.isets:
            return e.id
        if isinstance(e, ast.Call) and isinstance(e.func, ast.Attribute):
            recv, name = e.func.value, e.func.attr
            r = "self" if (isinstance(recv, ast.Name) and recv.id == "self") else \
                (recv.id if isinstance(recv, ast.Name) and recv.id in self.isets else None)
            if r is not None:
                if name == "from_iterable" and r == "self" and len(e.args) == 1 and not e.keywords:
                    return "(m_from_list %s)" % self.items(e.args[0])
                if name in ("union", "intersection", "difference"):
                    if self.star(e):
                        return "(src_%s %s %s)" % (name, r, self.vararg)
                    if len(e.args) == 1 and not e.keywords and not isinstance(e.args[0], ast.Starred):
                        return "(src_%s %s [%s])" % (name, r, self.operand(e.args[0]))
        _fail(e, "IndexedSet-valued expression")

    def items(self, e):
        if isinstance(e, ast.Name) and e.id == "self":
            return "(m_live self)"
        if isinstance(e, ast.Name) and e.id in self.items_expr:
            return self.items_expr[e.id]
        if isinstance(e, ast.Name) and e.id in self.operands:
            return "(o_elems %s)" % self.operand(e)
        if isinstance(e, ast.Name) and e.id in self.klists:
            return e.id
        if isinstance(e, ast.Call) and isinstance(e.func, ast.Name) and e.func.id == "chain" and len(e.args) == 2 \
                and not e.keywords and isinstance(e.args[1], ast.Starred) and isinstance(e.args[1].value, ast.Name) \
                and e.args[1].value.id == self.vararg:
            return "(%s ++ all_elems %s)" % (self.items(e.args[0]), self.vararg)
        if isinstance(e, ast.Call) and isinstance(e.func, ast.Attribute) and isinstance(e.func.value, ast.Name) \
                and e.func.value.id == "chain" and e.func.attr == "from_iterable" and len(e.args) == 1 and not e.keywords \
                and isinstance(e.args[0], ast.Name) and e.args[0].id == self.vararg:
            return "(all_elems %s)" % self.vararg
        if isinstance(e, ast.Call) and isinstance(e.func, ast.Attribute) and isinstance(e.func.value, ast.Name) \
                and e.func.value.id == "self" and e.func.attr in ("iter_intersection", "iter_difference") and self.star(e):
            return "(src_%s self %s)" % (e.func.attr, self.vararg)
        if isinstance(e, (ast.GeneratorExp, ast.ListComp)) and len(e.generators) == 1:
            g = e.generators[0]
            if isinstance(g.target, ast.Name) and not g.is_async and isinstance(e.elt, ast.Name) and e.elt.id == g.target.id:
                src = self.items(g.iter)
                self.itemvars.add(g.target.id)
                c = " && ".join(self.cond(x) for x in g.ifs) if g.ifs else "true"
                self.itemvars.discard(g.target.id)
                return "(filter (fun %s => %s) %s)" % (g.target.id, c, src)
        try:
            return "(m_live %s)" % self.iset(e)          # iterating an IndexedSet
        except Unsupported:
            _fail(e, "iterable of items")

    def cond(self, e):
        if isinstance(e, ast.UnaryOp) and isinstance(e.op, ast.Not):
            if isinstance(e.operand, ast.Name) and e.operand.id == self.vararg:
                return "(negb (is_nonempty %s))" % self.vararg
            return "(negb %s)" % self.cond(e.operand)
        if isinstance(e, ast.Compare) and len(e.ops) == 1:
            op, l, r = e.ops[0], e.left, e.comparators[0]
            if isinstance(op, (ast.In, ast.NotIn)) and isinstance(l, ast.Name) and l.id in self.itemvars:
                if isinstance(r, ast.Name) and r.id == "self":
                    t = "(d_mem (imap self) %s)" % l.id            # __contains__
                elif isinstance(r, ast.Name) and r.id in self.operands:
                    t = "(opd_mem %s %s)" % (l.id, self.operand(r))
                else:
                    _fail(e, "membership test")
                return t if isinstance(op, ast.In) else "(negb %s)" % t
            if isinstance(op, ast.In) and isinstance(l, ast.Name) and l.id == "self" and isinstance(r, ast.Name) \
                    and r.id == self.vararg:
                return "(existsb (eq_self self) %s)" % self.vararg          # tuple containment: identity or __eq__
            if isinstance(op, ast.Is) and isinstance(l, ast.Name) and l.id == "self" and isinstance(r, ast.Name) \
                    and r.id in self.operands:
                return "(py_same_object self %s)" % r.id
            if isinstance(op, ast.Eq) and isinstance(l, ast.Call) and isinstance(l.func, ast.Name) and l.func.id == "len" \
                    and len(l.args) == 1 and isinstance(l.args[0], ast.Name) and l.args[0].id == self.vararg \
                    and isinstance(r, ast.Constant) and type(r.value) is int and r.value >= 0:
                return "(length %s =? %d)" % (self.vararg, r.value)
        _fail(e, "condition")

    # --- methods that return a value ----------------------------------------------------------------------
    def value_block(self, stmts, ind, kind):
        if not stmts:
            raise Unsupported("function falls off its end")
        s, rest = stmts[0], stmts[1:]
        if isinstance(s, ast.Expr) and isinstance(s.value, ast.Constant) and isinstance(s.value.value, str):
            return self.value_block(rest, ind, kind)
        if isinstance(s, ast.Return) and s.value is not None and not rest:
            if kind == "iset":
                return ind + self.iset(s.value) + "\n"
            # type(other)(vals): a set of the operand's type, observed in canonical (sorted) order
            v = s.value
            if isinstance(v, ast.Call) and isinstance(v.func, ast.Call) and isinstance(v.func.func, ast.Name) \
                    and v.func.func.id == "type" and len(v.func.args) == 1 and isinstance(v.func.args[0], ast.Name) \
                    and v.func.args[0].id in self.operands and len(v.args) == 1 and isinstance(v.args[0], ast.Name) \
                    and v.args[0].id in self.klists:
                return ind + "(sort_nat %s)\n" % v.args[0].id
            _fail(s, "return value")
        if isinstance(s, ast.If) and not s.orelse and s.body and isinstance(s.body[-1], ast.Return):
            saved = (set(self.operands), dict(self.opd_expr), set(self.isets), set(self.klists))
            a = self.value_block(s.body, ind + "  ", kind)
            self.operands, self.opd_expr, self.isets, self.klists = saved
            return ind + "if %s then (\n%s%s) else (\n%s%s)\n" % (self.cond(s.test), a, ind,
                                                                   self.value_block(rest, ind + "  ", kind), ind)
        if isinstance(s, ast.Assign) and len(s.targets) == 1 and isinstance(s.targets[0], ast.Name):
            n, v = s.targets[0].id, s.value
            if isinstance(v, ast.Subscript):
                self.operands.add(n)
                self.opd_expr[n] = n
                return ind + "let %s := %s in\n" % (n, self.operand(v)) + self.value_block(rest, ind, kind)
            if isinstance(v, ast.ListComp):
                text = ind + "let %s := %s in\n" % (n, self.items(v))
                self.klists.add(n)
                return text + self.value_block(rest, ind, kind)
            text = ind + "let %s := %s in\n" % (n, self.iset(v))
            self.isets.add(n)
            return text + self.value_block(rest, ind, kind)
        _fail(s, "statement")

    # --- generators of the form  for k in self: for other in others: if c: break / else: yield k ---------------
    def generator(self, fn):
        body = [x for x in fn.body if not (isinstance(x, ast.Expr) and isinstance(x.value, ast.Constant))]
        if body and isinstance(body[-1], ast.Return) and body[-1].value is None:
            body = body[:-1]
        ok = (len(body) == 1 and isinstance(body[0], ast.For) and isinstance(body[0].target, ast.Name) and not body[0].orelse
              and isinstance(body[0].iter, ast.Name) and body[0].iter.id == "self" and len(body[0].body) == 1
              and isinstance(body[0].body[0], ast.For))
        if ok:
            outer, inner = body[0], body[0].body[0]
            ok = (isinstance(inner.target, ast.Name) and isinstance(inner.iter, ast.Name) and inner.iter.id == self.vararg
                  and len(inner.body) == 1 and isinstance(inner.body[0], ast.If) and not inner.body[0].orelse
                  and len(inner.body[0].body) == 1 and isinstance(inner.body[0].body[0], ast.Break)
                  and len(inner.orelse) == 1 and isinstance(inner.orelse[0], ast.Expr)
                  and isinstance(inner.orelse[0].value, ast.Yield) and isinstance(inner.orelse[0].value.value, ast.Name)
                  and inner.orelse[0].value.value.id == outer.target.id)
        if not ok:
            _fail(fn, "generator shape")
        self.itemvars.add(outer.target.id)
        self.operands.add(inner.target.id)
        c = self.cond(inner.body[0].test)
        return "  (filter (fun %s => negb (existsb (fun %s => %s) %s)) (m_live self))" % (
            outer.target.id, inner.target.id, c, self.vararg)

    # --- mutators: the result is the new self --------------------------------------------------------------------
    def mut_stmt(self, s):
        """one statement inside a loop body, as an expression of the new self"""
        if isinstance(s, ast.Expr) and isinstance(s.value, ast.Call) and isinstance(s.value.func, ast.Attribute) \
                and isinstance(s.value.func.value, ast.Name) and s.value.func.value.id == "self" \
                and s.value.func.attr in ("add", "discard") and len(s.value.args) == 1 and not s.value.keywords \
                and isinstance(s.value.args[0], ast.Name) and s.value.args[0].id in self.itemvars:
            return "(fst (src_%s self %s))" % (s.value.func.attr, s.value.args[0].id)
        if isinstance(s, ast.If) and len(s.body) == 1 and len(s.orelse) == 1:
            return "(if %s then %s else %s)" % (self.cond(s.test), self.mut_stmt(s.body[0]), self.mut_stmt(s.orelse[0]))
        if isinstance(s, ast.For) and isinstance(s.target, ast.Name) and not s.orelse and len(s.body) == 1:
            return self.loop(s)
        _fail(s, "statement in a loop body")

    def loop(self, s):
        it = s.iter
        if isinstance(it, ast.Name) and it.id == self.vararg:           # for other in others
            self.operands.add(s.target.id)
            body = self.mut_stmt(s.body[0])
            self.operands.discard(s.target.id)
            return "(fold_left (fun self %s => %s) %s self)" % (s.target.id, body, self.vararg)
        src = self.items(it)
        self.itemvars.add(s.target.id)
        body = self.mut_stmt(s.body[0])
        self.itemvars.discard(s.target.id)
        return "(fold_left (fun self %s => %s) %s self)" % (s.target.id, body, src)

    def mut_block(self, stmts, ind):
        if not stmts:
            return ind + "self\n"
        s, rest = stmts[0], stmts[1:]
        if isinstance(s, ast.Expr) and isinstance(s.value, ast.Constant) and isinstance(s.value.value, str):
            return self.mut_block(rest, ind)
        if isinstance(s, ast.Return) and s.value is None:
            return ind + "self\n"
        if isinstance(s, ast.For):
            return ind + "let self := %s in\n" % self.loop(s) + self.mut_block(rest, ind)
        if isinstance(s, ast.If) and not s.orelse and len(s.body) == 1 and isinstance(s.body[0], ast.Expr) \
                and isinstance(s.body[0].value, ast.Call) and _is_self_attr(s.body[0].value.func, "clear") \
                and not s.body[0].value.args:
            return ind + "let self := if %s then fst (src_clear self) else self in\n" % self.cond(s.test) + \
                self.mut_block(rest, ind)
        if isinstance(s, ast.If):
            saved = (set(self.operands), dict(self.opd_expr), dict(self.items_expr))
            a = self.mut_block(s.body + rest, ind + "  ")
            self.operands, self.opd_expr, self.items_expr = set(saved[0]), dict(saved[1]), dict(saved[2])
            b = self.mut_block(s.orelse + rest, ind + "  ")
            self.operands, self.opd_expr, self.items_expr = saved
            return ind + "if %s then (\n%s%s) else (\n%s%s)\n" % (self.cond(s.test), a, ind, b, ind)
        if isinstance(s, ast.Assign) and len(s.targets) == 1 and isinstance(s.targets[0], ast.Name):
            n, v = s.targets[0].id, s.value
            if isinstance(v, ast.Subscript):
                self.items_expr[n] = "(o_elems %s)" % self.operand(v)      # only iterated afterwards
                return self.mut_block(rest, ind)
            self.items_expr[n] = self.items(v)
            return self.mut_block(rest, ind)
        _fail(s, "statement")


def _iter_methods(tree):
    """__iter__, __reversed__ (generator expressions over item_list that skip _MISSING) and iter_slice"""
    text = ""

    def live_genexp(e, alias):
        """(item for item in <item_list | reversed(item_list)> if item is not _MISSING)  ->  Gallina list of items"""
        if not (isinstance(e, ast.GeneratorExp) and len(e.generators) == 1):
            _fail(e, "generator expression")
        g = e.generators[0]
        ok = (isinstance(g.target, ast.Name) and isinstance(e.elt, ast.Name) and e.elt.id == g.target.id and not g.is_async
              and len(g.ifs) == 1 and isinstance(g.ifs[0], ast.Compare) and len(g.ifs[0].ops) == 1
              and isinstance(g.ifs[0].ops[0], ast.IsNot) and isinstance(g.ifs[0].left, ast.Name)
              and g.ifs[0].left.id == g.target.id and isinstance(g.ifs[0].comparators[0], ast.Name)
              and g.ifs[0].comparators[0].id == "_MISSING")
        if not ok:
            _fail(e, "generator expression")

        def is_items(x):
            return _is_self_attr(x, "item_list") or (isinstance(x, ast.Name) and x.id in alias)
        if is_items(g.iter):
            return "(live_of (items self))"
        if isinstance(g.iter, ast.Call) and isinstance(g.iter.func, ast.Name) and g.iter.func.id == "reversed" \
                and len(g.iter.args) == 1 and not g.iter.keywords and is_items(g.iter.args[0]):
            return "(live_of (rev (items self)))"
        _fail(e, "iterated expression")
    for name in ("__iter__", "__reversed__"):
        fn = _method(tree, name)
        if [a.arg for a in fn.args.args] != ["self"]:
            raise Unsupported("unexpected signature of %s" % name)
        body = [x for x in fn.body if not (isinstance(x, ast.Expr) and isinstance(x.value, ast.Constant))]
        alias = set()
        while body and isinstance(body[0], ast.Assign) and len(body[0].targets) == 1 and isinstance(body[0].targets[0], ast.Name) \
                and _is_self_attr(body[0].value, "item_list"):
            alias.add(body[0].targets[0].id)
            body = body[1:]
        if not (len(body) == 1 and isinstance(body[0], ast.Return)):
            raise Unsupported("unexpected body of %s" % name)
        text += "Definition src_%s (self : iset) : list K :=\n  %s.\n\n" % (name.strip("_"), live_genexp(body[0].value, alias))
    # iter_slice
    fn = _method(tree, "iter_slice")
    a = fn.args
    if [x.arg for x in a.args] != ["self", "start", "stop", "step"] or len(a.defaults) != 1 \
            or not (isinstance(a.defaults[0], ast.Constant) and a.defaults[0].value is None):
        raise Unsupported("unexpected signature of iter_slice")
    body = [x for x in fn.body if not (isinstance(x, ast.Expr) and isinstance(x.value, ast.Constant))]
    out = "Definition src_iter_slice (self : iset) (start stop step : option Z) : option (list K) :=\n"
    iterable = None
    opts = ("start", "stop", "step")

    def neg_test(t):
        """P is not None and P < 0  ->  P"""
        if isinstance(t, ast.BoolOp) and isinstance(t.op, ast.And) and len(t.values) == 2:
            x, y = t.values
            if isinstance(x, ast.Compare) and len(x.ops) == 1 and isinstance(x.ops[0], ast.IsNot) and isinstance(x.left, ast.Name) \
                    and x.left.id in opts and isinstance(x.comparators[0], ast.Constant) and x.comparators[0].value is None \
                    and isinstance(y, ast.Compare) and len(y.ops) == 1 and isinstance(y.ops[0], ast.Lt) \
                    and isinstance(y.left, ast.Name) and y.left.id == x.left.id \
                    and isinstance(y.comparators[0], ast.Constant) and y.comparators[0].value == 0:
                return x.left.id
        return None
    for st in body:
        if isinstance(st, ast.Assign) and len(st.targets) == 1 and isinstance(st.targets[0], ast.Name) \
                and isinstance(st.value, ast.Name) and st.value.id == "self" and iterable is None:
            iterable = st.targets[0].id
            out += "  let %s := m_live self in\n" % iterable
            continue
        if isinstance(st, ast.If) and not st.orelse and neg_test(st.test):
            pn = neg_test(st.test)
            want = ast.parse("%s = max(%s + len(self), 0)" % (pn, pn)).body[0]
            if len(st.body) == 1 and ast.dump(st.body[0]) == ast.dump(want):
                out += "  let %s := if opt_lt0 %s then Some (Z.max (opt_get %s + lenZ self) 0)%%Z else %s in\n" % (pn, pn, pn, pn)
                continue
            want2 = ast.parse("%s = -%s\n%s = reversed(self)" % (pn, pn, iterable)).body
            if iterable and len(st.body) == 2 and [ast.dump(x) for x in st.body] == [ast.dump(x) for x in want2]:
                out += "  let '(%s, %s) := if opt_lt0 %s then (Some (- opt_get %s)%%Z, rev (m_live self)) else (%s, %s) in\n" % (
                    pn, iterable, pn, pn, pn, iterable)
                continue
        want = ast.parse("return islice(%s, start, stop, step)" % iterable).body[0] if iterable else None
        if want is not None and ast.dump(st) == ast.dump(want) and st is body[-1]:
            out += "  py_islice %s start stop step.\n\n" % iterable
            break
        _fail(st, "statement of iter_slice")
    else:
        raise Unsupported("iter_slice does not end in return islice(...)")
    return text + out


def _alg_methods(tree):
    text = ""

    def fn_of(name, vararg, params):
        fn = _method_any(tree, name)
        if [a.arg for a in fn.args.args] != params or fn.args.defaults or fn.args.kwarg or fn.args.kwonlyargs \
                or (fn.args.vararg.arg if fn.args.vararg else None) != vararg or fn.decorator_list:
            raise Unsupported("unexpected signature of %s" % name)
        return fn
    sig_v = " (others : list operand)"
    text += "Definition src_union (self : iset)%s : iset :=\n" % sig_v + \
        Alg("others").value_block(fn_of("union", "others", ["self"]).body, "  ", "iset").rstrip("\n") + ".\n\n"
    for g in ("iter_intersection", "iter_difference"):
        text += "Definition src_%s (self : iset)%s : list K :=\n" % (g, sig_v) + \
            Alg("others").generator(fn_of(g, "others", ["self"])) + ".\n\n"
    for m in ("intersection", "difference", "symmetric_difference"):
        text += "Definition src_%s (self : iset)%s : iset :=\n" % (m, sig_v) + \
            Alg("others").value_block(fn_of(m, "others", ["self"]).body, "  ", "iset").rstrip("\n") + ".\n\n"
    text += "Definition src_rsub (self : iset) (other : operand) : list K :=\n" + \
        Alg(None, ["other"]).value_block(fn_of("__rsub__", None, ["self", "other"]).body, "  ", "klist").rstrip("\n") + ".\n\n"
    for m in ("update", "intersection_update", "difference_update"):
        text += "Definition src_%s (self : iset)%s : iset :=\n" % (m, sig_v) + \
            Alg("others").mut_block(fn_of(m, "others", ["self"]).body, "  ").rstrip("\n") + ".\n\n"
    text += "Definition src_symmetric_difference_update (self : iset) (other : operand) : iset :=\n" + \
        Alg(None, ["other"]).mut_block(fn_of("symmetric_difference_update", None, ["self", "other"]).body, "  ").rstrip("\n") + ".\n\n"
    return text


def _method_any(tree, name):
    cls = [n for n in tree.body if isinstance(n, ast.ClassDef) and n.name == "IndexedSet"]
    if len(cls) != 1:
        raise Unsupported("class IndexedSet not found")
    fn = [n for n in cls[0].body if isinstance(n, ast.FunctionDef) and n.name == name]
    if len(fn) != 1:
        raise Unsupported("IndexedSet.%s not found" % name)
    return fn[0]


def _method(tree, name):
    cls = [n for n in tree.body if isinstance(n, ast.ClassDef) and n.name == "IndexedSet"]
    if len(cls) != 1:
        raise Unsupported("class IndexedSet not found")
    fn = [n for n in cls[0].body if isinstance(n, ast.FunctionDef) and n.name == name]
    if len(fn) != 1:
        raise Unsupported("IndexedSet.%s not found" % name)
    if fn[0].decorator_list or fn[0].args.vararg or fn[0].args.kwonlyargs or (fn[0].args.kwarg and name != "sort"):
        raise Unsupported("unexpected signature of %s" % name)
    return fn[0]


LITERAL = {
    # methods whose text is compared literally (modulo formatting) with what the model was written from
    "__init__": """
def __init__(self, other=None):
    self.item_index_map = dict()
    self.item_list = []
    self.dead_indices = []
    self._compactions = 0
    self._c_max_size = 0
    if other:
        self.update(other)
""",
    "from_iterable": """
@classmethod
def from_iterable(cls, it):
    "from_iterable(it) -> create a set from an iterable"
    return cls(it)
""",
    "__eq__": """
def __eq__(self, other):
    if isinstance(other, IndexedSet):
        return len(self) == len(other) and list(self) == list(other)
    try:
        return set(self) == set(other)
    except TypeError:
        return False
""",
    "__ior__": "def __ior__(self, *others):\n    self.update(*others)\n    return self\n",
    "__iand__": "def __iand__(self, *others):\n    self.intersection_update(*others)\n    return self\n",
    "__isub__": "def __isub__(self, *others):\n    self.difference_update(*others)\n    return self\n",
    "__ixor__": "def __ixor__(self, *others):\n    self.symmetric_difference_update(*others)\n    return self\n",
}
OPERATOR_TABLE = {"__or__": "union", "__ror__": "union", "__and__": "intersection", "__rand__": "intersection",
                  "__sub__": "difference", "__xor__": "symmetric_difference", "__rxor__": "symmetric_difference"}


def _strip_doc(fn):
    body = fn.body
    if body and isinstance(body[0], ast.Expr) and isinstance(body[0].value, ast.Constant) and isinstance(body[0].value.value, str):
        body = body[1:]
    return [ast.dump(x) for x in body], ast.dump(fn.args), [ast.dump(d) for d in fn.decorator_list]


def check_literals(tree):
    """fail closed unless the constructor, from_iterable, __eq__, the in-place operators and the operator aliases are
    the text the model and the harness (which rotates method / operator forms) rely on"""
    cls = [n for n in tree.body if isinstance(n, ast.ClassDef) and n.name == "IndexedSet"]
    if len(cls) != 1:
        raise Unsupported("class IndexedSet not found")
    for name, text in LITERAL.items():
        got = [n for n in cls[0].body if isinstance(n, ast.FunctionDef) and n.name == name]
        want = ast.parse(text).body[0]
        if len(got) != 1 or _strip_doc(got[0]) != _strip_doc(want):
            raise Unsupported("IndexedSet.%s is not the expected text" % name)
    table = {}
    for n in cls[0].body:
        if isinstance(n, ast.Assign) and isinstance(n.value, ast.Name):
            for t in n.targets:
                if isinstance(t, ast.Name):
                    if t.id in table:
                        raise Unsupported("%s assigned twice" % t.id)
                    table[t.id] = n.value.id
    if table != OPERATOR_TABLE:
        raise Unsupported("operator aliases changed: %r" % (table,))
    defs = [n.name for n in cls[0].body if isinstance(n, ast.FunctionDef)]
    if len(defs) != len(set(defs)):
        raise Unsupported("a method of IndexedSet is defined twice")


HEADER = """(* GENERATED on every run by harness/translators/c11_ops.py from %s (IndexedSet.remove, pop, add, discard, clear, reverse, sort, index, __getitem__ on an int); do not edit. *)
From Boltons Require Import Lib.Prelude Lib.PySrc Lib.C11_Iface Model.C11_Model Lib.C11_PyImp Gen.C11_Src Gen.C11_Cull.
"""


def generate(repo):
    path = os.path.join(repo, "boltons", "setutils.py")
    tree = ast.parse(open(path).read())
    check_literals(tree)
    rm = _method(tree, "remove")
    if [a.arg for a in rm.args.args] != ["self", "item"] or rm.args.defaults:
        raise Unsupported("unexpected signature of remove")
    pp = _method(tree, "pop")
    if [a.arg for a in pp.args.args] != ["self", "index"] or len(pp.args.defaults) != 1 \
            or not (isinstance(pp.args.defaults[0], ast.Constant) and pp.args.defaults[0].value is None):
        raise Unsupported("unexpected signature of pop")
    text = HEADER % "boltons/setutils.py"
    text += "Definition src_remove (self : iset) (item : K) : iset * res ret :=\n" + \
        Ops(key_param="item").block(rm.body, "  ").rstrip("\n") + ".\n\n"
    text += "Definition src_pop (self : iset) (index : option Z) : iset * res ret :=\n" + \
        Ops(opt_param="index").block(pp.body, "  ").rstrip("\n") + ".\n\n"

    def simple_method(name, params, coq_params, **kw):
        fn = _method(tree, name)
        if [a.arg for a in fn.args.args] != params or fn.args.defaults:
            raise Unsupported("unexpected signature of %s" % name)
        o = Ops(**kw)
        if name == "sort":
            if fn.args.kwarg is None:
                raise Unsupported("sort has no **kwargs")
            o.kwargs = fn.args.kwarg.arg
        return "Definition src_%s (self : iset)%s : iset * res ret :=\n" % (name, coq_params) + \
            o.block(fn.body, "  ").rstrip("\n") + ".\n\n"
    text += simple_method("add", ["self", "item"], " (item : K)", key_param="item")
    text += simple_method("discard", ["self", "item"], " (item : K)", key_param="item")
    text += simple_method("clear", ["self"], "")
    text += simple_method("reverse", ["self"], "")
    # sorted(self, **kwargs) is an input of the generated function: any function from the items to a list of items
    text += simple_method("sort", ["self"], " (sorted_fn : list K -> list K)")
    text += simple_method("index", ["self", "val"], " (val : K)", key_param="val")
    for name, params, sig, kinds, ty in (
            ("isdisjoint", ["self", "other"], " (other : operand)", {"other": "operand"}, "bool"),
            ("issubset", ["self", "other"], " (other : operand)", {"other": "operand"}, "bool"),
            ("issuperset", ["self", "other"], " (other : operand)", {"other": "operand"}, "bool"),
            ("count", ["self", "val"], " (val : K)", {"val": "item"}, "nat"),
            ("__contains__", ["self", "item"], " (item : K)", {"item": "item"}, "bool"),
            ("__len__", ["self"], "", {}, "nat")):
        fn = _method(tree, name)
        if [a.arg for a in fn.args.args] != params or fn.args.defaults:
            raise Unsupported("unexpected signature of %s" % name)
        text += "Definition src_%s (self : iset)%s : %s :=\n" % (name.strip("_"), sig, ty) + \
            Pure(kinds).block(fn.body, "  ").rstrip("\n") + ".\n\n"
    text += _alg_methods(tree)
    text += _iter_methods(tree)
    # __getitem__: the dispatch on the argument's type must be literally the known prelude; the integer path follows
    gi = _method(tree, "__getitem__")
    if [a.arg for a in gi.args.args] != ["self", "index"] or gi.args.defaults:
        raise Unsupported("unexpected signature of __getitem__")
    prelude = ast.parse(GETITEM_PRELUDE).body[0]
    if not gi.body or ast.dump(gi.body[0]) != ast.dump(prelude):
        raise Unsupported("__getitem__ does not start with the expected slice/int dispatch")
    o = Ops()
    o.ints.add("index")
    text += "Definition src_getitem_int (self : iset) (index : Z) : iset * res ret :=\n" + \
        o.block(gi.body[1:], "  ").rstrip("\n") + ".\n"
    return {"C11_Ops": text}


GETITEM_PRELUDE = '''
try:
    start, stop, step = index.start, index.stop, index.step
except AttributeError:
    index = operator.index(index)
else:
    iter_slice = self.iter_slice(start, stop, step)
    return self.from_iterable(iter_slice)
'''
