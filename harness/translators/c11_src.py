"""(T) tie for C11, second part: IndexedSet._get_real_index and _get_apparent_index regenerated as
Gallina from /repo's current source by py2coq (fail closed).  Proofs/C11_SrcEq.v proves the
generated functions equal to the model's real_loop / apparent_loop based definitions."""
import os
import py2coq

COMMON = {"num": "Z",
          "attrs": {"dead_indices": ("deadZ", None, "list")},
          "calls": {"len": ("lenZ", "int")},
          "kinds": {"index": "int", "real_index": "int", "apparent_index": "int", "d_start": "int", "d_stop": "int"},
          "truthy": {"list": "is_nonempty"},
          "flagmode": True}

CFG_REAL = dict(COMMON, name="src_get_real_index", params=[("self", "iset"), ("index", "Z")], ret="Z",
                rv_default="0%Z")
CFG_APP = dict(COMMON, name="src_get_apparent_index", params=[("self", "iset"), ("index", "Z")], ret="Z",
               rv_default="0%Z")

HEADER = """(* GENERATED on every run by harness/translators/c11_src.py from %s
   (IndexedSet._get_real_index, IndexedSet._get_apparent_index); do not edit.
   Integers are Z; self.dead_indices is read as a list of Z pairs, len(self) as the size of the map. *)
From Boltons Require Import Lib.Prelude Lib.PySrc Lib.C11_Iface Model.C11_Model.
Local Open Scope Z_scope.
Definition deadZ (s : iset) : list (Z * Z) := map (fun ab => (Z.of_nat (fst ab), Z.of_nat (snd ab))) (dead s).
Definition lenZ (s : iset) : Z := Z.of_nat (m_len s).
"""


def _annotate(text):
    """py2coq leaves the fold's pattern lambda untyped, which Coq cannot infer for a tuple loop target:
    give fold_left its two type arguments (state = break flag * index, item = interval).  Fail closed
    unless there is exactly one loop."""
    if text.count("fold_left (fun ") != 1:
        raise py2coq.Unsupported("expected exactly one for-loop")
    return text.replace("fold_left (fun ", "@fold_left (bool * Z) (Z * Z) (fun ")


def _int_locals(path, qualname):
    """every local that is assigned, augmented or bound by the for-loop is an integer in these two functions
    (so renaming a local does not break the tie); anything else the translator meets still fails closed"""
    import ast
    fn = py2coq.get_function(path, qualname)
    kinds = {a.arg: "int" for a in fn.args.args if a.arg != "self"}
    for node in ast.walk(fn):
        if isinstance(node, ast.Name) and isinstance(node.ctx, ast.Store):
            kinds[node.id] = "int"
    return kinds


def generate(repo):
    path = os.path.join(repo, "boltons", "setutils.py")
    CFG_REAL["kinds"] = _int_locals(path, "IndexedSet._get_real_index")
    CFG_APP["kinds"] = _int_locals(path, "IndexedSet._get_apparent_index")
    return {"C11_Src": HEADER % "boltons/setutils.py"
            + _annotate(py2coq.translate(path, "IndexedSet._get_real_index", CFG_REAL)) + "\n"
            + _annotate(py2coq.translate(path, "IndexedSet._get_apparent_index", CFG_APP))}
