"""(T) tie for C11, third part: IndexedSet._cull regenerated as Gallina from /repo's current source.

_cull is outside py2coq's subset (local names that alias self's lists and are mutated in place, `del`
statements, `while` loops, `is _MISSING`, true division against a module constant), so this is a
small dedicated compiler for that imperative fragment.  It is compositional (conditions, operators,
operand order, constants, branch order, loop bodies are translated from the ast, not matched against
a template) and fails closed: anything outside the forms below raises Unsupported.

  aliases   : `x = self.A`, `x, y = self.A, self.B` for the list/dict attributes of ATTRS; afterwards
              every read of x is a read of self.A and every in-place mutation of x updates self.A
  ints (Z)  : constants, int locals, len(alias), self._dead_index_count, + - *, unary -,
              alias[-1][0] (start of the last interval)
  conditions: alias / not alias (emptiness), and / or / not, one comparison of two ints,
              `e > a / C` `e >= a / C` with C a positive int module constant (cross-multiplied),
              `alias[e] is _MISSING`
  statements: int assignment, `+=`, if/elif/else (last statement of its block), `if c: return` followed
              by the rest, `while c: body`, `del x[:]`, `del x[-e:]`, `del x[-1]`, `self._compact()`
A `while` becomes `while_fuel fuel cond body state` (Lib/C11_PyImp.v) over the tuple (self, int locals
the body assigns) with fuel = len(items) + len(dead) + 1; Proofs/C11_CullEq.v proves the generated
function equal to the model's m_cull, which shows in particular that the fuel suffices.
"""
import ast
import os


class Unsupported(Exception):
    pass


ATTRS = {"dead_indices": ("dead", "set_dead", "list"), "item_list": ("items", "set_items", "list"),
         "item_index_map": ("imap", "set_imap", "dict")}
IGNORED_ATTRS = ("_compactions", "_c_max_size")      # statistics counters: no part of the modelled state


def _fail(node, why):
    raise Unsupported("%s at line %s: %s" % (why, getattr(node, "lineno", "?"), ast.dump(node)[:200]))


class Cull:
    def __init__(self, module_consts):
        self.alias = {}          # local name -> attribute name
        self.ints = set()
        self.consts = module_consts
        self.none_params = set() # optional parameters known to be None at entry (the callers never pass them)
        self.pairs = set()       # locals bound to a two-element list literal [a, b]  (an interval)
        self.elems = {}          # local name -> (attribute name, index text): an alias of one element of a list

    # ---------------------------------------------------------------- expressions
    def attr_of(self, e):
        if isinstance(e, ast.Name) and e.id in self.alias:
            return self.alias[e.id]
        if isinstance(e, ast.Attribute) and isinstance(e.value, ast.Name) and e.value.id == "self" and e.attr in ATTRS:
            return e.attr
        return None

    def read(self, attr):
        return "(%s self)" % ATTRS[attr][0]

    def int(self, e):
        if isinstance(e, ast.Constant) and type(e.value) is int:
            return "(%d)%%Z" % e.value
        if isinstance(e, ast.Name) and e.id in self.ints and e.id not in self.none_params:
            return e.id
        if isinstance(e, ast.Attribute) and isinstance(e.value, ast.Name) and e.value.id == "self" \
                and e.attr == "_dead_index_count":
            return "(dead_countZ self)"
        if isinstance(e, ast.Call) and isinstance(e.func, ast.Name) and e.func.id == "len" and len(e.args) == 1 \
                and not e.keywords and self.attr_of(e.args[0]):
            return "(zlen %s)" % self.read(self.attr_of(e.args[0]))
        if isinstance(e, ast.BinOp) and isinstance(e.op, (ast.Add, ast.Sub, ast.Mult)):
            op = {ast.Add: "+", ast.Sub: "-", ast.Mult: "*"}[type(e.op)]
            return "(%s %s %s)%%Z" % (self.int(e.left), op, self.int(e.right))
        if isinstance(e, ast.UnaryOp) and isinstance(e.op, ast.USub):
            return "(- %s)%%Z" % self.int(e.operand)
        # alias[-1][0]
        if isinstance(e, ast.Subscript) and isinstance(e.slice, ast.Constant) and e.slice.value == 0 \
                and isinstance(e.value, ast.Subscript) and self.attr_of(e.value.value) == "dead_indices" \
                and isinstance(e.value.slice, ast.UnaryOp) and isinstance(e.value.slice.op, ast.USub) \
                and isinstance(e.value.slice.operand, ast.Constant) and e.value.slice.operand.value == 1:
            return "(py_last_start %s)" % self.read("dead_indices")
        _fail(e, "integer expression")

    def cond(self, e):
        if isinstance(e, ast.BoolOp):
            op = " && " if isinstance(e.op, ast.And) else " || "
            return "(" + op.join(self.cond(v) for v in e.values) + ")"
        if isinstance(e, ast.UnaryOp) and isinstance(e.op, ast.Not):
            return "(negb %s)" % self.cond(e.operand)
        if self.attr_of(e):
            return "(is_nonempty %s)" % self.read(self.attr_of(e))
        if isinstance(e, ast.Compare) and len(e.ops) > 1:
            # a OP b OP c  ==  (a OP b) and (b OP c); the operands are side-effect free ints
            parts, left = [], e.left
            for op, right in zip(e.ops, e.comparators):
                parts.append(self.cond(ast.Compare(left=left, ops=[op], comparators=[right])))
                left = right
            return "(" + " && ".join(parts) + ")"
        if isinstance(e, ast.Compare) and len(e.ops) == 1:
            op, l, r = e.ops[0], e.left, e.comparators[0]
            if isinstance(op, ast.Is):
                if isinstance(r, ast.Name) and r.id == "_MISSING" and isinstance(l, ast.Subscript) \
                        and self.attr_of(l.value) == "item_list":
                    return "(py_is_missing %s %s)" % (self.read("item_list"), self.int(l.slice))
                _fail(e, "'is' comparison")
            if isinstance(r, ast.BinOp) and isinstance(r.op, ast.Div):
                # e OP a / C  with C > 0  <=>  e * C OP a   (true division, no rounding involved)
                if not (isinstance(r.right, ast.Name) and r.right.id in self.consts):
                    _fail(e, "division by something that is not a module constant")
                c = self.consts[r.right.id]
                if type(c) is not int or c < 1:
                    _fail(e, "divisor constant is not a positive int")
                a, b = "(%s * (%d)%%Z)%%Z" % (self.int(l), c), self.int(r.left)
            else:
                a, b = self.int(l), self.int(r)
            m = {ast.Gt: "(%s <? %s)%%Z" % (b, a), ast.GtE: "(%s <=? %s)%%Z" % (b, a),
                 ast.Lt: "(%s <? %s)%%Z" % (a, b), ast.LtE: "(%s <=? %s)%%Z" % (a, b),
                 ast.Eq: "(%s =? %s)%%Z" % (a, b)}
            if type(op) not in m:
                _fail(e, "comparison operator")
            return m[type(op)]
        _fail(e, "condition")

    # ---------------------------------------------------------------- statements
    def assigned_ints(self, stmts):
        out = []
        for s in stmts:
            for n in ast.walk(s):
                if isinstance(n, (ast.Assign, ast.AugAssign)):
                    ts = n.targets if isinstance(n, ast.Assign) else [n.target]
                    for t in ts:
                        if isinstance(t, ast.Name) and t.id in self.ints and t.id not in out:
                            out.append(t.id)
        return out

    def simple(self, s, ind):
        """one non-control statement -> text of `let ... in` lines"""
        sp = ind
        if isinstance(s, ast.Assign) and len(s.targets) == 1:
            t, v = s.targets[0], s.value
            if isinstance(t, ast.Name) and self.attr_of(v) and not isinstance(v, ast.Name):
                self.alias[t.id] = v.attr
                return ""
            if isinstance(t, ast.Tuple) and isinstance(v, ast.Tuple) and len(t.elts) == len(v.elts) \
                    and all(isinstance(x, ast.Name) for x in t.elts) \
                    and all(self.attr_of(x) and not isinstance(x, ast.Name) for x in v.elts):
                for x, y in zip(t.elts, v.elts):
                    self.alias[x.id] = y.attr
                return ""
            if isinstance(t, ast.Name) and t.id not in self.alias and not isinstance(v, ast.List) \
                    and not (isinstance(v, ast.Call) and isinstance(v.func, ast.Name) and v.func.id == "bisect_left") \
                    and not (isinstance(v, ast.Subscript) and self.attr_of(v.value)):
                text = sp + "let %s := %s in\n" % (t.id, self.int(v))
                self.ints.add(t.id)
                return text
        if isinstance(s, ast.AugAssign) and isinstance(s.target, ast.Name) and s.target.id in self.ints \
                and isinstance(s.op, (ast.Add, ast.Sub)):
            op = "+" if isinstance(s.op, ast.Add) else "-"
            return sp + "let %s := (%s %s %s)%%Z in\n" % (s.target.id, s.target.id, op, self.int(s.value))
        if isinstance(s, ast.Delete) and len(s.targets) == 1 and isinstance(s.targets[0], ast.Subscript):
            t = s.targets[0]
            attr = self.attr_of(t.value)
            if attr is None or ATTRS[attr][1] is None:
                _fail(s, "del on something that is not an aliased list")
            getter, setter, _ = ATTRS[attr]
            sl = t.slice
            if isinstance(sl, ast.Slice) and sl.lower is None and sl.upper is None and sl.step is None:
                return sp + "let self := %s self [] in\n" % setter
            if isinstance(sl, ast.Slice) and sl.upper is None and sl.step is None and isinstance(sl.lower, ast.UnaryOp) \
                    and isinstance(sl.lower.op, ast.USub):
                return sp + "let self := %s self (py_del_tail (%s self) %s) in\n" % (setter, getter, self.int(sl.lower.operand))
            if isinstance(sl, ast.UnaryOp) and isinstance(sl.op, ast.USub) and isinstance(sl.operand, ast.Constant) \
                    and sl.operand.value == 1:
                return sp + "let self := %s self (py_del_last (%s self)) in\n" % (setter, getter)
            _fail(s, "del form")
        if isinstance(s, ast.Expr) and isinstance(s.value, ast.Call) and isinstance(s.value.func, ast.Attribute) \
                and isinstance(s.value.func.value, ast.Name) and s.value.func.value.id == "self" \
                and s.value.func.attr == "_compact" and not s.value.args and not s.value.keywords:
            return sp + "let self := src_compact self in\n"
        if isinstance(s, ast.Expr) and isinstance(s.value, ast.Constant) and isinstance(s.value.value, str):
            return ""
        # self._compactions += 1 / self._c_max_size = max(self._c_max_size, len(items)): counters, skipped
        if isinstance(s, (ast.Assign, ast.AugAssign)):
            tg = s.targets[0] if isinstance(s, ast.Assign) and len(s.targets) == 1 else getattr(s, "target", None)
            if isinstance(tg, ast.Attribute) and isinstance(tg.value, ast.Name) and tg.value.id == "self" \
                    and tg.attr in IGNORED_ATTRS:
                for n in ast.walk(s.value):
                    if isinstance(n, ast.Call) and not (isinstance(n.func, ast.Name) and n.func.id in ("max", "len")):
                        _fail(s, "call inside a counter update")
                return ""
        # for i, item in enumerate(self): items[i] = item; index_map[item] = i
        # (the generator over self reads slot j >= i before slot i is written: a snapshot of the live items)
        if isinstance(s, ast.For):
            ok = (isinstance(s.target, ast.Tuple) and len(s.target.elts) == 2 and all(isinstance(x, ast.Name) for x in s.target.elts)
                  and isinstance(s.iter, ast.Call) and isinstance(s.iter.func, ast.Name) and s.iter.func.id == "enumerate"
                  and len(s.iter.args) == 1 and not s.iter.keywords and isinstance(s.iter.args[0], ast.Name)
                  and s.iter.args[0].id == "self" and not s.orelse and len(s.body) == 2
                  and all(isinstance(b, ast.Assign) and len(b.targets) == 1 and isinstance(b.targets[0], ast.Subscript)
                          for b in s.body))
            if ok:
                i, item = s.target.elts[0].id, s.target.elts[1].id
                b1, b2 = s.body
                ok = (self.attr_of(b1.targets[0].value) == "item_list" and isinstance(b1.targets[0].slice, ast.Name)
                      and b1.targets[0].slice.id == i and isinstance(b1.value, ast.Name) and b1.value.id == item
                      and self.attr_of(b2.targets[0].value) == "item_index_map" and isinstance(b2.targets[0].slice, ast.Name)
                      and b2.targets[0].slice.id == item and isinstance(b2.value, ast.Name) and b2.value.id == i)
            if not ok:
                _fail(s, "for loop")
            return (sp + "let _live := m_live self in\n"
                    + sp + "let self := set_items self (overwrite (items self) _live) in\n"
                    + sp + "let self := set_imap self (remap (imap self) _live) in\n")
        # x = [a, b]   (an interval)
        if isinstance(s, ast.Assign) and len(s.targets) == 1 and isinstance(s.targets[0], ast.Name) \
                and isinstance(s.value, ast.List) and len(s.value.elts) == 2:
            n = s.targets[0].id
            text = sp + "let %s := (%s, %s) in\n" % (n, self.int(s.value.elts[0]), self.int(s.value.elts[1]))
            self.pairs.add(n)
            return text
        # alias.append(pair) / alias.insert(i, pair)
        if isinstance(s, ast.Expr) and isinstance(s.value, ast.Call) and isinstance(s.value.func, ast.Attribute) \
                and self.attr_of(s.value.func.value) == "dead_indices" and not s.value.keywords:
            c = s.value
            if c.func.attr == "append" and len(c.args) == 1 and isinstance(c.args[0], ast.Name) and c.args[0].id in self.pairs:
                return sp + "let self := set_dead self (py_append_iv (dead self) %s) in\n" % c.args[0].id
            if c.func.attr == "insert" and len(c.args) == 2 and isinstance(c.args[1], ast.Name) and c.args[1].id in self.pairs:
                return sp + "let self := set_dead self (py_insert_iv (dead self) %s %s) in\n" % (self.int(c.args[0]), c.args[1].id)
            _fail(s, "method call on the interval list")
        # n = bisect_left(alias, pair)
        if isinstance(s, ast.Assign) and len(s.targets) == 1 and isinstance(s.targets[0], ast.Name) \
                and isinstance(s.value, ast.Call) and isinstance(s.value.func, ast.Name) and s.value.func.id == "bisect_left" \
                and len(s.value.args) == 2 and not s.value.keywords and self.attr_of(s.value.args[0]) == "dead_indices" \
                and isinstance(s.value.args[1], ast.Name) and s.value.args[1].id in self.pairs:
            n = s.targets[0].id
            self.ints.add(n)
            return sp + "let %s := py_bisect_left (dead self) %s in\n" % (n, s.value.args[1].id)
        # x = alias[e]   (x aliases one interval of the list)
        if isinstance(s, ast.Assign) and len(s.targets) == 1 and isinstance(s.targets[0], ast.Name) \
                and isinstance(s.value, ast.Subscript) and self.attr_of(s.value.value) == "dead_indices":
            n = s.targets[0].id
            idx = "_idx_" + n
            self.elems[n] = ("dead_indices", idx)
            return sp + "let %s := %s in\n" % (idx, self.int(s.value.slice))
        # a, b = x   (x an interval alias)
        if isinstance(s, ast.Assign) and len(s.targets) == 1 and isinstance(s.targets[0], ast.Tuple) \
                and len(s.targets[0].elts) == 2 and all(isinstance(x, ast.Name) for x in s.targets[0].elts) \
                and isinstance(s.value, ast.Name) and s.value.id in self.elems:
            a, b = [x.id for x in s.targets[0].elts]
            idx = self.elems[s.value.id][1]
            self.ints.update([a, b])
            return sp + "let %s := py_iv_start (dead self) %s in\n" % (a, idx) + \
                sp + "let %s := py_iv_stop (dead self) %s in\n" % (b, idx)
        # x[0] = e / x[1] = e   (x an interval alias: updates the list in place)
        if isinstance(s, ast.Assign) and len(s.targets) == 1 and isinstance(s.targets[0], ast.Subscript) \
                and isinstance(s.targets[0].value, ast.Name) and s.targets[0].value.id in self.elems \
                and isinstance(s.targets[0].slice, ast.Constant) and s.targets[0].slice.value in (0, 1):
            idx = self.elems[s.targets[0].value.id][1]
            fn = "py_set_iv_start" if s.targets[0].slice.value == 0 else "py_set_iv_stop"
            return sp + "let self := set_dead self (%s (dead self) %s %s) in\n" % (fn, idx, self.int(s.value))
        _fail(s, "statement")

    def block(self, stmts, ind):
        """statement list -> Gallina expression (text) of the resulting self"""
        if not stmts:
            return ind + "self\n"
        s, rest = stmts[0], stmts[1:]
        if isinstance(s, ast.If) and isinstance(s.test, ast.Compare) and len(s.test.ops) == 1 \
                and isinstance(s.test.ops[0], ast.Is) and isinstance(s.test.left, ast.Name) \
                and s.test.left.id in self.none_params and isinstance(s.test.comparators[0], ast.Constant) \
                and s.test.comparators[0].value is None and not s.orelse:
            # the parameter is None at entry: the body runs; it must give the parameter its value
            name = s.test.left.id
            self.none_params.discard(name)
            if not (len(s.body) == 1 and isinstance(s.body[0], ast.Assign) and len(s.body[0].targets) == 1
                    and isinstance(s.body[0].targets[0], ast.Name) and s.body[0].targets[0].id == name):
                _fail(s, "default-filling statement")
            return self.simple(s.body[0], ind) + self.block(rest, ind)
        if isinstance(s, ast.If):
            c = self.cond(s.test)
            if s.body and isinstance(s.body[-1], ast.Return) and s.body[-1].value is None and not s.orelse:
                saved = (dict(self.alias), set(self.ints), set(self.pairs), dict(self.elems))
                a = self.block(s.body[:-1], ind + "  ")
                self.alias, self.ints, self.pairs, self.elems = saved
                return ind + "if %s then (\n%s%s) else (\n%s%s)\n" % (c, a, ind, self.block(rest, ind + "  "), ind)
            if rest and not (len(rest) == 1 and isinstance(rest[0], ast.Return) and rest[0].value is None):
                _fail(s, "if-statement that is not the last statement of its block")
            saved = (dict(self.alias), set(self.ints))
            a = self.block(s.body, ind + "  ")
            self.alias, self.ints = dict(saved[0]), set(saved[1])
            b = self.block(s.orelse, ind + "  ")
            self.alias, self.ints = saved
            return ind + "if %s then (\n%s%s) else (\n%s%s)\n" % (c, a, ind, b, ind)
        if isinstance(s, ast.While):
            if s.orelse:
                _fail(s, "while-else")
            names = self.assigned_ints(s.body)
            st = "self" if not names else "(" + ", ".join(["self"] + names) + ")"
            pat = "self" if not names else "'(" + ", ".join(["self"] + names) + ")"
            body = "".join(self.simple(x, ind + "      ") for x in s.body)
            text = ind + "let %s :=\n" % pat
            text += ind + "  while_fuel (length (items self) + length (dead self) + 1)%nat\n"
            text += ind + "    (fun %s => %s)\n" % (pat, self.cond(s.test))
            text += ind + "    (fun %s =>\n%s%s      %s)\n" % (pat, body, ind, st)
            text += ind + "    %s in\n" % st
            return text + self.block(rest, ind)
        if isinstance(s, ast.Return) and s.value is None and not rest:
            return ind + "self\n"
        return self.simple(s, ind) + self.block(rest, ind)


def module_int_consts(tree):
    out = {}
    for n in tree.body:
        if isinstance(n, ast.Assign) and len(n.targets) == 1 and isinstance(n.targets[0], ast.Name) \
                and isinstance(n.value, ast.Constant) and type(n.value.value) is int:
            if n.targets[0].id in out:
                raise Unsupported("module constant %s assigned twice" % n.targets[0].id)
            out[n.targets[0].id] = n.value.value
    return out


def translate_add_dead(path):
    tree = ast.parse(open(path).read())
    cls = [n for n in tree.body if isinstance(n, ast.ClassDef) and n.name == "IndexedSet"]
    if len(cls) != 1:
        raise Unsupported("class IndexedSet not found")
    fn = [n for n in cls[0].body if isinstance(n, ast.FunctionDef) and n.name == "_add_dead"]
    if len(fn) != 1:
        raise Unsupported("IndexedSet._add_dead not found")
    fn = fn[0]
    a = fn.args
    if [x.arg for x in a.args] != ["self", "start", "stop"] or a.vararg or a.kwarg or a.kwonlyargs or fn.decorator_list \
            or len(a.defaults) != 1 or not (isinstance(a.defaults[0], ast.Constant) and a.defaults[0].value is None):
        raise Unsupported("unexpected signature of _add_dead")
    # every call site passes `start` only
    calls = [n for n in ast.walk(cls[0]) if isinstance(n, ast.Call) and isinstance(n.func, ast.Attribute)
             and n.func.attr == "_add_dead"]
    if not calls or any(len(c.args) != 1 or c.keywords for c in calls):
        raise Unsupported("_add_dead is called with a stop argument somewhere")
    tr = Cull(module_int_consts(tree))
    tr.ints.add("start")
    tr.none_params.add("stop")
    return "Definition src_add_dead (self : iset) (start : Z) : iset :=\n" + tr.block(fn.body, "  ").rstrip("\n") + ".\n"


def translate_compact(path):
    tree = ast.parse(open(path).read())
    cls = [n for n in tree.body if isinstance(n, ast.ClassDef) and n.name == "IndexedSet"]
    if len(cls) != 1:
        raise Unsupported("class IndexedSet not found")
    fn = [n for n in cls[0].body if isinstance(n, ast.FunctionDef) and n.name == "_compact"]
    if len(fn) != 1:
        raise Unsupported("IndexedSet._compact not found")
    fn = fn[0]
    if [a.arg for a in fn.args.args] != ["self"] or fn.args.vararg or fn.args.kwarg or fn.args.kwonlyargs or fn.decorator_list:
        raise Unsupported("unexpected signature of _compact")
    # _dead_index_count must be the property len(item_list) - len(item_index_map)
    prop = [n for n in cls[0].body if isinstance(n, ast.FunctionDef) and n.name == "_dead_index_count"]
    want = ast.parse("return len(self.item_list) - len(self.item_index_map)").body[0]
    if len(prop) != 1 or len(prop[0].body) != 1 or ast.dump(prop[0].body[0]) != ast.dump(want) \
            or [ast.unparse(d) for d in prop[0].decorator_list] != ["property"]:
        raise Unsupported("_dead_index_count is not the expected property")
    tr = Cull(module_int_consts(tree))
    return "Definition src_compact (self : iset) : iset :=\n" + tr.block(fn.body, "  ").rstrip("\n") + ".\n"


def translate(path):
    tree = ast.parse(open(path).read())
    cls = [n for n in tree.body if isinstance(n, ast.ClassDef) and n.name == "IndexedSet"]
    if len(cls) != 1:
        raise Unsupported("class IndexedSet not found")
    fn = [n for n in cls[0].body if isinstance(n, ast.FunctionDef) and n.name == "_cull"]
    if len(fn) != 1:
        raise Unsupported("IndexedSet._cull not found")
    fn = fn[0]
    if [a.arg for a in fn.args.args] != ["self"] or fn.args.vararg or fn.args.kwarg or fn.args.kwonlyargs or fn.decorator_list:
        raise Unsupported("unexpected signature of _cull")
    tr = Cull(module_int_consts(tree))
    return "Definition src_cull (self : iset) : iset :=\n" + tr.block(fn.body, "  ").rstrip("\n") + ".\n"


HEADER = """(* GENERATED on every run by harness/translators/c11_cull.py from %s (IndexedSet._compact, _cull, _add_dead); do not edit. *)
From Boltons Require Import Lib.Prelude Lib.PySrc Lib.C11_Iface Model.C11_Model Lib.C11_PyImp.
"""


def generate(repo):
    path = os.path.join(repo, "boltons", "setutils.py")
    return {"C11_Cull": HEADER % "boltons/setutils.py" + translate_compact(path) + "\n" + translate(path) + "\n"
            + translate_add_dead(path)}
