"""C15 backoff / backoff_iter: plug-in.

Python only moves data: the call is made on the real code, the yielded values are
recorded bit-exactly (float.hex), and Coq decides agree / holds / known."""
import math
import os
import random as _random
from fractions import Fraction
from decimal import Decimal
from common import cnat, cN, cZ, clist

ID = "C15"
IMPORTS = ("From Coq Require Import Floats. "
           "From Boltons Require Import Lib.Prelude Lib.C15_Float Spec.C15_Spec Model.C15_Model Check.C15_Check. "
           "Open Scope float_scope.")
CASE_TYPE = "c15_case"
VERDICT = "c15_verdict"
EXPLAIN = "c15_explain"
CASES_PER_FILE = 150
CASE_TIMEOUT = 20
TIERS = {"quick": {"n": 4000}, "thorough": {"n": 60000, "exhaustive": True}}
FUEL = 4000
RULE = ("calls of backoff / backoff_iter(+ at most `take` next() calls) with binary64 start/stop/factor built around "
        "start*factor^k +-{0,1,2} ulp (subnormal, tiny, ordinary, huge, overflowing magnitudes; start 0/-0.0; stop<1), "
        "count in None/int/'repeat'/negative, jitter False/True/floats in and out of [-1,1] with seeded or "
        "directed random draws (every call to random.random() is recorded), 0.8% long sequences (100-1500 growth steps), "
        "a complete small-scope grid in the thorough tier (all valid start<=stop among 0 and the 20 three-bit-significand "
        "numbers in [0.25,8) x 6 factors x 4 count shapes, and all start<=stop among the first multiples of 2^-1074 x 6 factors; "
        "a random 4% sample of n from that grid in the quick tier), plus a malformed stream (NaN, negative start, stop 0, stop<start, factor<1); "
        "non-trivial = a valid call yielding >= 3 values that both grows and reaches stop, or jitter on with >= 2 "
        "values, or a zero start with >= 2 values; distinct = distinct case hash")
ASSUMPTIONS = ["CPython float is IEEE-754 binary64 with round-to-nearest-even, identical to Coq's PrimFloat (both use the hardware)",
               "float(x) of an int/Fraction/Decimal argument that is exactly representable returns that value",
               "random.random() returns a float in [0, 1)"]
TRUSTED = ["Model/C15_Model.v is hand-written; tied to boltons.iterutils.backoff/backoff_iter by the correspondence run and, for "
           "the body of backoff_iter (validation chain, count loop, negative-count and jitter tests, loop condition, cur_ret, "
           "state update), by the source translator harness/translators/c15_src.py (Gen/C15_Src.v regenerated each run; "
           "C15_source_matches_model proves it equal to the model's functions)",
           "harness/c15.py serialiser (float.hex -> Coq hexadecimal float literal)",
           "the IEEE-754 facts in Lib/C15_Float.v (order_laws, grow_laws, jitter_laws) are hypotheses of the generic "
           "theorems; see notes/C15.md for which are discharged for binary64 from FloatAxioms/Flocq"]

def translators(repo):
    """(T) tie: regenerate coq/Gen/C15_Src.v from the current source of backoff_iter (fail closed)."""
    import os
    import sys
    sys.path.insert(0, os.path.join(os.path.dirname(os.path.abspath(__file__)), "translators"))
    import c15_src
    return c15_src.generate(repo)


INF = float("inf")
NAN = float("nan")
MAXF = 1.7976931348623157e308
TINY = 5e-324


# ----------------------------------------------------------------------------
# floats <-> text
# ----------------------------------------------------------------------------
def fhex(x):
    x = float(x)
    if x != x:
        return "nan"
    if x in (INF, -INF):
        return "inf" if x > 0 else "-inf"
    return x.hex()


def unhex(s):
    return float.fromhex(s) if s not in ("nan", "inf", "-inf") else float(s)


def cfloat(s):
    """Coq binary64 literal (float_scope is open in case files) from float.hex text."""
    if s == "nan":
        return "nan"
    if s == "inf":
        return "infinity"
    if s == "-inf":
        return "neg_infinity"
    neg = s.startswith("-")
    body = s[1:] if neg else s
    assert body.startswith("0x") and "p" in body, s
    mant, exp = body.split("p")
    if "." in mant:
        mant = mant.rstrip("0")
        if mant.endswith("."):
            mant = mant[:-1]
    lit = "%sp%s" % (mant, exp)
    return "(-%s)" % lit if neg else lit


def ulp_step(x, k):
    for _ in range(abs(k)):
        x = math.nextafter(x, INF if k > 0 else -INF)
    return x


# ----------------------------------------------------------------------------
# generation
# ----------------------------------------------------------------------------
FACTORS = [2.0, 2.0, 2.0, 1.5, 10.0, 3.0, 1.1, 1.2, 1.0, 1.0000000000000002, 1.0000001, 1.25, 7.0, 1e10, 1e150,
           1.9999999999999998, 4.0, 2.5]


def _start(rng):
    r = rng.random()
    if r < 0.12:
        return rng.choice([0.0, 0.0, -0.0])
    if r < 0.22:   # subnormal
        return rng.choice([TINY, 2 * TINY, 3 * TINY, 7 * TINY, 1e-320, 1e-310, 2.2250738585072014e-308 / 2,
                           rng.randrange(1, 1 << 52) * TINY])
    if r < 0.30:   # smallest normals and tiny
        return rng.choice([2.2250738585072014e-308, 1e-300, 1e-200, rng.uniform(1, 2) * 1e-290])
    if r < 0.40:   # huge
        return rng.choice([1e300, 1e307, MAXF / 2, MAXF / 4, MAXF, rng.uniform(1, 1.7) * 1e308, 8.98846567431158e307])
    if r < 0.75:
        return rng.choice([1.0, 1.0, 0.25, 0.5, 2.0, 3.0, 5.0, 0.1, 0.3, 1e-3, 10.0, 100.0, 0.75, 1.5])
    return math.ldexp(rng.uniform(1, 2), rng.randint(-60, 60))


def _geometric_stop(rng, start, factor):
    """stop = the recurrence value after k steps, nudged by a few ulps, or a point in between."""
    k = rng.choice([0, 0, 1, 1, 2, 3, 4, 5, 6, 8, 10, 13, 20, 30])
    cur = start if start else 1.0
    if not start and rng.random() < 0.5:
        # stop below / at / just above 1 after a zero start
        return rng.choice([0.5, 1.0, TINY, 1e-320, 0.9999999999999999, 1.0000000000000002, 1e-3, 2.0, 0.25])
    for _ in range(k):
        nxt = cur * factor
        if nxt == INF:
            break
        cur = nxt
    r = rng.random()
    if r < 0.55:
        stop = ulp_step(cur, rng.choice([0, 0, 1, -1, 2, -2, 1, -1]))
    elif r < 0.8:
        stop = cur * rng.uniform(1.0, max(1.0, min(factor, 4.0)))
    else:
        stop = cur * rng.choice([1.0, 1.5, 0.75, 1.0000001])
    if stop != stop or stop <= 0:
        stop = cur
    if start and stop < start and rng.random() < 0.9:
        stop = start
    return stop


def _jitter(rng, want):
    if not want:
        return rng.choice([["bool", False], ["bool", False], ["int", 0], ["float", fhex(0.0)], ["float", fhex(-0.0)], ["omit", None]])
    return rng.choice([["bool", True], ["float", fhex(1.0)], ["float", fhex(-1.0)], ["float", fhex(0.5)],
                       ["float", fhex(-0.01)], ["float", fhex(rng.uniform(-1, 1))], ["float", fhex(rng.uniform(-1, 1))],
                       ["float", fhex(TINY)], ["float", fhex(-TINY)], ["int", 1], ["int", -1],
                       ["float", fhex(0.9999999999999999)], ["float", fhex(0.1)], ["float", fhex(-0.5)]])


def _draws(rng):
    if rng.random() < 0.6:
        return ["seed", rng.randrange(1 << 30)]
    pats = [[0.0], [1 - 2.0 ** -53], [2.0 ** -53], [0.5], [0.0, 1 - 2.0 ** -53], [1 - 2.0 ** -53, 0.0, 0.5, 2.0 ** -53]]
    pat = rng.choice(pats) if rng.random() < 0.7 else [rng.random() for _ in range(rng.randint(1, 5))]
    return ["patch", [fhex(x) for x in pat]]


def _numstyle(rng):
    return rng.choice(["float", "float", "int", "fraction", "decimal"])


def _mk(rng, api, start, stop, count, factor, jitter, take):
    return {"api": api, "start": fhex(start), "stop": fhex(stop), "count": count, "factor": fhex(factor),
            "jitter": jitter, "take": take, "draws": _draws(rng), "omit_factor": factor == 2.0 and rng.random() < 0.5,
            "style": [_numstyle(rng), _numstyle(rng), _numstyle(rng)],
            "call": rng.choice(["pos", "kw", "mixed"])}


def _est_steps(start, stop, factor):
    """rough number of values with the default count (to keep sequences short)"""
    s = start if start else 1.0
    if stop <= s or factor <= 1.0:
        return 2
    try:
        return min(1e9, 3 + (math.log(stop) - math.log(s)) / math.log(factor))
    except (ValueError, ZeroDivisionError, OverflowError):
        return 10 ** 9


def gen_valid(rng, tier):
    api = rng.choice(["list", "iter", "iter"])
    start = _start(rng)
    factor = rng.choice(FACTORS) if rng.random() < 0.8 else rng.uniform(1.0, 4.0)
    stop = _geometric_stop(rng, start, factor)
    r = rng.random()
    if r < 0.06:
        stop = rng.choice([INF, MAXF, MAXF / 2])
        if rng.random() < 0.3:
            factor = rng.choice([INF, 1e308, 1e200])
    jit_on = rng.random() < 0.35
    jitter = _jitter(rng, jit_on)
    est = _est_steps(start, stop, factor)
    r = rng.random()
    long_ok = 2300 if rng.random() < 0.01 else 60
    if r < 0.42 and est <= long_ok:
        count = None
        take = rng.choice([1, 2, 3, 5, 8, 40, 40, 80, 80]) if est <= 60 else rng.choice([3, 2400, 2400])
    elif r < 0.52 and api == "iter":
        count = "repeat"
        take = rng.randint(1, 30)
    else:
        n = min(int(est), 40)
        count = rng.choice([0, 1, 2, n, n + 1, n + 3, rng.randint(0, 12), rng.randint(0, 45)])
        if api == "iter" and rng.random() < 0.15:
            count = rng.choice([10 ** 9, 2 ** 70, 5000])
        take = rng.choice([0, 1, count, count + 1, count + 2, rng.randint(0, 50)]) if count < 100 else rng.randint(1, 30)
    if api == "list":
        take = 0
        if count == "repeat":
            count = 3
    if count is None and "omit" not in jitter and rng.random() < 0.5:
        count = "omit"          # count not passed at all
    return _mk(rng, api, start, stop, count, factor, jitter, take)


def gen_invalid(rng, tier):
    c = gen_valid(rng, tier)
    start, stop, factor = unhex(c["start"]), unhex(c["stop"]), unhex(c["factor"])
    kind = rng.choice(["neg_start", "neg_start", "zero_stop", "stop_lt_start", "stop_lt_start", "factor_lt_1", "factor_lt_1",
                       "nan_start", "nan_stop", "nan_factor", "jitter_out", "jitter_out", "jitter_nan", "neg_count",
                       "neg_count", "repeat_list", "neg_stop"])
    if kind == "neg_start":
        c["start"] = fhex(rng.choice([-TINY, -1.0, -0.5, -1e300, -INF, -abs(start) or -2.0]))
    elif kind == "zero_stop":
        c["stop"] = fhex(rng.choice([0.0, -0.0]))
        if rng.random() < 0.5:
            c["start"] = fhex(0.0)
    elif kind == "stop_lt_start":
        if start == 0:
            start = 1.0
            c["start"] = fhex(start)
        c["stop"] = fhex(rng.choice([ulp_step(start, -1), start / 2, start * 0.999]))
    elif kind == "neg_stop":
        c["stop"] = fhex(rng.choice([-1.0, -TINY, -INF]))
    elif kind == "factor_lt_1":
        c["factor"] = fhex(rng.choice([0.9999999999999999, 0.5, 0.0, -2.0, -0.0, TINY, -INF]))
    elif kind == "nan_start":
        c["start"] = "nan"
    elif kind == "nan_stop":
        c["stop"] = "nan"
    elif kind == "nan_factor":
        c["factor"] = "nan"
    elif kind == "jitter_out":
        c["jitter"] = rng.choice([["float", fhex(1.0000000000000002)], ["float", fhex(-1.0000000000000002)], ["int", 20],
                                  ["int", -2], ["float", "inf"], ["float", "-inf"], ["float", fhex(1.5)]])
    elif kind == "jitter_nan":
        c["jitter"] = ["float", "nan"]
    elif kind == "neg_count":
        c["count"] = rng.choice([-1, -1, -5, -10 ** 12])
    elif kind == "repeat_list":
        c["api"] = "list"
        c["take"] = 0
        c["count"] = "repeat"
    c["style"] = ["float"] * 3 if any(x in ("nan", "inf", "-inf") for x in (c["start"], c["stop"], c["factor"])) else c["style"]
    return c


def gen_long(rng, tier):
    """long sequences: 100..1500 growth steps with a factor close to 1"""
    factor = rng.choice([1.01, 1.003, 1.05, 1.0005, 1.02])
    start = rng.choice([1.0, 0.1, 0.0, 3.0, 1e-3, math.ldexp(rng.uniform(1, 2), rng.randint(-20, 20))])
    k = rng.randint(100, 1500)
    cur = start if start else 1.0
    for _ in range(k):
        cur *= factor
    stop = ulp_step(cur, rng.choice([0, 1, -1])) if rng.random() < 0.6 else cur * rng.uniform(1.0, factor)
    api = rng.choice(["list", "iter"])
    r = rng.random()
    if r < 0.6:
        count, take = rng.choice([None, "omit"]), 2400
    elif r < 0.8 and api == "iter":
        count, take = "repeat", k + rng.randint(0, 40)
    else:
        count = k + rng.choice([-5, 0, 1, 2, 30])
        take = count + rng.choice([-1, 0, 3])
    if api == "list":
        take = 0
    return _mk(rng, api, start, stop, count, factor, _jitter(rng, rng.random() < 0.3), take)


def _grid_values():
    return [0.0] + [(1 + m / 4.0) * 2.0 ** e for e in range(-2, 3) for m in range(4)]


SWEEP_FACTORS = [1.0, 1.25, 1.5, 1.75, 2.0, 3.0]
SUB_FACTORS = [1.0, 1.1, 1.25, 1.5, 2.0, 3.0]


def sweep():
    """Complete small-scope enumeration (thorough tier): every valid (start, stop) among 0 and the
    20 numbers with a 3-bit significand in [0.25, 8), every factor of SWEEP_FACTORS, four count/api
    shapes; and every (start, stop) among the first multiples of 2^-1074 (the stall regime)."""
    fixed = {"jitter": ["omit", None], "draws": ["seed", 1], "style": ["float"] * 3, "call": "kw"}
    vals = _grid_values()
    shapes = [("list", None, 0), ("iter", "repeat", 12), ("list", 0, 0), ("list", 3, 0)]
    for a in vals:
        for b in vals[1:]:
            if a > b:
                continue
            for f in SWEEP_FACTORS:
                for api, count, take in shapes:
                    yield dict(fixed, api=api, start=fhex(a), stop=fhex(b), count=count, factor=fhex(f), take=take)
    for i in range(0, 9):
        for jx in range(max(i, 1), 11):
            for f in SUB_FACTORS:
                for api, count, take in [("list", None, 0), ("iter", "repeat", 8)]:
                    yield dict(fixed, api=api, start=fhex(i * TINY), stop=fhex(jx * TINY), count=count,
                               factor=fhex(f), take=take)


def generate(rng, tier, n):
    if tier == "thorough":
        for c in sweep():
            yield c
    else:
        grid = list(sweep())
        for c in rng.sample(grid, min(len(grid), max(1, n // 25))):
            yield c
    for i in range(n):
        r = rng.random()
        if r < 0.2:
            yield gen_invalid(rng, tier)
        elif r < 0.208:
            yield gen_long(rng, tier)
        else:
            yield gen_valid(rng, tier)


# ----------------------------------------------------------------------------
# running the implementation
# ----------------------------------------------------------------------------
def _num(hx, style):
    x = unhex(hx)
    if x != x or x in (INF, -INF):
        return x
    if style == "int" and x == int(x) and abs(x) < 2 ** 53 and not (x == 0 and math.copysign(1, x) < 0):
        return int(x)
    if style == "fraction" and not (x == 0 and math.copysign(1, x) < 0):
        return Fraction(x)
    if style == "decimal":
        return Decimal(x)
    return x


def _jit_arg(j):
    kind, v = j
    if kind == "bool":
        return bool(v)
    if kind == "int":
        return int(v)
    if kind == "float":
        return unhex(v)
    return None


def jitter_float(j):
    """float(jitter) as the model sees it."""
    kind, v = j
    if kind == "omit":
        return 0.0
    return float(_jit_arg(j))


def _args(case):
    start = _num(case["start"], case["style"][0])
    stop = _num(case["stop"], case["style"][1])
    factor = _num(case["factor"], case["style"][2])
    kw = {}
    if case["count"] != "omit":
        kw["count"] = case["count"]
    omit_factor = bool(case.get("omit_factor")) and unhex(case["factor"]) == 2.0   # default factor=2.0
    if not omit_factor:
        kw["factor"] = factor
    if case["jitter"][0] != "omit":
        kw["jitter"] = _jit_arg(case["jitter"])
    if case["call"] == "kw":
        kw.update(start=start, stop=stop)
        return (), kw
    if case["call"] == "pos" and "count" in kw and "factor" in kw:
        a = [start, stop, kw.pop("count"), kw.pop("factor")]
        if "jitter" in kw:
            a.append(kw.pop("jitter"))
        return tuple(a), kw
    return (start, stop), kw


def run_impl(case):
    import random
    import boltons.iterutils as IU
    a, kw = _args(case)
    mode, v = case["draws"]
    saved = random.random
    state = random.getstate()
    rec = []
    if mode == "seed":
        src = random.Random(v).random
        random.seed(v)
    else:
        pat = [unhex(x) for x in v]
        ctr = [0]

        def src():
            ctr[0] += 1
            return pat[(ctr[0] - 1) % len(pat)]

    def recording():
        r = src()
        rec.append(r)
        return r
    random.random = recording          # every draw the call makes is recorded
    try:
        if case["api"] == "list":
            try:
                r = IU.backoff(*a, **kw)
            except ValueError:
                return {"vals": [], "end": "ValueError", "draws": [fhex(x) for x in rec]}
            assert type(r) is list
            return {"vals": [fhex(x) for x in r], "end": "stop", "draws": [fhex(x) for x in rec]}
        it = IU.backoff_iter(*a, **kw)
        vals, end = [], "more"
        for _ in range(case["take"]):
            try:
                vals.append(fhex(next(it)))
            except StopIteration:
                end = "stop"
                break
            except ValueError:
                end = "ValueError"
                break
        return {"vals": vals, "end": end, "draws": [fhex(x) for x in rec]}
    finally:
        random.random = saved
        random.setstate(state)


# ----------------------------------------------------------------------------
# rendering
# ----------------------------------------------------------------------------
def _count(c):
    if c is None or c == "omit":
        return "CNone"
    if c == "repeat":
        return "CRepeat"
    return "(CNum %s)" % cZ(c)


_END = {"stop": "EStop", "more": "EMore", "ValueError": "(ERaise ValueError)"}


def to_coq(case, obs):
    vals = obs["vals"]
    assert len(vals) <= 2600
    jf = jitter_float(case["jitter"])
    draws = [unhex(d) for d in obs.get("draws", [])][:6000]
    if jf == 0:
        draws = []
    p = "(mkP %s %s %s %s %s %s %s)" % (
        "ApiList" if case["api"] == "list" else "ApiIter", cfloat(case["start"]), cfloat(case["stop"]),
        _count(case["count"]), cfloat(case["factor"]), cfloat(fhex(jf)), cnat(case["take"]))
    return "mkCase %s %s %s (mkObs %s %s)" % (
        p, cN(FUEL), clist(cfloat(fhex(d)) for d in draws), clist(cfloat(v) for v in vals), _END[obs["end"]])


def corrupt(case, obs):
    """A wrong observation for the canary: last value one ulp up, or an error turned into an empty run."""
    if obs["vals"]:
        v = unhex(obs["vals"][-1])
        if v == v and v not in (INF, -INF):
            bad = {"vals": list(obs["vals"]), "end": obs["end"], "draws": obs.get("draws", [])}
            bad["vals"][-1] = fhex(math.nextafter(v, INF))
            return bad
    if obs["end"] == "ValueError":
        return {"vals": [], "end": "stop", "draws": []}
    return None


def nontrivial(case, obs):
    vals = [unhex(v) for v in obs["vals"]]
    if obs["end"] == "ValueError" or len(vals) < 2:
        return False
    if jitter_float(case["jitter"]) != 0:
        return True
    if unhex(case["start"]) == 0:
        return True
    stop = unhex(case["stop"])
    return len(vals) >= 3 and vals[-1] == stop and vals[0] < vals[1] < stop


def distribution(d, case, obs):
    def bump(k, v):
        d.setdefault(k, {})
        d[k][v] = d[k].get(v, 0) + 1
    bump("api", case["api"])
    c = case["count"]
    bump("count", "none" if c in (None, "omit") else c if c == "repeat" else "negative" if c < 0 else "int")
    jf = jitter_float(case["jitter"])
    bump("jitter", "off" if jf == 0 else "nan" if jf != jf else "in[-1,1]" if -1 <= jf <= 1 else "out")
    bump("end", obs["end"])
    n = len(obs["vals"])
    bump("len", "0" if n == 0 else "1-2" if n < 3 else "3-9" if n < 10 else "10-99" if n < 100 else "100+")
    start, stop = unhex(case["start"]), unhex(case["stop"])
    if start == 0:
        bump("marks", "zero_start")
    if 0 < start < 2.2250738585072014e-308:
        bump("marks", "subnormal_start")
    if 0 < stop < 1:
        bump("marks", "stop_lt_1")
    if stop == INF:
        bump("marks", "stop_inf")
    vals = [unhex(v) for v in obs["vals"]]
    if jf == 0 and len(vals) >= 2 and vals[-1] == stop and vals[-2] < stop:
        bump("marks", "reaches_stop")
        if vals[-2] * unhex(case["factor"]) == stop:
            bump("marks", "stop_exactly_on_grid")
    if jf == 0 and len(vals) >= 2 and vals[-1] == vals[-2] == stop:
        bump("marks", "stays_at_stop")
    if case["draws"][0] == "patch" and jf != 0:
        bump("marks", "directed_draws")


def sample(case, obs):
    return {"call": {k: case[k] for k in ("api", "start", "stop", "count", "factor", "jitter", "take")},
            "as_floats": [unhex(case["start"]), unhex(case["stop"]), unhex(case["factor"])],
            "observed": {"vals": [unhex(v) for v in obs["vals"][:8]], "n": len(obs["vals"]), "end": obs["end"]}}


def shrink(case):
    def var(**kw):
        c = dict(case)
        c.update(kw)
        return c
    if case["take"] > 1:
        yield var(take=case["take"] // 2)
        yield var(take=case["take"] - 1)
    c = case["count"]
    if isinstance(c, int) and c > 1:
        yield var(count=c // 2)
        yield var(count=c - 1)
    if case["jitter"][0] != "omit" and jitter_float(case["jitter"]) != 0:
        yield var(jitter=["bool", False])
    if case["style"] != ["float"] * 3:
        yield var(style=["float"] * 3)
    if case["call"] != "kw":
        yield var(call="kw")
    if case["draws"][0] == "seed":
        yield var(draws=["patch", [fhex(0.5)]])


# ----------------------------------------------------------------------------
# directed search after a broken tie: vary the disagreeing call along every axis the
# property quantifies over (jitter sign/size, extreme draws, count kind, take, zero start,
# stop one ulp around, factor), then fall back on the ordinary stream
# ----------------------------------------------------------------------------
def _vary(rng, base):
    c = dict(base)
    c["draws"] = list(base["draws"])
    c["style"] = list(base["style"])
    for _ in range(rng.randint(1, 3)):
        ax = rng.choice(["jitter", "jitter", "draws", "draws", "count", "take", "start", "stop", "factor", "api"])
        if ax == "jitter":
            c["jitter"] = _jitter(rng, rng.random() < 0.85)
        elif ax == "draws":
            c["draws"] = _draws(rng)
        elif ax == "count":
            n = rng.randint(0, 40)
            c["count"] = rng.choice([None, "omit", n, n, 0, 1, "repeat" if c["api"] == "iter" else n])
        elif ax == "take":
            c["take"] = rng.randint(0, 60) if c["api"] == "iter" else 0
        elif ax == "start":
            c["start"] = fhex(rng.choice([0.0, -0.0, unhex(c["start"]) / 2, ulp_step(unhex(c["start"]), rng.choice([-1, 1])), _start(rng)]))
        elif ax == "stop":
            st = unhex(c["stop"])
            if st == st and st not in (INF, -INF):
                c["stop"] = fhex(rng.choice([ulp_step(st, 1), ulp_step(st, -1), st * 2, st / 2, 1.0, 0.5]))
        elif ax == "factor":
            c["factor"] = fhex(rng.choice(FACTORS))
        else:
            c["api"] = rng.choice(["list", "iter"])
            if c["api"] == "list":
                c["take"] = 0
                if c["count"] == "repeat":
                    c["count"] = 5
            else:
                c["take"] = rng.randint(1, 40)
    if c["api"] == "iter" and c["count"] in (None, "omit") and c["take"] > 2500:
        c["take"] = 50
    return c


def search(rng, tier, n, broken):
    bases = [b["case"] for b in broken if b.get("kind") == "correspondence" and isinstance(b.get("case"), dict)]
    k = 0
    if bases:
        for _ in range(n // 2):
            k += 1
            yield _vary(rng, rng.choice(bases))
    for c in generate(rng, tier, n - k):
        yield c


def extra_evidence(results):
    grid = longs = stall = omitted = products = reuse = 0
    for r in results:
        if r.get("abnormal"):
            continue
        c, o = r["case"], r["obs"]
        n = len(o["vals"])
        if c.get("style") == ["float"] * 3 and c.get("call") == "kw" and c.get("draws") == ["seed", 1] and c["jitter"][0] == "omit":
            grid += 1
        if n >= 100:
            longs += 1
        if r.get("known"):
            stall += 1
        if c.get("omit_factor") and unhex(c["factor"]) == 2.0:
            omitted += 1
        if jitter_float(c["jitter"]) == 0 and n > 1:
            products += n - 1
    t_tie = "unavailable"
    try:
        import hashlib
        import common as _C
        txt = open(os.path.join(_C.COQ, "Gen", "C15_Src.v")).read()
        t_tie = {"generated": "coq/Gen/C15_Src.v", "sha1": hashlib.sha1(txt.encode()).hexdigest(),
                 "definitions": [w.split()[1] for w in txt.splitlines() if w.strip().startswith(("Definition", "Fixpoint"))],
                 "proved_equal_to_model_by": "Props/C15.v: C15_source_matches_model"}
    except Exception as e:
        t_tie = "unavailable: %r" % (e,)
    return {"t_tie": t_tie, "small_scope_grid_cases": grid, "sequences_of_100_or_more_values": longs,
            "cases_inside_stall_guard": stall, "calls_with_factor_omitted": omitted,
            "successor_values_compared_bit_exactly_with_coq_binary64": products}
