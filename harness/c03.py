"""C03 -- concurrent LRI/LRU operations are atomic: plug-in.

Tie (T): translators() regenerates coq/Gen/C03_Gen.v (lock-coverage table) from the
current source with harness/translators/c03_lock_ast.py (fail closed).
Tie (C): run_impl() runs REAL threads on ONE real cache under the deterministic
opcode-level scheduler of harness/translators/c03_sched.py for every schedule of the
case, and returns the distinct outcomes; Coq decides (Check/C03_Check.v).
Python only moves data: nothing in this file says what a correct outcome is.
"""
import os
import sys

HERE = os.path.dirname(os.path.abspath(__file__))
sys.path.insert(0, os.path.join(HERE, "translators"))

from common import cnat, clist, cpair, copt, cbool   # noqa: E402

ID = "C03"
# Proofs/C03_Link*.v import C02's sequential models and proofs (C02_NEEDED).  They are NOT listed in
# DEPENDS: that would put every C02 file -- also C02's own obligations over coq/Gen/C02_Gen.v,
# which other people's runs on scratch trees rewrite -- into this property's build, and a C02
# obligation failing for a C02 reason was seen to fail the C03 check (notes/C03.md).  The compiled
# C02 libraries are used as they are; translators() fails closed if one is missing.
C02_NEEDED = ["Lib/C02_Syntax", "Spec/C02_Spec", "Model/C02_Model", "Model/C02_PtrModel", "Model/C02_PtrCache",
              "Proofs/C02_Lists", "Proofs/C02_Inv", "Proofs/C02_Refine", "Proofs/C02_PtrLemmas", "Proofs/C02_PtrRep",
              "Proofs/C02_PtrSim", "Proofs/C02_Eqb", "Proofs/C02_Recency"]
IMPORTS = ("From Boltons Require Import Lib.Prelude Lib.C03_Syntax Lib.C03_Conc Model.C03_Model "
           "Spec.C03_Spec Gen.C03_Gen Check.C03_Check.")
CASE_TYPE = "c03_case"
VERDICT = "c03_verdict"
EXPLAIN = "c03_explain"
CASES_PER_FILE = 60
CASE_TIMEOUT = 300          # a hang of the implementation is detected per schedule (WAIT_S); this only guards the whole case under heavy machine load
TIERS = {"quick": {"n": 330, "search_n": 120}, "thorough": {"n": 4000, "search_n": 400}}
RULE = ("a case = LRI/LRU with max_size 1-4 (on_miss in 30%), 0..max_size+1 initial items, 2-3 real threads x 1-3 "
        "public operations over max_size+2 keys, run under several deterministic schedules that pre-empt before chosen "
        "bytecodes executed inside cacheutils.py (random 0-3 pre-emptions; every 10th case: EVERY single pre-emption "
        "position of one thread; every 10th case: a same-key check-then-act race template swept the same way; 6 (quick) / 120 "
        "(thorough) two-thread one-operation programs on the full grid of <= 2 pre-emptions; every 10th case one of the shapes {3 threads on one key, on_miss re-entrancy, reads of the oldest keys racing evictions, copy() racing writers, a batch update racing readers of its keys} swept over every pre-emption position; 2 / 60 three-thread grids (a pre-empted, b pre-empted, c runs); thorough also: every ordered pair of 19 representative operations on a full cache over that grid AND over every single pre-emption position (complete)); observed per schedule: each thread's results, dict(cache), len, "
        "eviction order by probing with fresh keys, order of outermost lock acquisitions.  non-trivial = some schedule "
        "actually switched threads inside cacheutils AND (a thread blocked on the lock held by a pre-empted thread, or "
        ">= 2 distinct outcomes were seen); distinct = distinct canonical case hash")
ASSUMPTIONS = ["the GIL makes one bytecode instruction / one builtin dict or list operation atomic (pre-emption only between bytecodes)",
               "threading.RLock gives mutual exclusion and re-entrancy (the scheduler-aware replacement lock mimics the kind the constructor chose)",
               "keys hashable with lawful __eq__/__hash__; on_miss is a pure function",
               "hit/miss/soft-miss counters are not observables of C03 (get() bumps soft_miss_count outside the lock)"]
TRUSTED = ["Model/C03_Model.v is hand-written (pointer-level ring); tied to boltons.cacheutils by the correspondence run",
           "harness/translators/c03_lock_ast.py (AST lock-table extractor, fail-closed) and c03_sched.py (scheduler)",
           "harness/c03.py serialiser",
           "property C02's compiled Coq libraries (C02_NEEDED) imported by Proofs/C03_Link*.v, C03_SpecLink*.v; not rebuilt by this check"]

# ---------------------------------------------------------------------------------------
# tokens -> varied python objects (pairwise != ; unhashable ones only as values)
KEYS = [0, "a", (1, 2), None, 3.5, "b", frozenset([7]), -1, "key", (), 17, "z", b"y", 99, "q", ("t", None)]
FRESH_VALUE_TOKEN = 0


def key_obj(tok):
    if tok >= 100:
        return "fresh%d" % (tok - 100)
    return KEYS[tok] if tok < len(KEYS) else "k%d" % tok


def val_obj(tok):
    m = tok % 4
    if m == 0:
        return ["v", tok]            # unhashable on purpose
    if m == 1:
        return "val%d" % tok
    if m == 2:
        return ("v", tok)
    return 1000 + tok


def _build_inverse():
    inv_k, inv_v = {}, {}
    for t in list(range(40)) + list(range(100, 140)):
        inv_k[repr(key_obj(t))] = t
    for t in range(0, 200):
        inv_v[repr(val_obj(t))] = t
    return inv_k, inv_v


INV_K, INV_V = _build_inverse()


class BadValue(Exception):
    """the cache handed out an object that was never put in (e.g. the _MISSING sentinel)"""


def ktok(o):
    try:
        return INV_K[repr(o)]
    except KeyError:
        raise BadValue(repr(o))


def vtok(o):
    try:
        return INV_V[repr(o)]
    except KeyError:
        raise BadValue(repr(o))


EXN_CODES = {"KeyError": "KeyError", "IndexError": "IndexError", "TypeError": "TypeError",
             "ValueError": "ValueError", "RuntimeError": "RuntimeError", "StopIteration": "StopIteration"}
OTHER_EXN = {"AttributeError": 1, "RecursionError": 2, "AssertionError": 3, "NameError": 4, "UnboundLocalError": 5}


def exn_code(e):
    n = type(e).__name__
    if n in EXN_CODES:
        return n
    return "Other%d" % OTHER_EXN.get(n, 9)


def exn_coq(code):
    if code.startswith("Other"):
        return "(OtherExn %s)" % cnat(int(code[5:]))
    return code


# ---------------------------------------------------------------------------------------
# (T)
SELFTEST = {}


def translators(repo):
    import c03_lock_ast
    import c03_selftest
    import common
    missing = [f for f in C02_NEEDED if not os.path.exists(os.path.join(common.COQ, f + ".vo"))]
    if missing:
        raise RuntimeError("C03's link theorems need C02's compiled libraries; not built: %s "
                           "(run harness/vcheck.py --setup or the C02 check first)" % missing)
    # the extractor must reject every perturbation of the CURRENT source that breaks the lock
    # discipline (fail closed if it does not: a translator that accepts everything is worthless)
    rejected, total, failures = c03_selftest.run(repo)
    SELFTEST.update({"rejected": rejected, "total": total, "failures": failures})
    if failures or total < 10:
        raise RuntimeError("lock-table translator self-test failed: %d/%d perturbed sources rejected; accepted: %r"
                           % (rejected, total, failures))
    ctor, methods = c03_lock_ast.extract(repo)
    return {"C03_Gen": c03_lock_ast.render(ctor, methods)}


def json_key(x):
    import json
    return json.dumps(x, sort_keys=True)


def extra_evidence(results):
    grids = [r for r in results if not r.get("abnormal") and isinstance(r.get("obs"), dict) and r["obs"].get("grid")]
    ok = [r for r in results if not r.get("abnormal") and isinstance(r.get("obs"), dict)]
    sweeps = [r for r in ok if len(r["case"].get("scheds", [])) >= SYS_POSITIONS]
    pairs = set()
    for r in sweeps:
        th = r["case"]["threads"]
        if len(th) == 2 and len(th[0]) == 1 and len(th[1]) == 1 and r["case"]["init"] == [[0, 1], [1, 2]] and r["case"]["max"] == 2:
            pairs.add((json_key(th[0][0]), json_key(th[1][0])))
    return {"single_preemption_sweeps": {"cases": len(sweeps), "schedules": sum(r["obs"]["n_sched"] for r in sweeps),
                                         "distinct_ordered_operation_pairs_swept_completely": len(pairs),
                                         "representative_operations": len(GRID_OPS)},
            "three_thread_grids": sum(1 for r in ok if r["obs"].get("grid") and len(r["case"]["threads"]) == 3),
            "translator_selftest": dict(SELFTEST),
            "two_preemption_grids": {"cases": len(grids),
                                     "complete_stride_1": sum(1 for r in grids if r["obs"]["grid"]["stride"] == [1, 1]),
                                     "schedules": sum(r["obs"]["grid"]["n"] for r in grids)}}


# ---------------------------------------------------------------------------------------
# generation
OPS_W = [("set", 24), ("get", 12), ("getd", 8), ("del", 8), ("pop", 5), ("popd", 5), ("popitem", 5),
         ("clear", 2), ("setdefault", 8), ("update", 7), ("ior", 3), ("eq", 3), ("eqself", 1), ("copy", 5),
         ("len", 7), ("in", 8), ("or", 2), ("ror", 2), ("repr", 2), ("ne", 2), ("copy2", 2)]


def _gen_op(rng, nkeys, vctr):
    names = [n for n, _ in OPS_W]
    ws = [w for _, w in OPS_W]
    name = rng.choices(names, ws)[0]
    k = rng.randrange(nkeys)

    def v():
        vctr[0] += 1
        return 1 + (vctr[0] % 45)
    if name == "set":
        return ["set", k, v()]
    if name in ("get", "del", "pop", "in"):
        return [name, k]
    if name in ("getd", "popd", "setdefault"):
        return [name, k, v()]
    if name in ("popitem", "clear", "eqself", "copy", "len", "or", "ror", "repr", "copy2"):
        return [name]
    if name in ("update", "ior"):
        ks = [rng.randrange(nkeys) for _ in range(rng.randint(0, 3))]
        style = rng.choice(["dict", "list", "iter", "gen"]) if name == "update" else "dict"
        pairs = [[kk, v()] for kk in ks]
        if style == "dict":       # a dict literal keeps the last value of a repeated key, at its first position
            d = {}
            for kk, vv in pairs:
                d[kk] = vv
            pairs = [[kk, vv] for kk, vv in d.items()]
        return [name, pairs, style]
    if name in ("eq", "ne"):
        ks = rng.sample(range(nkeys), rng.randint(0, min(3, nkeys)))
        return [name, [[kk, 1 + rng.randrange(6)] for kk in ks]]
    raise AssertionError(name)


def _gen_program(rng, tier):
    kind = rng.choice(["LRI", "LRU"])
    mx = rng.choice([1, 2, 2, 3, 3, 4])
    # few keys, many repeats; a third of the cases fight over 2 keys only (check-then-act races)
    nkeys = 2 if rng.random() < 0.33 else mx + rng.choice([1, 2])
    vctr = [rng.randrange(40)]
    init = []
    for _ in range(rng.choice([0, mx - 1, mx, mx, mx + 1])):
        vctr[0] += 1
        init.append([rng.randrange(nkeys), 1 + vctr[0] % 45])
    nth = 2 if rng.random() < 0.7 else 3
    threads = [[_gen_op(rng, nkeys, vctr) for _ in range(rng.randint(1, 3 if nth == 2 else 2))] for _ in range(nth)]
    return {"kind": kind, "max": mx, "on_miss": 1 if rng.random() < 0.3 else 0, "init": init, "threads": threads}


SYS_POSITIONS = 360


def _rand_scheds(rng, nth, count):
    """["r", start, [tid, permille, to]...]: pre-empt thread tid before the opcode at that
    fraction of its (baseline) opcode count inside cacheutils and run thread `to`"""
    out = []
    for _ in range(count):
        s = ["r", rng.randrange(nth)]
        for _ in range(rng.choice([0, 1, 1, 2, 2, 2, 3])):
            s.append([rng.randrange(nth), rng.randrange(1000), rng.randrange(nth)])
        out.append(s)
    return out


def _sys_scheds(a, b):
    """every single pre-emption position of thread a (absolute opcode index k), thread b runs
    next; positions beyond the thread's length are skipped at run time"""
    return [["a", a, [a, k, b]] for k in range(SYS_POSITIONS)]


GRID_OPS = [["set", 0, 7], ["set", 2, 7], ["get", 0], ["get", 2], ["getd", 2, 9], ["del", 0], ["pop", 0], ["popd", 2, 5],
            ["popitem"], ["clear"], ["setdefault", 2, 9], ["setdefault", 0, 9], ["update", [[2, 7]], "list"],
            ["ior", [[2, 7]], "dict"], ["eq", [[0, 1], [1, 2]]], ["copy"], ["len"], ["in", 0], ["in", 2],
            ["or"], ["ror"], ["repr"], ["ne", [[0, 1], [1, 2]]], ["copy2"]]


def _grid_case(rng, cap):
    """two threads, one operation each, ALL placements of <= 2 pre-emptions (thread a is pre-empted
    before its opcode k1, thread b runs and is pre-empted before its opcode k2, a resumes ...);
    if the grid has more than `cap` points the positions are taken with the smallest stride that
    fits (reported in the observation)"""
    mx = rng.choice([1, 2, 2, 3])
    a, b = rng.choice(GRID_OPS), rng.choice(GRID_OPS)
    return {"kind": rng.choice(["LRI", "LRU"]), "max": mx, "on_miss": rng.choice([0, 0, 1]),
            "init": [[0, 1], [1, 2], [5, 3]][:rng.choice([mx, mx, max(0, mx - 1)])],
            "threads": [[a], [b]], "scheds": [["grid2", rng.randrange(2), cap]]}


def _race_case(rng):
    """check-then-act races: two threads, one or two operations each, ALL on the same key (absent or
    present, cache full or not), every single pre-emption position of thread a; thread b runs in
    the window"""
    mx = rng.choice([1, 2, 2, 3])
    k = rng.choice([0, 2])               # 0 is in the initial contents, 2 is not
    def one(i):
        v = 10 + 3 * i + rng.randrange(3)
        return rng.choice([["setdefault", k, v], ["setdefault", k, v], ["set", k, v], ["get", k], ["getd", k, v],
                           ["del", k], ["pop", k], ["popd", k, v], ["update", [[k, v]], "list"], ["ior", [[k, v]], "dict"],
                           ["in", k], ["popitem"], ["len"], ["copy"], ["or"], ["repr"]])
    ta = [one(0)] + ([one(1)] if rng.random() < 0.3 else [])
    tb = [one(2)] + ([one(3)] if rng.random() < 0.5 else [])
    a = rng.randrange(2)
    return {"kind": rng.choice(["LRI", "LRU"]), "max": mx, "on_miss": rng.choice([0, 0, 1]),
            "init": [[0, 1], [1, 2], [5, 3]][:rng.choice([mx, mx, max(0, mx - 1)])],
            "threads": [ta, tb] if a == 0 else [tb, ta], "scheds": _sys_scheds(a, 1 - a)}


def _shape_case(rng, i):
    """thread shapes named in the property's mechanism list, each swept over EVERY single
    pre-emption position of one thread (the others run inside the window):
      0 three threads on one key            1 on_miss re-entrancy (lookup -> on_miss -> self[key] = ...)
      2 reads of the oldest keys racing evictions (LRU and LRI)     3 copy() racing writers
      4 a batch (update / |=) racing readers of its keys: the batch must be visible all or nothing
      5 == / != against a dict or another cache holding exactly the items a half-done eviction shows
      6 a lookup that goes through on_miss (pre-empted also INSIDE on_miss) racing an assignment /
        deletion of the same key: the assignment must not be lost"""
    shape = i % 7
    mx = rng.choice([1, 2, 2, 3])
    init = [[0, 1], [1, 2], [5, 3]][:mx]
    v = lambda: 10 + rng.randrange(30)
    if shape == 0:
        k = rng.choice([0, 2])
        pool = [["setdefault", k, v()], ["set", k, v()], ["get", k], ["getd", k, v()], ["del", k], ["pop", k],
                ["popd", k, v()], ["update", [[k, v()]], "list"], ["in", k], ["popitem"], ["len"], ["copy"]]
        threads = [[rng.choice(pool)], [rng.choice(pool)], [rng.choice(pool)]]
        om = rng.choice([0, 0, 1])
        kind = rng.choice(["LRI", "LRU"])
    elif shape == 1:
        k = rng.choice([2, 3])                       # absent: the lookup goes through on_miss
        threads = [[rng.choice([["get", k], ["getd", k, v()], ["setdefault", k, v()]])],
                   [rng.choice([["set", k, v()], ["del", k], ["clear"], ["get", k], ["pop", k], ["popitem"],
                                ["setdefault", k, v()], ["update", [[k, v()], [4, v()]], "dict"]])] +
                   ([rng.choice([["get", k], ["len"], ["in", k]])] if rng.random() < 0.5 else [])]
        om, kind = 1, rng.choice(["LRI", "LRU"])
    elif shape == 2:
        reader = rng.choice([[["get", 0]] + ([["get", 1]] if mx > 1 and rng.random() < 0.5 else []),
                             [["in", 0], ["in", 2]], [["in", 2], ["in", 0]], [["len"]], [["in", 0], ["len"], ["in", 2]],
                             [["getd", 0, 9], ["in", 2]]])
        threads = [reader, [["set", 2, v()]] + ([["set", 3, v()]] if rng.random() < 0.5 else [])]
        om, kind = rng.choice([0, 0, 1]), rng.choice(["LRU", "LRI"])
    elif shape == 4:
        batch = rng.choice([["update", [[2, v()], [3, v()]], rng.choice(["list", "dict", "iter"])], ["ior", [[2, v()], [3, v()]], "dict"],
                            ["update", [[0, v()], [2, v()]], "list"]])
        reader = rng.choice([[["in", 2], ["in", 3]], [["getd", 3, 1], ["getd", 2, 1]], [["or"]], [["copy"]], [["len"]],
                             [["eq", [[0, 1], [1, 2]]]], [["in", 3], ["in", 2]], [["repr"]], [["ne", [[0, 1], [1, 2]]]]])
        threads = [[batch], reader]
        om, kind = 0, rng.choice(["LRI", "LRU"])
        mx, init = 3, [[0, 1], [1, 2]]
    elif shape == 5:
        mx = rng.choice([2, 2, 3])
        init = [[0, 1], [1, 2], [5, 3]][:mx]
        newv = v()
        mid = init[1:]                                   # what the dict holds between the delete and the insert
        lit = rng.choice([mid, mid, init, init[1:] + [[2, newv]]])
        cmp_op = [rng.choice(["eq", "ne", "eqc", "nec"]), lit]
        threads = [[["set", 2, newv]], [cmp_op] + ([[rng.choice(["eq", "ne"]), mid]] if rng.random() < 0.3 else [])]
        om, kind = 0, rng.choice(["LRI", "LRU"])
        return {"kind": kind, "max": mx, "on_miss": om, "init": init, "threads": threads, "scheds": _sys_scheds(0, 1)}
    elif shape == 6:
        k = rng.choice([2, 3])
        look = rng.choice([["get", k], ["get", k], ["getd", k, v()], ["setdefault", k, v()]])
        other = rng.choice([[["set", k, v()]], [["set", k, v()]], [["update", [[k, v()]], "list"]], [["ior", [[k, v()]], "dict"]],
                            [["set", k, v()], ["get", k]], [["del", k]], [["pop", k]], [["get", k]], [["setdefault", k, v()]]])
        threads = [[look], other]
        om, kind = 1, rng.choice(["LRU", "LRU", "LRI"])
        return {"kind": kind, "max": mx, "on_miss": om, "init": init, "threads": threads, "scheds": _sys_scheds(0, 1)}
    else:
        threads = [[["copy"]],
                   [rng.choice([["set", 2, v()], ["set", 0, v()], ["del", 0], ["clear"], ["popitem"], ["pop", 0],
                                ["update", [[2, v()], [3, v()]], "iter"], ["setdefault", 2, v()], ["get", 0]])] +
                   ([["set", 3, v()]] if rng.random() < 0.4 else [])]
        om, kind = rng.choice([0, 0, 1]), rng.choice(["LRI", "LRU"])
    a = rng.randrange(len(threads))
    b = (a + 1 + rng.randrange(len(threads) - 1)) % len(threads)
    return {"kind": kind, "max": mx, "on_miss": om, "init": init, "threads": threads, "scheds": _sys_scheds(a, b)}


def _grid3_case(rng, cap):
    """three threads, one operation each: thread a pre-empted before its opcode k1, thread b runs and
    is pre-empted before its opcode k2, thread c runs to the end, then the others finish -- all (k1, k2)"""
    mx = rng.choice([1, 2, 2])
    ops = [rng.choice(GRID_OPS) for _ in range(3)]
    return {"kind": rng.choice(["LRI", "LRU"]), "max": mx, "on_miss": rng.choice([0, 0, 1]),
            "init": [[0, 1], [1, 2]][:mx], "threads": [[o] for o in ops], "scheds": [["grid2", rng.randrange(3), cap]]}


def _all_pairs_sweeps():
    """thorough tier: EVERY ordered pair of the 19 representative operations, thread 0 pre-empted at
    EVERY opcode boundary (one pre-emption), thread 1 runs in the window -- complete, no stride"""
    i = 0
    for a in GRID_OPS:
        for b in GRID_OPS:
            i += 1
            yield {"kind": "LRI" if i % 2 else "LRU", "max": 2, "on_miss": 1 if i % 3 == 1 else 0,
                   "init": [[0, 1], [1, 2]], "threads": [[a], [b]], "scheds": _sys_scheds(0, 1)}


def _all_pairs_grids():
    """thorough tier: EVERY ordered pair of the 19 representative operations, one per thread, on a
    full cache (max_size 2, class and on_miss alternating), over the grid of <= 2 pre-emptions"""
    i = 0
    for a in GRID_OPS:
        for b in GRID_OPS:
            i += 1
            yield {"kind": "LRU" if i % 2 else "LRI", "max": 2, "on_miss": 1 if i % 3 == 0 else 0,
                   "init": [[0, 1], [1, 2]], "threads": [[a], [b]], "scheds": [["grid2", 0, 1200]]}


def generate(rng, tier, n):
    if tier == "thorough":
        for c in _all_pairs_grids():
            yield c
        for c in _all_pairs_sweeps():
            yield c
        for i in range(350):
            yield _shape_case(rng, i)
    for _ in range(6 if tier == "quick" else 120):
        yield _grid_case(rng, 300 if tier == "quick" else 2500)
    for _ in range(2 if tier == "quick" else 60):
        yield _grid3_case(rng, 300 if tier == "quick" else 1200)
    for i in range(n):
        if i % 10 == 7:
            yield _race_case(rng)
            continue
        if i % 10 == 9 or i % 10 == 5:
            yield _shape_case(rng, i // 5)
            continue
        c = _gen_program(rng, tier)
        nth = len(c["threads"])
        if i % 10 == 3:
            a = rng.randrange(nth)
            b = (a + 1 + rng.randrange(nth - 1)) % nth
            c["scheds"] = _sys_scheds(a, b)
        else:
            c["scheds"] = _rand_scheds(rng, nth, 14 if tier == "quick" else 30)
        yield c


# ---------------------------------------------------------------------------------------
# running the real code
def _arg(style, pairs):
    ps = [(key_obj(k), val_obj(v)) for k, v in pairs]
    if style == "dict":
        return dict(ps)
    if style == "list":
        return list(ps)
    if style == "iter":
        return iter(list(ps))
    return (p for p in ps)


def _do_op(cache, op, miss_default=None):
    """run one public operation; -> JSON result"""
    name = op[0]
    if name == "set":
        cache[key_obj(op[1])] = val_obj(op[2])
        return ["none"]
    if name == "get":
        return ["val", vtok(cache[key_obj(op[1])])]
    if name == "getd":
        return ["val", vtok(cache.get(key_obj(op[1]), val_obj(op[2])))]
    if name == "del":
        del cache[key_obj(op[1])]
        return ["none"]
    if name == "pop":
        return ["val", vtok(cache.pop(key_obj(op[1])))]
    if name == "popd":
        return ["val", vtok(cache.pop(key_obj(op[1]), val_obj(op[2])))]
    if name == "popitem":
        k, v = cache.popitem()
        return ["item", ktok(k), vtok(v)]
    if name == "clear":
        r = cache.clear()
        return ["none"] if r is None else ["bad"]
    if name == "setdefault":
        return ["val", vtok(cache.setdefault(key_obj(op[1]), val_obj(op[2])))]
    if name == "update":
        r = cache.update(_arg(op[2], op[1]))
        return ["none"] if r is None else ["bad"]
    if name == "ior":
        c2 = cache
        c2 |= _arg("dict", op[1])
        return ["none"] if c2 is cache else ["bad"]
    if name == "eq":
        r = (cache == _arg("dict", op[1]))
        return ["bool", 1 if r is True else 0] if isinstance(r, bool) else ["bad"]
    if name in ("eqc", "nec"):
        # the other operand is a private cache of the same class holding the given items
        other = type(cache)(max_size=8)
        for kk, vv in op[1]:
            other[key_obj(kk)] = val_obj(vv)
        r = (cache == other) if name == "eqc" else (cache != other)
        return ["bool", 1 if r is True else 0] if isinstance(r, bool) else ["bad"]
    if name == "ne":
        r = (cache != _arg("dict", op[1]))
        return ["bool", 1 if r is True else 0] if isinstance(r, bool) else ["bad"]
    if name == "copy2":
        import copy as _copy
        return ["copy", _copy.copy(cache)]
    if name == "eqself":
        r = (cache == cache)
        return ["bool", 1 if r is True else 0] if isinstance(r, bool) else ["bad"]
    if name == "copy":
        return ["copy", cache.copy()]
    if name in ("or", "ror", "repr"):
        # all items at one instant, through the three reading methods that return them as a value
        if name == "or":
            d = cache | {}
        elif name == "ror":
            d = {} | cache
        else:
            txt = repr(cache)
            head = "%s(max_size=%r, on_miss=" % (type(cache).__name__, cache.max_size)
            if not (txt.startswith(head) and txt.endswith(")") and ", values=" in txt):
                return ["bad"]
            d = eval(txt[txt.index(", values=") + len(", values="):-1], {"__builtins__": {}, "frozenset": frozenset})
        if type(d) is not dict:
            return ["bad"]
        return ["items", sorted([ktok(k), vtok(v)] for k, v in d.items())]
    if name == "len":
        return ["nat", len(cache)]
    if name == "in":
        return ["bool", 1 if key_obj(op[1]) in cache else 0]
    raise AssertionError(op)


def _probe(cache, mx):
    """eviction order through the public API: insert max_size fresh keys one by one and
    record which old keys vanish after each insertion."""
    items = sorted([ktok(k), vtok(v)] for k, v in cache.items())
    ln = len(cache)
    old = set(k for k, _ in items)
    steps, exn = [], None
    try:
        for i in range(mx):
            cache[key_obj(100 + i)] = val_obj(FRESH_VALUE_TOKEN)
            now = set(ktok(k) for k in cache.keys()) & old
            steps.append(sorted(old - now))
            old = now
        post = len(cache)
    except Exception as e:           # the cache is unusable: Coq rejects any Some exn
        exn = "Other9" if isinstance(e, BadValue) else exn_code(e)
        post = 0
    return {"items": items, "len": ln, "probe": steps, "probe_exn": exn, "post_len": post}


_CU = {}


def _cacheutils():
    if "m" not in _CU:
        import boltons.cacheutils as cu
        _CU["m"] = cu
        _CU["file"] = cu.__file__
        repo = os.environ.get("VERIF_REPO", "/repo")
        assert os.path.realpath(cu.__file__).startswith(os.path.realpath(repo) + os.sep), \
            "boltons imported from %s, not from %s" % (cu.__file__, repo)
        # CPython 3.12: the first traced thread of a process gets no opcode events (seen: count 0);
        # warm the tracing machinery up so that opcode positions are the same in every process
        _CU["warm"] = True
        warm = {"kind": "LRU", "max": 2, "on_miss": 1, "init": [[0, 1]],
                "threads": [[["set", 1, 2], ["get", 2]], [["get", 0]]]}
        for _ in range(2):
            _one_run(warm, [(0, 5, 1)], 0)
    return _CU["m"], _CU["file"]


def _one_run(case, plan, start):
    """one schedule on a fresh cache -> (raw observation dict, scheduler)"""
    import c03_sched
    cu, cu_file = _cacheutils()
    cls = cu.LRU if case["kind"] == "LRU" else cu.LRI
    import c03_onmiss
    calls = []
    on_miss = c03_onmiss.make(ktok, val_obj, calls) if case["on_miss"] else None
    cache = cls(max_size=case["max"], on_miss=on_miss)
    nth = len(case["threads"])
    sched = c03_sched.Sched(nth, plan, start, cu_file, extra_files=(c03_onmiss.__file__,))
    kind = c03_sched.lock_kind(cache._lock)
    # the lock is replaced BEFORE the sequential set-up: with a non re-entrant lock even a
    # single-threaded insert (__setitem__ -> len(self)) blocks on itself; on the real lock that
    # would hang this process, on the scheduler's lock it is reported as a deadlock at once
    cache._lock = c03_sched.SchedLock(sched, reentrant=(kind == "rlock"))
    try:
        for k, v in case["init"]:
            cache[key_obj(k)] = val_obj(v)
    except c03_sched.SelfDeadlock:
        return ({"status": "deadlock", "order": [], "results": [[] for _ in range(nth)], "items": [], "len": 0,
                 "probe": [], "probe_exn": None, "post_len": 0, "calls": 0}, sched)
    results = [[] for _ in range(nth)]

    def body(tid):
        for i, op in enumerate(case["threads"][tid]):
            sched.opidx[tid] = i
            try:
                r = _do_op(cache, op)
                if r[0] == "copy" and kind != "rlock":
                    # the private copy got the same kind of lock from its constructor
                    r[1]._lock = c03_sched.SchedLock(sched, reentrant=False)
            except BadValue:
                r = ["bad"]
            except Exception as e:
                r = ["exn", exn_code(e)]
            results[tid].append(r)
    status = sched.run([body] * nth)
    obs = {"status": status, "order": [list(x) for x in sched.order], "results": results, "calls": len(calls)}
    if status == "done":
        # copies are private objects: probe them now, outside any schedule
        for rs in results:
            for r in rs:
                if r[0] == "copy":
                    cp = r[1]
                    try:
                        pr = _probe(cp, case["max"])
                    except c03_sched.SelfDeadlock:
                        r[:] = ["bad"]
                        continue
                    flat = [k for st in pr["probe"] for k in st]
                    vals = dict((k, v) for k, v in pr["items"])
                    ok = (pr["probe_exn"] is None and len(flat) == len(pr["items"]) == pr["len"]
                          and all(len(st) <= 1 for st in pr["probe"]) and type(cp) is type(cache)
                          and cp.max_size == cache.max_size and pr["post_len"] == case["max"])
                    r[:] = ["items", [[k, vals[k]] for k in flat]] if ok else ["bad"]
        try:
            obs.update(_probe(cache, case["max"]))
        except c03_sched.SelfDeadlock:
            obs.update({"status": "deadlock", "items": [], "len": 0, "probe": [], "probe_exn": None, "post_len": 0})
    else:
        for rs in results:
            for r in rs:
                if r[0] == "copy":
                    r[:] = ["bad"]
        obs.update({"items": [], "len": 0, "probe": [], "probe_exn": None, "post_len": 0})
    return obs, sched


def _expand_scheds(case):
    """concrete (start, plan) list; plans use absolute per-thread opcode counts.  Returns (list, grid info)"""
    nth = len(case["threads"])
    base = _one_run(case, [], 0)[1].count          # opcodes per thread without pre-emption
    out, seen, grid = [], set(), None
    for s in case["scheds"]:
        if s[0] == "grid2":
            a, cap = s[1] % nth, s[2]
            b = (a + 1) % nth
            c3 = (a + 2) % nth if nth >= 3 else a      # with 3 threads the second pre-emption hands over to the third
            na, nb = base[a] + 1, base[b] + 1
            s1 = s2 = 1
            while ((na + s1 - 1) // s1) * ((nb + s2 - 1) // s2) > cap:
                if na // s1 >= nb // s2:
                    s1 += 1
                else:
                    s2 += 1
            pts = 0
            out.append((a, []))
            for k1 in range(0, na, s1):
                out.append((a, [(a, k1, b)]))
                for k2 in range(0, nb, s2):
                    out.append((a, [(a, k1, b), (b, k2, c3)]))
                    pts += 1
            grid = {"stride": [s1, s2], "n": pts, "opcodes": [na, nb]}
            continue
        kind, start, pre = s[0], s[1] % nth, s[2:]
        plan = []
        for (tid, x, to) in pre:
            if tid >= nth:
                continue
            k = x if kind == "a" else (x * (base[tid] + 1)) // 1000
            if kind == "a" and k > base[tid] + 40:
                continue                               # beyond the thread's last opcode: no effect
            plan.append((tid, k, to % nth))
        key = (start, tuple(sorted(plan)))
        if key not in seen:
            seen.add(key)
            out.append((start, plan))
    return out, grid


def run_impl(case):
    runs = {}
    nsched = 0
    switched = blocked = 0
    scheds, grid = _expand_scheds(case)
    for (start, plan) in scheds:
        obs, sched = _one_run(case, plan, start)
        nsched += 1
        switched += 1 if sched.switches > len(case["threads"]) - 1 else 0
        blocked += 1 if sched.blocked_acquires else 0
        import json
        key = json.dumps(obs, sort_keys=True)
        if key not in runs:
            obs["first_sched"] = ["a", start] + [list(p) for p in plan]
            obs["mult"] = 0
            runs[key] = obs
        runs[key]["mult"] += 1
    return {"runs": list(runs.values()), "n_sched": nsched, "n_switched": switched, "n_blocked": blocked, "grid": grid}


# ---------------------------------------------------------------------------------------
# rendering for Coq
def _pairs(l):
    return clist(cpair(cnat(k), cnat(v)) for k, v in l)


def _op_coq(op):
    n = op[0]
    if n == "set":
        return "SetItem %s %s" % (cnat(op[1]), cnat(op[2]))
    if n == "get":
        return "GetItem %s" % cnat(op[1])
    if n == "getd":
        return "Get %s %s" % (cnat(op[1]), cnat(op[2]))
    if n == "del":
        return "DelItem %s" % cnat(op[1])
    if n == "pop":
        return "Pop %s None" % cnat(op[1])
    if n == "popd":
        return "Pop %s (Some %s)" % (cnat(op[1]), cnat(op[2]))
    if n == "popitem":
        return "PopItem"
    if n == "clear":
        return "Clear"
    if n == "setdefault":
        return "SetDefault %s %s" % (cnat(op[1]), cnat(op[2]))
    if n == "update":
        return "Update %s" % _pairs(op[1])
    if n == "ior":
        return "Ior %s" % _pairs(op[1])
    if n == "eq":
        return "EqDict %s" % _pairs(op[1])
    if n == "ne" or n == "nec":
        return "NeDict %s" % _pairs(op[1])
    if n == "eqc":
        return "EqDict %s" % _pairs(op[1])
    if n == "copy2":
        return "CopyCopy"
    if n == "eqself":
        return "EqSelf"
    if n == "copy":
        return "Copy"
    if n in ("or", "ror", "repr"):
        return "Snapshot %s" % {"or": "SOr", "ror": "SRor", "repr": "SRepr"}[n]
    if n == "len":
        return "Len"
    if n == "in":
        return "Contains %s" % cnat(op[1])
    raise ValueError(op)


def _rv_coq(r):
    t = r[0]
    if t == "none":
        return "RNone"
    if t == "val":
        return "RVal %s" % cnat(r[1])
    if t == "bool":
        return "RBool %s" % cbool(r[1])
    if t == "item":
        return "RItem %s %s" % (cnat(r[1]), cnat(r[2]))
    if t == "items":
        return "RItems %s" % _pairs(r[1])
    if t == "nat":
        return "RNat %s" % cnat(r[1])
    if t == "exn":
        return "RExn %s" % exn_coq(r[1])
    if t == "bad":
        return "RExn (OtherExn 77%nat)"       # a result of the wrong shape: never acceptable
    raise ValueError(r)


def _run_coq(run):
    status = {"done": "Done", "deadlock": "Deadlock", "hang": "Hang"}[run["status"]]
    out = "mkOutcome %s %s %s %s %s %s %s" % (
        status,
        clist(clist(_rv_coq(r) for r in rs) for rs in run["results"]),
        _pairs(run["items"]), cnat(run["len"]),
        clist(clist(cnat(k) for k in st) for st in run["probe"]),
        copt(exn_coq(run["probe_exn"]) if run["probe_exn"] else None),
        cnat(run["post_len"]))
    return "mkRun %s (%s) %s" % (clist(cpair(cnat(t), cnat(i)) for t, i in run["order"]), out, cnat(run.get("calls", 0)))


def to_coq(case, obs):
    return "mkCase %s %s %s %s %s %s" % (
        case["kind"], cnat(case["max"]), cbool(case["on_miss"]), _pairs(case["init"]),
        clist(clist(_op_coq(o) for o in th) for th in case["threads"]),
        clist(_run_coq(r) for r in obs["runs"]))


# ---------------------------------------------------------------------------------------
def corrupt(case, obs):
    """wrong observations for the canary (rotating): a lost update / a wrong eviction order /
    a wrong returned value"""
    import copy
    bad = copy.deepcopy(obs)
    for r in bad["runs"]:
        if r["status"] != "done":
            continue
        if r["items"]:
            r["items"][0][1] = (r["items"][0][1] + 1) % 90      # a value nobody wrote
            return bad
        if len(r["probe"]) >= 1:
            r["len"] += 1
            return bad
    return None


def nontrivial(case, obs):
    return obs["n_switched"] > 0 and (obs["n_blocked"] > 0 or len(obs["runs"]) >= 2)


def distribution(d, case, obs):
    def inc(group, k, by=1):
        d.setdefault(group, {})
        d[group][k] = d[group].get(k, 0) + by
    inc("kind", case["kind"])
    inc("max_size", str(case["max"]))
    inc("threads", str(len(case["threads"])))
    inc("on_miss", str(case["on_miss"]))
    for th in case["threads"]:
        for op in th:
            inc("ops", op[0])
    inc("schedules", "total", obs["n_sched"])
    inc("schedules", "switched_inside_cacheutils", obs["n_switched"])
    inc("schedules", "blocked_on_lock", obs["n_blocked"])
    inc("distinct_outcomes_per_case", str(len(obs["runs"])))
    for r in obs["runs"]:
        inc("status", r["status"])
        for rs in r["results"]:
            for x in rs:
                if x[0] == "exn":
                    inc("exceptions", x[1])
    if len(case["scheds"]) >= SYS_POSITIONS:
        inc("systematic_cases", "single_preemption_sweeps")
    if obs.get("grid"):
        inc("systematic_cases", "two_preemption_grids")


def sample(case, obs):
    return {"case": {k: case[k] for k in ("kind", "max", "on_miss", "init", "threads")},
            "schedules": obs["n_sched"], "distinct_outcomes": len(obs["runs"]),
            "first_outcome": {k: obs["runs"][0][k] for k in ("order", "results", "items", "probe", "first_sched")}}


def shrink(case):
    """smaller cases: first halve the schedule list (cheap rounds), then drop an operation /
    an initial item"""
    import copy
    if len(case["scheds"]) > 1:
        half = len(case["scheds"]) // 2
        for part in (case["scheds"][:half], case["scheds"][half:]):
            c = copy.deepcopy(case)
            c["scheds"] = part
            yield c
        return
    for t, th in enumerate(case["threads"]):
        for i in range(len(th)):
            if sum(len(x) for x in case["threads"]) <= 1:
                break
            c = copy.deepcopy(case)
            del c["threads"][t][i]
            yield c
    for i in range(len(case["init"])):
        c = copy.deepcopy(case)
        del c["init"][i]
        yield c


def search(rng, tier, n, broken):
    """directed search after a broken tie: small two-thread programs, EVERY single
    pre-emption position of one thread (both roles), all methods in rotation"""
    first_ops = [["set", 0, 7], ["set", 2, 7], ["get", 0], ["getd", 2, 9], ["del", 0], ["pop", 0], ["popitem"],
                 ["clear"], ["setdefault", 2, 9], ["update", [[2, 7], [3, 8]], "list"], ["ior", [[2, 7]], "dict"],
                 ["eq", [[0, 1], [1, 2]]], ["copy"], ["setdefault", 0, 9], ["popd", 0, 5], ["get", 2]]
    second = [[["set", 3, 11]], [["del", 0]], [["get", 0], ["set", 3, 11]], [["pop", 1], ["set", 0, 12]],
              [["set", 0, 13]], [["popitem"]], [["clear"], ["set", 4, 5]], [["copy"]], [["setdefault", 2, 6]],
              [["get", 2]], [["update", [[3, 4], [4, 5]], "dict"]], [["in", 0], ["in", 2]], [["len"]], [["or"]],
              [["in", 2], ["in", 3]], [["repr"]], [["ne", [[0, 1], [1, 2]]]], [["copy2"]]]
    combos = [(a, b) for a in first_ops for b in second]
    rng.shuffle(combos)
    count = 0
    for i in range(min(n // 2, 70)):                 # the shape templates first: they aim at the narrow windows
        yield _shape_case(rng, i)
        count += 1
    for (a, b) in combos:
        kind = rng.choice(["LRI", "LRU"])
        mx = rng.choice([2, 2, 3])
        init = [[0, 1], [1, 2], [5, 3]][:mx]
        om = rng.choice([0, 0, 1])
        for (x, y) in ((0, 1), (1, 0)):
            if count >= n:
                return
            yield {"kind": kind, "max": mx, "on_miss": om, "init": init,
                   "threads": [[a], b] if x == 0 else [b, [a]], "scheds": _sys_scheds(x, y)}
            count += 1
